#!/bin/bash
# usage: tools/with_patch.sh <patch.diff> <check id>...   - runs checks on a scratch copy of /repo with the patch applied
set -e
P=$(readlink -f "$1"); shift
D=$(mktemp -d /var/tmp/verif-mut-XXXXXX)
trap 'rm -rf "$D"' EXIT
rsync -a --exclude _build --exclude .git /repo/ "$D/"
( cd "$D" && patch -p1 -s < "$P" )
cd "$(dirname "$(readlink -f "$0")")/.."
for c in "$@"; do VERIF_REPO="$D" VERIF_CACHE_DIR="$D/.verif-cache" VERIF_EVIDENCE_DIR="$D/.verif-evidence" VERIF_REPORT_DIR="$D/.verif-reports" ./check "$c" | grep -v "^  [A-Z][0-9]* \|^    " ; echo "exit=${PIPESTATUS[0]}"; done
