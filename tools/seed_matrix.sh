#!/bin/bash
# usage: tools/seed_matrix.sh [seed dir ...]   - for every seeded defect: check that the patch applies to /repo with
# git apply, run the check of its property on a scratch copy with the patch applied, print one line per seed.
cd /verif
seeds=("$@"); [ ${#seeds[@]} -eq 0 ] && seeds=(seeded/*/)
for d in "${seeds[@]}"; do
  d=${d%/}; p=$(python3 -c "import json;print(json.load(open('$d/meta.json'))['property'])")
  git -C /repo apply --check /verif/$d/patch.diff 2>/dev/null && a=applies || a=NO-APPLY
  out=$(timeout 1500 tools/with_patch.sh $d/patch.diff $p 2>&1)
  rc=$(echo "$out" | grep -o "exit=[0-9]*" | tail -1)
  rules=$(echo "$out" | grep "violation:" | sed 's/^ *violation: \([A-Z0-9]*\)|.*/\1/' | sort -u | tr '\n' ',' )
  echo "$(basename $d) | $p | $a | $rc | ${rules%,}"
done
