#!/bin/bash
# Builds /repo (no hooks exist, so guard-off is the plain build) into a scratch
# directory and runs the repository's own test-suite there.
set -e
S=$(mktemp -d /var/tmp/verif-baseline-XXXXXX)
trap 'rm -rf "$S"' EXIT
cmake -S /repo -B "$S" -G Ninja -DCMAKE_BUILD_TYPE=RelWithDebInfo >/dev/null
cmake --build "$S" -j16 >/dev/null
ctest --test-dir "$S" -j8 --timeout 900
