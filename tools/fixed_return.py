#!/usr/bin/env python3
"""tools/fixed_return.py [-j N]
For every 'fixed:' entry of known_findings.json: take a scratch copy of /repo, reverse the fix commit
(git show <commit> | patch -R), run the check of the property and require that it reports a
violation again (exit 1).  A fixed entry suppresses nothing, so the defect must be reported if it returns.
Prints one line per entry; exit 1 if some reverted fix is not reported."""
import concurrent.futures as cf
import json, os, re, shutil, subprocess, sys, tempfile
V = '/verif'
jobs = 6
ONLY = os.environ.get('ONLY', '')
if sys.argv[1:2] == ['-j']:
    jobs = int(sys.argv[2])
k = json.load(open(os.path.join(V, 'known_findings.json')))
env0 = dict(os.environ, VERIF_CACHE_MAX='200')


def one(entry):
    m = re.match(r'fixed: property=(C\d+) ([0-9a-f]{7,}) (.*)', entry)
    prop, commit, what = m.groups()
    d = tempfile.mkdtemp(prefix='verif-ret-', dir='/var/tmp')
    try:
        subprocess.run(['rsync', '-a', '--exclude', '_build', '--exclude', '.git', '/repo/', d + '/'], check=True)
        ovr = os.path.join(V, 'tools', 'fixed_return_overrides', commit + '.diff')
        if os.path.exists(ovr):
            # a later fix touched the same lines: hand-written patch that re-introduces just this defect
            r = subprocess.run(['patch', '-p1', '-s', '--no-backup-if-mismatch'], input=open(ovr).read(), text=True, cwd=d, capture_output=True)
        else:
            diff = subprocess.run(['git', '-C', '/repo', 'show', '--format=', commit], capture_output=True, text=True, check=True).stdout
            r = subprocess.run(['patch', '-R', '-p1', '-s', '--no-backup-if-mismatch'], input=diff, text=True, cwd=d, capture_output=True)
        if r.returncode != 0:
            return prop, commit, 'REVERT-FAILED', (r.stdout + r.stderr).strip().splitlines()[:2]
        env = dict(env0, VERIF_REPO=d, VERIF_EVIDENCE_DIR=os.path.join(d, '_ev'), VERIF_REPORT_DIR=os.path.join(d, '_rp'), VERIF_CACHE_DIR=os.path.join(d, '_cache'))
        r = subprocess.run(['./check', prop], cwd=V, capture_output=True, text=True, env=env, timeout=3000)
        rules = sorted(set(re.findall(r'^\s*violation: ([A-Z0-9]+)\|', r.stdout, re.M)))
        return prop, commit, 'exit=%d' % r.returncode, rules
    finally:
        shutil.rmtree(d, ignore_errors=True)


bad = 0
with cf.ThreadPoolExecutor(jobs) as ex:
    for prop, commit, rc, rules in ex.map(one, [e for e in k['fixed'] if not ONLY or ONLY in e]):
        print('%s %s %s %s' % (prop, commit, rc, ','.join(map(str, rules))), flush=True)
        if rc != 'exit=1':
            bad += 1
print('%d fixed entr(ies), %d not reported when the fix is reverted' % (len(k['fixed']), bad))
sys.exit(1 if bad else 0)
