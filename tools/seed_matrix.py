#!/usr/bin/env python3
"""tools/seed_matrix.py [-j N] [seed dir ...]
For every seeded defect: does patch.diff apply to /repo (git apply --check), and does the check of its
own property report it when run on a scratch copy of /repo with the patch applied (tools/with_patch.sh)?
Writes seeded/MATRIX.txt and the field detected_by_own_check of each meta.json."""
import concurrent.futures as cf
import json, os, re, subprocess, sys
V = os.path.dirname(os.path.dirname(os.path.abspath(__file__)))
args = sys.argv[1:]
jobs = 6
if args[:1] == ['-j']:
    jobs = int(args[1]); args = args[2:]
seeds = [a.rstrip('/') for a in args] or sorted(os.path.join('seeded', d) for d in os.listdir(os.path.join(V, 'seeded'))
                                               if os.path.isdir(os.path.join(V, 'seeded', d)))
env = dict(os.environ, VERIF_CACHE_MAX='200')


def one(d):
    meta = json.load(open(os.path.join(V, d, 'meta.json')))
    p = meta['property']
    a = 'applies' if subprocess.run(['git', '-C', '/repo', 'apply', '--check', os.path.join(V, d, 'patch.diff')],
                                    capture_output=True).returncode == 0 else 'NO-APPLY'
    r = subprocess.run(['tools/with_patch.sh', os.path.join(d, 'patch.diff'), p], cwd=V, capture_output=True,
                       text=True, timeout=3000, env=env)
    out = r.stdout + r.stderr
    rc = (re.findall(r'exit=(\d+)', out) or ['?'])[-1]
    rules = sorted(set(re.findall(r'^\s*violation: ([A-Z0-9]+)\|', out, re.M)))
    return d, p, a, rc, rules


rows = []
with cf.ThreadPoolExecutor(jobs) as ex:
    for d, p, a, rc, rules in ex.map(one, seeds):
        rows.append('%s | %s | %s | exit=%s | %s' % (os.path.basename(d), p, a, rc, ','.join(rules)))
        print(rows[-1], flush=True)
        mp = os.path.join(V, d, 'meta.json')
        meta = json.load(open(mp))
        meta['detected_by_own_check'] = rules if rc == '1' else []
        json.dump(meta, open(mp, 'w'), indent=1)
if not args:
    open(os.path.join(V, 'seeded', 'MATRIX.txt'), 'w').write('\n'.join(rows) + '\n')
