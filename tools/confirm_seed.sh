#!/bin/bash
# usage: tools/confirm_seed.sh <worktree with _build> <seed dir (patch.diff, build_and_run.sh)> <log>
# Confirms independently: patch applies, library builds, full ctest passes with the patch,
# demo fails with the patch, demo passes without it.  Leaves the worktree clean.
WT="$1"; SD="$2"; LOG="$3"
exec >"$LOG" 2>&1
set -x
cd "$WT" || exit 9
git checkout -- . ; git apply --check "$SD/patch.diff" || { echo "RESULT apply=FAIL"; exit 1; }
git apply "$SD/patch.diff"
cmake --build _build -j8 >/dev/null 2>&1; B=$?
T=$(ctest --test-dir _build -j8 --timeout 900 2>&1 | grep -E "tests passed|tests failed" | tail -1)
timeout 600 bash "$SD/build_and_run.sh" "$WT" >"$LOG.demo_with" 2>&1; DW=$?
git checkout -- .
cmake --build _build -j8 >/dev/null 2>&1
timeout 600 bash "$SD/build_and_run.sh" "$WT" >"$LOG.demo_without" 2>&1; DO=$?
set +x
echo "RESULT apply=ok build_rc=$B ctest='$T' demo_with_patch_rc=$DW demo_without_patch_rc=$DO"
