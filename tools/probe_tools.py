#!/usr/bin/env python3
import shutil, subprocess, sys
ok = True
for t in ('clang++', 'cmake', 'ninja'):
    p = shutil.which(t)
    if not p:
        print('missing tool', t); ok = False
r = subprocess.run(['clang++', '--version'], stdout=subprocess.PIPE, text=True)
print(r.stdout.splitlines()[0] if r.stdout else 'clang++ ?')
sys.exit(0 if ok else 1)
