#!/usr/bin/env python3
"""Regenerates MANIFEST.json from the table below (kept in one place so the
manifest is always valid)."""
import json, os
HERE = os.path.dirname(os.path.dirname(os.path.abspath(__file__)))

CLAIMED = {
 'C12': dict(
   technique='static DDL comparison: clang-AST statement lists of the creators interpreted over a catalog model vs parsed reference dumps',
   text='Exhaustive static comparison: for all 19 creator classes, the DDL statement list of the final overriders (read from the type-checked clang AST) is interpreted over a SQLite catalog model and compared object by object with the 57 reference dumps of the same version/variant; version constants, Information binds, to_string and the factory switch are cross-checked. Decides the schema-equality clause for every version that has a reference; a dropped/altered trigger, view, index, column or constraint in any creator is reported with the object name.',
   note='Trusted: clang 14 parser/Sema, the self-written SQL reader and catalog model (validated by C17 against the 358 verify_* expectation blocks), reference dumps as oracle. Not decided here: verify() acceptance (C17), detection on load (C13), behaviour of SQLite executing the DDL.',
   ref='DESIGN.md 4 C12'),
 'C13': dict(
   technique='finite evaluation of the detection code (nested switch / if / ?: read from the clang AST) over an exhaustive box of version triples, layout truth table, dispatch table',
   text='Exhaustive decision-table check without execution: detect_schema is evaluated structurally for every (major, minor, patch) in a box built from all case labels and their neighbours (the code compares version members only by equality - checked - so the box is exhaustive), each cell compared with the supported set read from engine_schema.hpp; the 1.18.0 variant marker is evaluated against the DDL of both 1.18.0 creators; detect_is_database2 over all 8 presence combinations; load/create/exists dispatch for every enumerator and layout, out-parameter assignment and handler types.',
   note='Trusted: clang AST, the finite evaluator (sa/feval.py), SQLite returning the stored Information row. Known finding: triple 3.0.0 is accepted (pinned reference test requires it).',
   ref='DESIGN.md 4 C13'),
 'C17': dict(
   technique='typestate check of the expectation blocks + static comparison of their literal lists with the SQLite catalog derived from the creators\' DDL and from the reference dumps; dataflow check of the validate helpers',
   text='Exhaustive static check of the validator: all expectation blocks reachable from each class\'s verify() (1275 block instances, helper parameters bound to call-site literals, virtual calls resolved per dynamic class) are read from the clang AST; V1 checks their iterator typestate (validate / ++iter alternation, own iterators, validate_no_more terminator); V2 requires the literal expectations to equal, entry by entry and in std::set order, what a catalog model of SQLite derives from the same class\'s DDL, and every table / index / index column to be covered by a block; V3 requires the same against each of the 57 reference dumps; V4 checks by dataflow that each validate helper compares every listed attribute with the entry member of the same meaning and throws database_inconsistency. Together these imply the reject side for every single structural deviation the property lists, which no existing test exercises.',
   note='Trusted: clang AST; the catalog model of PRAGMA table_info/index_list/index_info/sqlite_master (cross-validated: it reproduces all hand-written expectation blocks, which pass on real SQLite in the pinned suite). Since the hunt round: view columns are required to have a block (V8: the 2.x validators have none - known findings), the column listing must show generated columns (V7, known finding) and a failure of the validator\'s own statements must surface as database_inconsistency (V9). Not decided: the key expression, sort order and collation of an index (not among the deviations the property lists); trigger and view bodies.',
   ref='DESIGN.md 4 C17'),
 'C05': dict(
   technique='abstract interpretation over the clang AST (cursor / interval domain with linear lower bounds, inferred loop invariants, helpers inlined) + finite evaluation of the inflate status handling',
   text='Sound-by-construction memory-safety argument for the 11 decoders and the decompressor without running them: a path-enumerating abstract interpreter tracks, for every pointer into a byte buffer, linear lower bounds of the bytes remaining; every dereference, ptr[i], memcpy/assign source and pointer advance is an obligation proved from dominating guards and inferred loop invariants (counted-loop relational invariants and descending fix-points), wire-derived signed arithmetic is checked against its type range, container indexing and the end pointer against the buffer, loops for progress, the inflate loop for termination over every status code with the input exhausted, and thrown types for derivation from std::exception. An unproved obligation with a fully modelled path is a violation naming the call chain; unmodelled constructs are exit 2.',
   note='Trusted: clang AST, sa/absint.py + sa/lin.py, zlib\'s inflate contract, buffers < 2^31 bytes, allocation failure surfacing as an exception. Not decided: wall-clock promptness beyond loop progress. Five genuine defects found by this check were repaired (known_findings.json, fixed entries).',
   ref='DESIGN.md 4 C05'),
 'C02': dict(
   technique='grammar extraction from the clang AST (emission / consumption order of fixed-width primitives, repeat groups, byte runs) compared with an independent declarative layout table; bit-level analysis of the primitives',
   text='The independent decoder of the property is a declarative layout table (spec/blob_layout.json, written from the Engine format description, not from the code). L1 derives, from the AST of each of the 14 primitives, which byte carries which bit range and the cursor advance, and compares with little/big-endian; L2/L3 extract the ordered emission grammar of the 11 encoders and the consumption grammar of the 11 decoders (helpers inlined, optional-slot alternatives enumerated, label and count idioms normalised) and match them item by item (primitive kind, logical field, repeat group, byte run) against the table; L4 checks the 4-byte big-endian length + deflate framing in compressor, decompressor and per codec (loops raw). Encoder and decoder cannot drift together: each is compared with the table, not with the other.',
   note='Trusted: clang AST, sa/codec.py, the layout table as statement of the format (DESIGN.md Appendix A), zlib. Not decided: that real players accept the deflate stream parameters; value-level equality follows from the layout only for the structural part.',
   ref='DESIGN.md 4 C02'),
}

CLAIMED['C16'] = dict(
   technique='interprocedural effect analysis: SQL statements parsed from string literals at every statement site, propagated over the resolved call graph (class-hierarchy analysis for virtual calls), judged per public observing operation',
   text='Effect analysis without execution: the public surface (database, crate, track, the five 2.x table classes, engine_library, load_database, database_exists) is re-materialised from the type-checked headers and split into observers and mutators; for each of the observers the set of SQL statements and file-system calls reachable through any overrider is computed from the resolved call graph; E1 requires it to contain only SELECT / read-only PRAGMA / ATTACH of existing files, E2 no transaction, E3 no directory creation, schema creation, output stream or non-literal statement, E4 an existence test of the very same symbolic path before each ATTACH and each sqlite::database open, E5 (positive control) every mutator must show a write through the same graph. Holds for all inputs and states because it quantifies over code paths, not executions.',
   note='Trusted: clang AST, call-graph construction (sa/callgraph.py), the SQL reader; SQLite: SELECT and read-only PRAGMA change nothing, opening/attaching an existing file does not change it. Not decided: journal/WAL side files. One genuine defect repaired (loading a legacy library without p.db created it).',
   ref='DESIGN.md 4 C16')

CLAIMED['C14'] = dict(
   technique='path-sensitive typestate / effect analysis over the structured clang AST: write units and sqlite_transaction scopes tracked along every path of every mutating entry point, callees inlined over the resolved call graph',
   text='Decides, for every mutating public operation on an existing library (116 entry points: track / crate / database facade methods and the mutators of the five 2.x table classes) and for every fault position at once, the structural condition for atomicity: along every path, nothing (no write, no read) executes after the first completed write unit unless both lie in one live sqlite_transaction (A1); every transaction is committed on every normally-leaving path (A2); none is opened while another is live (A3); no catch handler on a mutator call tree can swallow an SQL error (A4); the guard class itself has BEGIN / ROLLBACK-unless-committed / COMMIT-then-flag shape (A5). No fault is injected: a two-statement setter outside a transaction is non-atomic at every fault position k >= 2.',
   note='Trusted: clang AST, sa/atomic.py, SQLite per-statement atomicity (incl. triggers) and rollback. Not decided: library creation (many DDL statements, no transaction - the property speaks of tracks, crates, membership, fields), that the library stays usable beyond no leaked transaction. Three genuine defects repaired (v1 set_bpm, set_last_played_at, set_relative_path); five known findings in the 2.x track handle (no connection available there).',
   ref='DESIGN.md 4 C14')

CLAIMED['C03'] = dict(
   technique='grammar extraction from the clang AST for encoder and decoder of each codec, symbolic extent computation (linear forms over container sizes), dominance check of range guards, enumerator comparison for sentinel constants, finite evaluation of the zlib chunk loops',
   text='Decides the structural conditions under which decode(encode(x)) == x for all x, for the 11 codecs: S1 the emission grammar of each encoder equals the consumption grammar of its decoder item by item (primitive kind and byte order, logical field, repeat count source, byte runs), both read from the code and compared with each other (no table); S2 every container length narrowed into a one-byte wire field is dominated by a throwing range guard; S3 the bytes an encoder writes, as a linear form in container sizes and label lengths, equal the bytes it allocated; S4 no absent-sentinel constant is a legal present value (enum-typed fields against every enumerator; the -1 empty-slot offsets; an enumerated table of 0-is-unknown conventions); S5 every 1.x write path applies the decode-after-encode guard; S6 the shared compressor emits one complete deflate stream for every payload size and neither zlib loop drops pending output.',
   note='Trusted: clang AST, sa/codec.py, zlib. Not decided: bit-pattern preservation of doubles beyond the byte placement of C02-L1. Two genuine defects repaired (label length, v1 cue buffer size); two known findings (c_major sentinel in 1.x trackData, unguarded 1.x bulk write path).',
   ref='DESIGN.md 4 C03')
CLAIMED['C04'] = dict(
   technique='grammar extraction of the five 2.x codecs with field-type resolution; alias and member-assignment tracking in the 2.x track setters (read-modify-write typestate)',
   text='P1 decides that each 2.x codec is structurally lossless for every accepted byte string: every wire item the decoder consumes lands unchanged in a struct field at least as wide as the wire type (bool only for the one byte the property names), the encoder emits exactly that field at the same position with the same byte order, counts are container sizes, trailing bytes are captured to the end and emitted last, nothing is skipped or replaced by a constant. P2 decides the consequence for the API: each of the 13 blob writes in the 2.x track setters passes the object obtained from the matching getter in the same call and assigns only members of its own logical field (an indexed setter only the indexed element; sibling setters inlined).',
   note='Trusted: clang AST, sa/codec.py, zlib round trip. The intended-member table in sa/rules/c04.py is a semantic slot table (which wire members make up a logical field). One genuine defect repaired (set_loops dropped trailing data).',
   ref='DESIGN.md 4 C04')

CLAIMED['C18'] = dict(
   technique='statement-level static analysis: SQL parsed from string literals, binds and sinks resolved to row fields through the clang AST, names resolved against the DDL catalogs of every supported 2.x version, schema-guard intervals, accessor pairing',
   text='For the five 2.x table classes (131 statement instances, helper statements expanded per call-site literal): B1 placeholders == binds, INSERT widths, SELECT width == sink arity; B2 every row-level statement (add / get / update in each of the three schema ranges) ties each column to the same row field and each field to one column - a transposed or misplaced bind in any one of the 48-column statements is reported with both names; B3 every table and column named exists in the DDL of every version the enclosing schema guards admit; B4 the 96 column accessors pair up (get_X / set_X same column) and the column carries row field X; B5 column accessors and remove() test result presence / rows_modified() and throw; B6 an accessor is refused for exactly the versions whose Track table lacks the column.',
   note='Trusted: clang AST, SQL reader, catalog model (validated under C17). Not decided: time_point <-> integer/text conversion values, affinity conversions inside SQLite, equality of whole rows after arbitrary sequences. Two genuine defects repaired (remove() of a nonexistent row; entity removal keyed by the wrong column).',
   ref='DESIGN.md 4 C18')

CLAIMED['C01'] = dict(
   technique='value-flow (provenance) analysis: abstract interpretation of snapshot(), update() and create_track() of both generations over the clang AST with all repository callees inlined down to the SQL statement sites, per schema range; plus statement-level shape / agreement / name-resolution rules',
   text='Decides the structural part of the round trip for every schema range the code distinguishes (9 representative versions) and each of the 25 snapshot fields: R4 the set of storage locations (table, column, key/value discriminator, member inside a decoded blob) that snapshot() computes field X from must be non-empty exactly when create/update store X, must be contained in the locations update() writes from X, must not be written from another field that X does not also write, create_track and update must agree, and for the 2.x converter pairs the reader parameter of a role must be fed from the column the writer stores that role in (fall-through in a switch, a wrong metadata type, a transposed converter argument, a forgotten read-back are all reported with the locations). R1-R3: placeholders == binds, INSERT/SELECT widths, each column tied to one source across INSERT / UPDATE / SELECT and ranges (key/value tables: type <-> parameter pairing), every table / column resolves in the DDL of every admitted version. R5: each blob column is encoded and decoded by one codec class.',
   note='Trusted: clang AST, sa/valueflow.py (term language and its treatment of std wrappers as transparent), SQL reader, catalog model. Not decided (value level): conversion exactness, clamping / truncation arithmetic, padding to eight slots, fixed-point (idempotence). One genuine defect repaired (1.x snapshot never read rating); three known findings, one root cause (1.x bpm columns).',
   ref='DESIGN.md 4 C01')

CLAIMED['C06'] = dict(
   technique='value-flow (provenance) analysis of all track getters, setters, snapshot() and update() of both implementations per schema range; call-graph check of the facade; where-clause analysis for row scope',
   text='For each of the 24 getter/setter pairs, both implementations and every schema range (216 instances per rule): G1 every location the getter reads is written by the setter from its argument; G2 getter and snapshot field read the same locations (differences only over redundant encodings both writers always co-write) and pass the same locations in the same converter argument positions; G3 the getter reads only locations update()/create_track() write from that field; S1 setter and update() store the field in the same observed locations and write the same constants for an absent value; S2 a setter changes no location read for another field (member granularity inside blobs, read-modify-write identity recognised, file name / extension of the path excepted); S3 every UPDATE / DELETE a track mutator reaches is restricted to id = id() of the handle; F1 each of the 114 facade methods forwards to the impl virtual of the same name.',
   note='Trusted: clang AST, sa/valueflow.py, SQL reader. Not decided: values after arbitrary setter sequences (value level). Five known findings, all one root cause (1.x bpm / bpmAnalyzed columns, see C01).',
   ref='DESIGN.md 4 C06')

CLAIMED['C07'] = dict(
   technique='value-flow interpretation of the crate queries and mutators down to the parsed SQL (relation roles, event order of reads / validator throws / writes, path conditions), checked against a relation-role slot table',
   text='Decides the relation-role and guard clauses behind the forest property, for both implementations: T1 each structural query (parent, children, descendants, lookups, roots) reads the relation that carries its meaning - table, column bound to the handle id, column returned - children and parent read one relation in opposite directions, root queries use the root convention; T2 set_parent reads the closure relation of the moved crate and a throw depends on it before the first write; T3 every create / rename entry point reaches a throw of crate_invalid_name that depends on the name before its first write, and all validators test the same things; T4 no statement assigns the id of Crate / List / Playlist (positive control in the DDL); T5 named sentinels equal the SQL literals; T6 a changed parentListId comes with a re-assigned nextListId and a successor taken from another row is first checked (un-conjoined) to be a sibling; T7 re-parenting deletes the old position on every path.',
   note='Trusted: clang AST, sa/valueflow.py, spec/roles.json (semantic slots from the repository documentation). Not decided: equality of the query results as sets after arbitrary histories. Four genuine defects repaired (children/descendants swapped, two missing cycle guards, stale successor).',
   ref='DESIGN.md 4 C07')

CLAIMED['C08'] = dict(
   technique='value-flow interpretation of the membership operations (id kinds of bound values, event order) plus a reference-graph / trigger analysis of the DDL of every schema version',
   text='Decides the id-space and cleanup clauses: K1 every value bound to a membership column (CrateTrackList, PlaylistEntity) has the id kind of that column - crate handle id, track argument, entity id read from the table - for every add / remove / clear / listing operation of both implementations (the confusion of track id and entity id is invisible to tests whose ids coincide); K2 for every schema version, each membership relation referring to a deleted track or crate is cleaned by a trigger of that DDL, by ON DELETE CASCADE with foreign keys switched on somewhere, or by an explicit DELETE; K3 a membership INSERT is preceded by a delete or lookup on the same crate and track; K4 every 2.x DDL relinks the entity chain on delete.',
   note='Trusted: clang AST, valueflow, SQL reader / catalog model. Not decided: membership as a set after arbitrary interleavings. One genuine defect repaired (entity removal keyed by the wrong id column); six known findings, one root cause (foreign keys are never switched on, so the cascades the code relies on do not happen).',
   ref='DESIGN.md 4 C08')
CLAIMED['C09'] = dict(
   technique='trigger analysis of every 2.x DDL, value-flow interpretation of the move / create-after / add_back operations, structural check of the chain walkers, path analysis of transaction scopes',
   text='Claimed narrowly - four necessary conditions, not order preservation itself: P1 a changed parentListId comes with a re-assigned nextListId and a successor taken from another row is first checked to be a sibling; P2 every supported 2.x DDL contains the splice triggers (before/after INSERT and after DELETE on Playlist rewriting nextListId and deleting children, before DELETE on PlaylistEntity rewriting nextEntityId); P3 both chain walkers start from the sentinel the writers store and test the tail lookup before use (throwing), add_back stores the new entry as tail and relinks the previous tail; P4 the multi-statement relinking operations run inside one committed transaction.',
   note='Not decided (and said so): that listings return every item exactly once in order after arbitrary histories - that needs SQLite trigger / UPDATE semantics over histories, i.e. symbolic execution of SQL, a different family. Two genuine defects repaired (stale successor on move; end() dereference in the walkers).',
   ref='DESIGN.md 4 C09')

CLAIMED['C10'] = dict(
   technique='declaration analysis (field types of handle / table / context classes, statics), statement-site scan, symbolic path comparison of open / attach sites, transaction path analysis, version-constant cross-check',
   text='Discharges the premises of the statelessness argument (observation = function of database content; content durable at statement / commit boundaries; load re-attaches what was written): N1 handles, impl and table classes hold only ids, shared pointers and table handles, contexts only directory / schema / connection, no mutable static; N2 no statement targets a temporary object; N3 create and load sides open / attach the same symbolic paths under the same aliases in the same order (unqualified table names present in both attached files resolve by that order); N4 every transaction is committed on every normal path and the guard has BEGIN / COMMIT / ROLLBACK (or the equivalent released-savepoint) shape; N5 each supported enumerator has a creator whose version constant is the triple the enumerator stands for; N6 create_or_load_database sets created exactly as documented with database_not_found as only handler.',
   note='Trusted: SQLite / file-system durability. Not decided: equality of observations is inferred from the premises, not measured.',
   ref='DESIGN.md 4 C10')
CLAIMED['C11'] = dict(
   technique='statement-site analysis with resolved bind roles for the 1.x crate operations, field model of the track path per schema range, trigger analysis of every 2.x DDL, value flow of add_track, reference-graph cleanup analysis',
   text='Decides co-update clauses: W1 each 1.x forest operation writes every redundant encoding it affects with the right roles (parent-list row with origin / parent, hierarchy rows = ancestors of the parent looked up by crateIdChild = parent plus the parent, removal of the old rows on move, Crate.path of the crate and its subtree); W2 whoever writes Track.path also writes file name and extension / file type from the same value (create, update, setter; both generations, per schema range); W3 one codec class per blob column; W4 referential cleanup on delete; W5 origin fix-up triggers in every 2.x DDL; W6 the entity database uuid is read from Information.uuid.',
   note='Not decided: acceptance by an independent reader after arbitrary histories (integrity_check, decoding every stored blob, chain acyclicity). Known findings: 1.x re-parent leaves Crate.path and the descendants\' hierarchy rows stale; 2.x set_relative_path leaves filename / fileType stale; the six cleanup findings shared with C08. A seeded change inside get_file_extension (first dot instead of last) is value-level and not detected.',
   ref='DESIGN.md 4 C11')

CLAIMED['C15'] = dict(
   technique='must-fact (dominance) dataflow over the structured clang AST of every library function: guards establish facts (optional engaged, iterator != end, index bounds, divisor non-zero) that obligations at dereference / index / division sites must find on every path; call-graph rules for throw types, handle contract and recursion',
   text='For every function of the library outside the schema creators (about 600 definitions incl. header inlines and template instantiations) and for the enumerated UB classes: U1 each of the 128 optional dereferences is dominated by an engaged-test or an engaging assignment (asserts do not count - NDEBUG); U2 each of the 40 vector / array / string subscripts has its index proved in range (literal: size() > k; variable: 0 <= i < size(), i+1 / i-1 / size()-k forms, the down-sampling idiom size()*(2i+1)/(2E); internal helpers by the allocations at their call sites); U3 iterators from find / find_if are used only under a comparison with end() / begin(); U5 locally declared aggregates have every scalar member without default initialiser assigned before the object is used as a whole; U6 each integer division has a divisor proved non-zero after conversion to integer; U7 every throw derives from std::exception and noexcept functions do not throw; U8 id(), copying, assignment and destruction of handles reach no SQL, is_valid() is a pure existence query; U9 the only recursion descends along crate::children().',
   note='Trusted: clang AST, sa/guards.py (fact language). UB classes not decided: out-of-range floating to integer conversion, signed overflow outside the decoders (C05), lifetime of caller-held references, data races. Five genuine defects repaired (two unchecked optional dereferences, off-by-one and missing slot index checks, division by a truncated rate); two more repaired under C09 (end() dereference in the chain walkers) and C03 (cue buffer overflow).',
   ref='DESIGN.md 4 C15')


# rules added after the seeded-change rounds (DESIGN.md 10.4); appended to the texts above
ADDED = {
 'C01': 'R2 also requires sibling readers of one table to apply the same row filter; R5 that each blob column is encoded and decoded by one codec class in both generations; R6 that the util helpers lifting a conversion over std::optional branch only on engagement.',
 'C02': 'L4 also evaluates the benign no-progress scenario of inflate (Z_BUF_ERROR with further input slices to come must continue). L5: the layout table names the column of each blob; every statement that stores an encoded value in a performance-data column takes it from that codec and every decoding read uses it (128 statement instances).',
 'C05': 'D5 also evaluates the benign no-progress scenario of inflate (Z_BUF_ERROR with further input slices to come must continue, not throw).',
 'C06': 'G2 also requires sibling readers to apply the same row filter; G4: optional-lifting util helpers branch only on engagement.',
 'C07': 'T1 also requires the per-version copies of the recursive views to agree; T8: every 1.x operation that adds or moves a crate writes the parent list and the full closure the cycle guard reads.',
 'C08': 'K4 also requires the per-version copies of the chain-maintaining triggers to agree.',
 'C09': 'P2 also applies sibling agreement of the per-version trigger copies and identifier-domain typing (the splice statements match entity ids with entity ids and list ids with list ids); P3 also decides that the walk direction matches the insertion side.',
 'C10': 'N5 judges the Information INSERTs of the whole creation trace of each creator (inherited bodies and helpers bind the members of the creating class).',
 'C11': 'W1 also requires every call of the subtree path rewriter to hand down the path its caller just stored; W2 that the file-name / extension helpers locate their separator from the end; W7: identifier-domain typing of every trigger body, view (with CTEs) and library statement of every supported version (spec/domains.json, cross-checked with the declared foreign keys; 492 instances); W8: the per-version copies of the chain triggers and views agree.',
 'C12': 'X2 also requires exactly one Information row per attached database file (unqualified table names resolved in attach order); X3 that every function receiving an engine_schema hands its own parameter on to the next (15 hand-over calls), never a default argument.',
 'C13': 'Y3 evaluates 12 presence combinations (the Database2 directory without m.db is a variable of its own) with single-return path helpers inlined.',
 'C15': 'U9 discharges the acyclicity it relies on itself: the cycle guards of both set_parent implementations and every 1.x writer of the closure table the guard reads.',
 'C18': 'B8: the util helpers that carry nullable columns to optional row fields and back (optional<A> -> optional<B>) yield a value exactly when given one.',
}
for _k, _v in ADDED.items():
    CLAIMED[_k]['text'] += ' Added after the seeded-change rounds: ' + _v


# rules added in round 3 (DESIGN.md 10.4)
ADDED3 = {
 'C01': 'R2: range copies also agree on the C++ type a column is fetched into; R7: no member update on a local copy that is then dropped.',
 'C02': 'L6: no member update is made on a local copy that is then dropped (34 locals with member assignments).',
 'C03': 'S4 also requires every value-or-absent choice on a constant to be an equality with that constant; S7: every element a decoder appends in a loop is built afresh in that iteration.',
 'C06': 'G5: the statement-agreement rules of C01 (column <-> field / parameter in every schema-range copy, sibling filters); G6: the codecs the setters read-modify-write through are symmetric (C03 S1) and no update is lost on a local copy.',
 'C07': 'T9: the tables that carry the forest are created as the reference dump of the version defines them (the 2.x id column is AUTOINCREMENT).',
 'C08': 'K5: identifier domains of C++ values (the id() of a crate / track handle is bound only against columns naming that kind of row, through parameters too) and identifier width (every declaration an id passes through is 64 bit).',
 'C09': 'P4 also checks the shape of the transaction guard (BEGIN / COMMIT / ROLLBACK exactly when not committed, evaluated with sqlite3_get_autocommit() modelled).',
 'C11': 'W2: the suffix helpers search from the end for exactly one separator character; W7 also types binds and call arguments; W8 also requires the splice triggers to be present in every 2.x DDL; W9: a constant stored in a foreign-key column of Track names a row every creator inserts.',
 'C13': 'Y5: every loader opens or attaches only a path whose existence it tested, and each creator stamps the triple of its own class.',
 'C14': 'A6: every SQL statement executes where it is written (no statement is kept in a named database_binder, which would run in its destructor after a later COMMIT); A5 models conjunctions and sqlite3_get_autocommit().',
 'C15': 'U9 also requires the 2.x closure views to agree across versions; U10: no null pointer (data() of a possibly empty vector) reaches memcpy / memmove.',
 'C17': 'V5: each creator stamps the version of its own class, so the validator selected after reopening is the one written for that structure; V6: the listing helpers read the catalog of the database they are given (PRAGMA / sqlite_master statements qualified with their database-name parameter).',
 'C18': 'B9: row identifiers stay 64 bits wide through the table API.',
}
for _k, _v in ADDED3.items():
    CLAIMED[_k]['text'] += ' Round 3: ' + _v


# rules added in round 4 (DESIGN.md 10.4)
ADDED4 = {
 'C01': 'R8: a reader with a primary source and a fallback never replaces a found value by a possibly absent one; R9: shape of the transaction guard; R10: every 1.x blob write path applies the decode-after-encode guard (known finding).',
 'C03': 'S8: a codec that appends trailing bytes accepts on decode every length its encoder produces.',
 'C04': 'P3: every element a 2.x decoder appends is built from a fresh object.',
 'C05': 'The abstract interpreter treats container-element paths as summary locations (fresh value per load, weak update), which D2 needs for differences of neighbouring elements.',
 'C06': 'S4: shape of the transaction guard the setters run under.',
 'C07': 'T10: remove_crate removes the whole subtree (two known findings); T11: the 2.x splice triggers exist and agree, guard shape; T12: set_parent refuses a removed parent; T13: every 1.x statement selecting the crates below a crate excludes the self-parent row; T8 also requires the closure rows of a moved subtree to be rewritten (known finding).',
 'C08': 'K6: no static initialised at run time; the crate / membership tables are created as the reference dump defines them.',
 'C09': 'P3 also requires the duplicate look-up of add_back to compare a complete unique key.',
 'C10': 'N1 also rejects statics initialised from a parameter, this or a call.',
 'C11': 'W1: the crate handed to the path rewriter comes from the immediate-parent relation; W4 covers every foreign-key relation the library fills; W10: version stamp; W11: decode-after-encode guard on every 1.x blob write path (known finding).',
 'C12': 'X4: the layout truth table of C13-Y3 (a created library is recognised on load).',
 'C13': 'Y6: the stored version triple is fetched into 64-bit integers.',
 'C15': 'U4: the extent rule of C03-S3; U6 also excludes MIN / -1 for signed division; U9 also requires the closure rows of a moved subtree to be rewritten (known finding).',
 'C16': 'E6: no member function reached from an observer assigns to or moves from a data member of its own object.',
}
for _k, _v in ADDED4.items():
    CLAIMED[_k]['text'] += ' Round 4: ' + _v

# rules added after round 4 and in the bug-hunt round (DESIGN.md 10.5)
ADDED5 = {
 'C01': 'R11: every UPDATE of the Track row that update() reaches is followed by a rows_modified() test whose zero case throws (update() of a removed track is rejected).',
 'C02': 'L7: no decoder or blob read converter narrows an integer read from the blob without a dominating test of both limits of the target type.',
 'C03': 'S9: every value test by which a decoder rejects a blob has a counterpart on the encoder side (the encoder refuses what its decoder would refuse).',
 'C04': 'P2 intended-member table corrected for set_waveform; P4: update() reads the stored row or blobs before writing (necessary for keeping bytes a snapshot cannot carry; known finding).',
 'C07': 'T14: create_sub_crate / create_sub_crate_after / add_track / set_parent establish that the row of their own crate exists before the first write; T15: no std::string reaches a statement as a C string; T16: the id of a removed crate is not handed out again (known finding, 1.x format); T17: sibling names are unique (DDL constraint or look-up with a dependent throw); T18: playlist_table::add / update look the parent and the successor up before writing a position; T2 also covers playlist_table::update.',
 'C08': 'K7: add_track establishes before its first write that the track id names a row of Track and that its own crate exists; K8: every statement that lists or probes Track rows carries the row filter of tracks() (placeholder rows are not tracks).',
 'C11': 'W12: every number inserted into the MM:SS duration string has its own setw (sibling writers of one derived column agree).',
 'C10': 'N7: the creators refuse when any file the load side probes or demands already exists (rule X5 of C12).',
 'C12': 'X5: every function that opens the files of a new on-disk library refuses when a file the layout probe or a loader looks at is already there.',
 'C13': 'Y4 now evaluates the legacy branch for every enumerator (a 2.x / 3.x triple in a legacy directory is refused) and base_engine_library::load (a 1.x triple in a Database2 file is refused); Y7: each stored version component must have storage class integer (typeof), else unsupported_database.',
 'C14': 'A7: creation is all-or-nothing (known finding); A8: multi-file transactions need a file-backed main database for an atomic COMMIT (known finding, 1.x); A9: no header template of the handle classes loops over a mutating operation (known finding: add_tracks).',
 'C17': 'V7: columns are listed with table_xinfo (known finding); V8: every view has a column block (known findings for the 2.x views); V9: SQLite errors inside the validator are converted to database_inconsistency.',
 'C15': 'U2 accepts i - k under a loop that starts at a literal >= k; U11: every floating to integer conversion has its operand proved inside the target range by dominating tests of both limits, one of which held as written (excludes NaN).',
 'C18': 'B11: get / remove name their row by a complete key of the table (known finding: playlist_entity_table); B12: a row field whose column does not exist in the schema range is rejected when engaged, not dropped. B10: every per-column accessor works on the type of the row field it stands for (four known findings, one root cause).',
}
for _k, _v in ADDED5.items():
    CLAIMED[_k]['text'] += ' Later: ' + _v

ADDED6 = {
 'C01': 'R12: every statement executes where it is written (binder a temporary of its full expression); R13: every UPDATE of a 1.x secondary table (MetaData, MetaDataInteger, PerformanceData) is preceded by an INSERT into it or followed by a rows_modified() test.',
 'C02': 'L8: decoder and encoder draw the line of every count test at the same count (rule S9 of C03, named constants resolved).',
 'C03': 'S9 now compares the rejection sets of the count tests of decoder and encoder and reports a count one side refuses and the other writes.',
 'C06': 'G2: the redundant-copy exemption applies only when getter and snapshot share a location; G7: row guarantee for UPDATEs of the 1.x secondary tables (as C01-R13).',
 'C08': 'K9: the function that inserts into PlaylistEntity links the previous tail with last_insert_rowid() read after the INSERT and finds that tail by its sentinel.',
 'C09': 'P4 evaluates transaction guards with several bool members, member predicates and the autocommit state at construction; P5: chain listings are restricted by the group key alone; P6 = K9.',
 'C10': 'N4 models std::exchange in the guard.',
 'C11': 'W13 = C08-K9 (one entry chain per list).',
 'C12': 'X6: create_database / create_temporary_database hand every enumerator with a creator to the library class of its generation (rule of C13-Y4 over all enumerators, repository constants resolved).',
 'C13': 'Y1 follows the version components through callees: arithmetic on them (a packed version number) is searched for colliding triples and otherwise not accepted as exhaustive; Y8: no handler on the way from a loader to detect_schema / detect_is_database2 catches unsupported_database / database_not_found (or a base) without rethrowing.',
 'C16': 'E7: no user-written destructor (transaction guard excepted) reaches a statement with an effect on the database; acting pragmas without argument (optimize, wal_checkpoint, incremental_vacuum, unknown names) are effects.',
 'C17': 'V10: the sqlite_master listing behind every master-list comparison selects by type alone; the block interpreter evaluates concatenated object names of data-driven blocks.',
 'C18': 'B13: every statement executes where it is written, so that the rows_modified() test behind it judges that statement.',
 'C15': 'U1 accepts a precondition established by every caller of a file-local helper, facts inside lambdas written as call arguments, named end() / size() aliases; U2 follows an index held in a named local; predicate helpers are inlined into guard facts.',
}
for _k, _v in ADDED6.items():
    CLAIMED[_k]['text'] += ' Round 5: ' + _v

ADDED7 = {
 'C01': 'R14: writes that create_track / update() make only under a condition over snapshot fields store no field the condition ignores, unless the condition is proved always true (a list padded to a positive minimum by its conversion helper) or the field has an unconditional location; R15: the fixed-width primitives are exact (L1 of C02: byte placement, halves by shifts 0 and 32, the unshifted half zero-extended); R16: the compressor emits one complete stream for every payload size (S6 of C03); R17: no conversion depends on the time zone, locale or environment of the process.',
 'C02': 'L1 sees through std::to_integer and rejects a sign-extended low half; L9: the decompressor returns exactly the bytes inflate() produced (result sized from the stream counters or a mismatch rejected).',
 'C03': 'S10 = L1 of C02; S11 = L9 of C02; S12: no (signed) char read through a pointer is widened without an unsigned 8-bit step.',
 'C04': 'P5 = L9 of C02 (an over-stated length prefix must not grow a zero tail that is kept as trailing data); P6 = L1 of C02.',
 'C05': 'D7: a pointer or iterator taken from a growable container and kept in a local or a struct member (strm.next_out) is not used after an operation that may reallocate the container unless taken again (structured path analysis, loop bodies twice). A violation now stands when another rule of the check is undecided (exit 1, not 2).',
 'C06': 'G8: handle, implementation and table classes hold no copy of a stored value (N1 of C10); G9 = L1 of C02.',
 'C08': 'K10: transaction guard shape (BEGIN / COMMIT then flag / ROLLBACK unless committed).',
 'C11': 'W14: transaction guard shape; W15: every compressed blob stored is one complete deflate stream (S6 of C03).',
 'C15': 'U14: no use after free through a pointer or iterator that a possible reallocation of its container made stale (rule D7 of C05 over every function of the library).',
 'C17': 'V11: the validator call in every verify() entry is unconditional with no return statement before it, and the context objects hold no memory of an earlier verification (N1 of C10).',
 'C18': 'B14: transaction guard shape; B15: bytes of a blob are read unsigned; B16: no time-zone / locale / environment dependent C routine (mktime, localtime, strtod, getenv ...) in the repository.',
}
for _k, _v in ADDED7.items():
    CLAIMED[_k]['text'] += ' Round 6: ' + _v

ADDED8 = {
 'C06': 'S2: "stored back unchanged" means a plain copy of the location (followed through what callees return) - a re-converted value is a change; S5: no write of a setter is skipped on a comparison of the argument with a value derived from stored state.',
 'C07': 'T1: every read that yields the crates a query returns is the read of the relation carrying its meaning; T19: no remembered ids or rows in handle, table and context classes (N1 of C10).',
 'C08': 'K11: no DELETE / UPDATE selects its rows by LIKE / GLOB against a bound or computed pattern; K12: no handler on a membership operation swallows an SQL error or a type thrown in place of one (A4 of C14).',
 'C09': 'P5 also judges statements over several tables: an inner join drops chain rows like a predicate.',
 'C10': 'N8: only the transaction guard class issues transaction-control statements.',
 'C11': 'W16: no co-update write is skipped on a comparison with a value derived from stored state; W17 = K11; W2: the extension is taken from the file name (the dot-helper cuts at the last slash itself, or every caller passes the result of such a cut).',
 'C14': 'A4: a type that a handler throws in place of an SQL error carries SQL failures; A10 = C10-N8.',
 'C18': 'B17: no write of a table mutator is skipped on a comparison of the argument with a value a getter computed from the stored row (update() returning early when get(id) == row).',
}
for _k, _v in ADDED8.items():
    CLAIMED[_k]['text'] += ' Round 7: ' + _v

ADDED9 = {
 'C01': 'R18: what update() / create_track store for a snapshot field is computed from the snapshot on every path - no alternative of the written value is the stored value of the same location carried over (objects handed to helpers by non-const reference are followed). Not detected (recorded): a zero-means-absent convention introduced jointly by a row reader and writer (value level).',
 'C12': 'X7: no CREATE / ALTER / DROP outside the schema creator classes.',
 'C13': 'Y9: no process-wide memory of what was detected (mutable namespace-scope variables, assigned statics; N1 of C10, schema/ included); a rule that cannot be decided no longer aborts the check.',
 'C15': 'U15: the library installs no busy handler (a call on a locked database terminates).',
}
for _k, _v in ADDED9.items():
    CLAIMED[_k]['text'] += ' Round 8: ' + _v

NOT_APPLICABLE = {
 'C19': 'numerical result of integer/floating arithmetic over all inputs (ceiling division, quantisation, minimality, monotonicity): no structural clause beyond the division guard, which C15-U6 covers; a sound decision needs an arithmetic solver or proof (different family)',
 'C20': 'floating-point numerical behaviour of beat-grid extrapolation (bracketing, tempo preservation, idempotence up to rounding); only the iterator arithmetic is shape-visible and is covered by C15-U3',
}

PENDING = {}  # properties whose check is not built yet: listed as not_applicable with that reason until then

def main():
    props = [json.loads(l)['id'] for l in open(os.path.join(HERE, 'properties.jsonl'))]
    checks = []
    for pid in props:
        if pid in CLAIMED:
            c = CLAIMED[pid]
            checks.append({
              'property_id': pid,
              'quick_cmd': './check %s' % pid,
              'thorough_cmd': './check %s --tier thorough' % pid,
              'evidence_file': 'evidence/%s.json' % pid,
              'replay_cmd_template': './check --explain {path}',
              'engine': 'sa',
              'level_claimed': {'category': 'other', 'text': c['text'], 'design_ref': c['ref']},
              'level_note': c['note'],
              'technique': c['technique'],
            })
    na = []
    for pid in props:
        if pid in CLAIMED:
            continue
        if pid in NOT_APPLICABLE:
            na.append({'property_id': pid, 'reason': NOT_APPLICABLE[pid]})
        else:
            na.append({'property_id': pid, 'reason': PENDING.get(pid, 'static check designed (DESIGN.md section 4) but not built yet in this tree; not claimed until it is')})
    m = {
      'version': 1,
      'setup_cmd': 'python3 -m compileall -q sa && python3 tools/probe_tools.py',
      'hooks': {
        'guard': 'XSCO_LIBDJINTEROP_VERIF',
        'enable': 'none needed: every check reads the unmodified sources of /repo (clang -fsyntax-only AST dumps); the guard name is reserved and unused',
        'baseline_off_cmd': 'bash tools/baseline.sh',
        'source_commits': [],
        'add_only': True,
      },
      'engines': [{
        'name': 'sa', 'path': 'sa',
        'serves_properties': sorted(CLAIMED),
        'kind_free_text': 'custom static analysis in Python over clang 14 JSON AST dumps of all 52 translation units (compile DB from cmake+ninja), with an SQL/DDL reader, a SQLite catalog model and a structured abstract interpreter',
      }],
      'checks': checks,
      'notes': 'Exit codes of every check: 0 rules hold (KNOWN-FINDING lines for entries of known_findings.json), 1 VIOLATION, 2 analysis broken (anchor vanished / construct outside the modelled subset / instance floor not reached). See DESIGN.md.',
      'not_applicable': na,
    }
    with open(os.path.join(HERE, 'MANIFEST.json'), 'w') as f:
        json.dump(m, f, indent=1)
    print('MANIFEST.json: %d checks, %d not applicable' % (len(checks), len(na)))

if __name__ == '__main__':
    main()
