#!/usr/bin/env python3
"""tools/save_seed.py <prop> <n> <slug> <needs...>  - copies a confirmed seeded defect from
/tmp/seed_out/<prop>/<n> into /verif/seeded/<prop>-<slug>/ with meta.json."""
import json, os, shutil, sys, re
prop, n, slug = sys.argv[1:4]
needs = ' '.join(sys.argv[4:])
src = os.environ.get('SEED_ROOT', '/tmp/seed_out') + '/%s/%s' % (prop, n)
dst = '/verif/seeded/%s-%s' % (prop, slug)
os.makedirs(dst, exist_ok=True)
for fn in os.listdir(src):
    shutil.copy(os.path.join(src, fn), os.path.join(dst, fn))
log = os.environ.get("SEED_LOGS", "/tmp/seed_out/logs") + "/%s_%s.log" % (prop, n)
res = open(log).read().strip().splitlines()[-1] if os.path.exists(log) else ''
meta = {
  'property': prop,
  'origin': 'written by an independent sub-agent that saw only the property text and its own scratch worktree of /repo',
  'needs_to_manifest': needs,
  'confirmed_by_me': res,
  'what_i_ran': 'tools/confirm_seed.sh <scratch worktree> <seed dir>: git apply, cmake --build, full ctest (must pass), build_and_run.sh (must fail), revert, rebuild, build_and_run.sh (must pass); then tools/with_patch.sh patch.diff %s (scratch copy of /repo with the patch) to see whether the check reports it' % prop,
}
json.dump(meta, open(os.path.join(dst, 'meta.json'), 'w'), indent=1)
print(dst, res)
