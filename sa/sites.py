"""SQL statement sites: `db << "SQL" << bind ... [>> sink]` expressions.

A site is found structurally: the outermost operator<< / operator>> call whose
left spine ends in `sqlite::database::operator<<(sql)`.  The statement executes
when the temporary database_binder is destroyed at the end of the full
expression (or inside operator>>), i.e. at the site itself.
"""
from .program import children, strip, walk, decode_string_literal, locstr


class Hole:
    """Non-literal piece of an SQL text."""
    __slots__ = ('node', 'desc')

    def __init__(self, node):
        self.node = node
        n = strip(node, explicit=True)
        ref = n.get('referencedDecl') or {}
        self.desc = ref.get('name') or n.get('name') or n.get('kind')

    def __repr__(self):
        return '<%s>' % self.desc


class Site:
    __slots__ = ('node', 'db', 'sql_parts', 'binds', 'sink', 'func', 'tu',
                 'loc', 'stored_in')

    @property
    def text(self):
        """SQL text with holes rendered as ${name}."""
        return ''.join(p if isinstance(p, str) else '${%s}' % p.desc
                       for p in self.sql_parts)

    @property
    def is_literal(self):
        return all(isinstance(p, str) for p in self.sql_parts)

    def __repr__(self):
        return '<Site %s %r binds=%d sink=%s>' % (
            locstr(self.node), self.text[:50], len(self.binds),
            'yes' if self.sink is not None else 'no')


def _is_binder_type(t):
    return t is not None and 'database_binder' in t


def _op_name(call):
    c = children(call)
    if not c:
        return None
    callee = strip(c[0])
    ref = callee.get('referencedDecl') or {}
    return ref.get('name')


def sql_parts(expr, env=None):
    """Flatten a string expression into literal pieces and holes."""
    n = strip(expr)
    k = n.get('kind')
    if k == 'StringLiteral':
        return [decode_string_literal(n.get('value'))]
    if k in ('CXXConstructExpr', 'CXXFunctionalCastExpr', 'CXXStaticCastExpr',
             'CXXTemporaryObjectExpr'):
        c = [x for x in children(n) if x.get('kind') != 'CXXDefaultArgExpr']
        if len(c) == 1:
            return sql_parts(c[0], env)
        if len(c) == 0:
            return ['']
    if k == 'CXXMemberCallExpr':
        # conversion operator std::string -> string_view
        c = children(n)
        callee = strip(c[0]) if c else None
        if callee is not None and callee.get('kind') == 'MemberExpr' and \
                (callee.get('name') or '').startswith('operator'):
            return sql_parts(children(callee)[0], env)
    if k == 'CXXOperatorCallExpr' and _op_name(n) == 'operator+':
        c = children(n)
        return _merge(sql_parts(c[1], env) + sql_parts(c[2], env))
    if k == 'DeclRefExpr' and env is not None:
        ref = n.get('referencedDecl') or {}
        init = env.get(ref.get('id'))
        if init is not None:
            return sql_parts(init, env)
        # a namespace-scope / static constant holding SQL text (`const char* const cols = "a, b";`)
        tu = env.get('__tu__')
        d = tu.ids.get(ref.get('id')) if tu is not None else None
        if d is not None and d.get('kind') == 'VarDecl':
            t = (d.get('dtype') or d.get('type') or '')
            const = d.get('constexpr') or t.rstrip().endswith('const') or t.startswith('const std::') or \
                t.startswith('const basic_string') or 'string_view' in t
            c = [x for x in children(d) if not x['kind'].endswith('Attr')]
            if const and c and ('char' in t or 'string' in t):
                return sql_parts(c[-1], env)
    return [Hole(n)]


def _merge(parts):
    out = []
    for p in parts:
        if isinstance(p, str) and out and isinstance(out[-1], str):
            out[-1] += p
        else:
            out.append(p)
    return out


def _flatten(n, binds):
    """n: expression of type database_binder.  Returns (db_expr, sql_expr) and
    appends binds in order; or None if the spine does not end in db << sql."""
    n = strip(n)
    if n.get('kind') != 'CXXOperatorCallExpr':
        return None
    op = _op_name(n)
    c = children(n)
    if op != 'operator<<' or len(c) != 3:
        return None
    lhs, rhs = c[1], c[2]
    lt = strip(lhs).get('type') or ''
    if 'sqlite::database' in lt and 'binder' not in lt:
        return (lhs, rhs)
    r = _flatten(lhs, binds)
    if r is None:
        return None
    binds.append(rhs)
    return r


def find_sites(func, prog=None):
    """All statement sites in a Function (including lambda bodies)."""
    out = []
    body = func.node
    env = _string_locals(func)

    def rec(n, parent_is_chain):
        k = n.get('kind')
        if k == 'CXXOperatorCallExpr':
            op = _op_name(n)
            t = n.get('type') or ''
            c = children(n)
            if op == 'operator>>' and len(c) == 3 and _is_binder_type(strip(c[1]).get('type')):
                binds = []
                r = _flatten(c[1], binds)
                if r is not None:
                    s = _mk(n, r, binds, c[2], func, env)
                    out.append(s)
                    # the sink (a lambda) may contain further sites
                    rec(c[2], False)
                    for b in binds:
                        rec(b, False)
                    _rec_sql(r[1])
                    return
            if op == 'operator<<' and _is_binder_type(t) and not parent_is_chain:
                binds = []
                r = _flatten(n, binds)
                if r is not None:
                    s = _mk(n, r, binds, None, func, env)
                    out.append(s)
                    for b in binds:
                        rec(b, False)
                    _rec_sql(r[1])
                    return
        for ch in children(n):
            rec(ch, False)

    def _rec_sql(e):
        for ch in children(e):
            rec(ch, False)

    rec(body, False)
    return out


def _string_locals(func):
    """Local string variables that are initialised once and never assigned
    again: id -> initialiser expression (so `auto sql = "..." + col + "...";
    db << sql` is read as the concatenation)."""
    inits = {}
    assigned = set()
    for n in walk(func.node):
        k = n.get('kind')
        if k == 'VarDecl' and 'id' in n:
            t = (n.get('dtype') or n.get('type') or '')
            if 'basic_string' in t or 'std::string' in t or 'char' in t:
                c = [x for x in children(n) if not x['kind'].endswith('Attr')]
                if c and not (strip(c[-1]).get('kind') == 'CXXConstructExpr'
                              and not children(strip(c[-1]))):
                    inits[n['id']] = c[-1]
        elif k in ('BinaryOperator', 'CompoundAssignOperator') and \
                (n.get('opcode') or '').endswith('='):
            l = strip(children(n)[0])
            if l.get('kind') == 'DeclRefExpr':
                assigned.add((l.get('referencedDecl') or {}).get('id'))
        elif k == 'CXXOperatorCallExpr' and _op_name(n) in ('operator=', 'operator+='):
            c = children(n)
            if len(c) > 1:
                l = strip(c[1])
                if l.get('kind') == 'DeclRefExpr':
                    assigned.add((l.get('referencedDecl') or {}).get('id'))
    out = {k: v for k, v in inits.items() if k not in assigned}
    out['__tu__'] = func.tu
    return out


def _mk(node, r, binds, sink, func, env=None):
    s = Site()
    s.node = node
    s.db = r[0]
    s.sql_parts = _merge(sql_parts(r[1], env))
    s.binds = binds
    s.sink = sink
    s.func = func
    s.tu = func.tu
    s.loc = node.get('loc')
    s.stored_in = None
    return s


def all_sites(prog, pred=None):
    out = []
    for f in prog.functions.values():
        if f.is_pattern or f.body is None:
            continue
        if pred and not pred(f):
            continue
        out.extend(find_sites(f))
    return out
