"""Front end: compilation database -> per-TU clang AST JSON dumps -> slim trees.

Nothing here decides a property.  The output is clang's own, type-checked view
of every declaration inside namespace djinterop of every translation unit of
the DjInterop target, reduced in size (source ranges collapsed to
(file, line, col)) and cached by a hash of the inputs.
"""
import hashlib
import json
import os
import pickle
import shutil
import subprocess
import sys
import tempfile
import time
from concurrent.futures import ProcessPoolExecutor

REPO = os.environ.get('VERIF_REPO', '/repo')
VERIF = os.path.dirname(os.path.dirname(os.path.abspath(__file__)))
CACHE = os.environ.get('VERIF_CACHE_DIR') or os.path.join(VERIF, '.cache')
SCRATCH_ROOT = '/var/tmp'
FORMAT_VERSION = 7


# g++ (the project's compiler) accepts these constructs, clang 14 does not;
# the affected expression becomes a RecoveryExpr and the enclosing function is
# flagged 'has_recovery' in the program model.  One line of reason each.
TOLERATED_CLANG_ERRORS = (
    # delegating constructor engine_storage{load_existing(dir)}: guaranteed
    # elision of a prvalue of the same type, not implemented by clang 14 here
    "call to implicitly-deleted copy constructor of "
    "'djinterop::engine::v1::engine_storage'",
)


class AnalysisBroken(Exception):
    """Raised whenever the machinery cannot analyse what it must (exit 2)."""


def _sha_tree(h, root, sub):
    top = os.path.join(root, sub)
    if os.path.isfile(top):
        h.update(sub.encode())
        with open(top, 'rb') as f:
            h.update(hashlib.sha256(f.read()).digest())
        return
    for d, dirs, files in os.walk(top):
        dirs.sort()
        for fn in sorted(files):
            p = os.path.join(d, fn)
            h.update(os.path.relpath(p, root).encode())
            try:
                with open(p, 'rb') as f:
                    h.update(hashlib.sha256(f.read()).digest())
            except OSError:
                h.update(b'?')


def source_key(repo=None):
    repo = repo or REPO
    h = hashlib.sha256()
    h.update(str(FORMAT_VERSION).encode())
    h.update(repo.encode())
    for sub in ('src', 'include', 'ext/sqlite_modern_cpp', 'ext/date',
                'CMakeLists.txt'):
        _sha_tree(h, repo, sub)
    return h.hexdigest()[:24]


def make_compdb(repo, scratch):
    cfg = os.path.join(scratch, 'cfg')
    r = subprocess.run(
        ['cmake', '-S', repo, '-B', cfg, '-G', 'Ninja',
         '-DCMAKE_BUILD_TYPE=RelWithDebInfo'],
        stdout=subprocess.PIPE, stderr=subprocess.STDOUT, text=True)
    if r.returncode != 0:
        raise AnalysisBroken('cmake configure failed:\n' + r.stdout[-2000:])
    r = subprocess.run(['ninja', '-C', cfg, '-t', 'compdb'],
                       stdout=subprocess.PIPE, stderr=subprocess.PIPE, text=True)
    if r.returncode != 0:
        raise AnalysisBroken('ninja -t compdb failed: ' + r.stderr[-2000:])
    db = json.loads(r.stdout)
    units = {}
    for e in db:
        f = os.path.normpath(e['file'])
        if '/src/djinterop/' not in f or not f.endswith('.cpp'):
            continue
        if 'CMakeFiles/DjInterop.dir' not in e.get('command', ''):
            continue
        if f in units:
            continue
        args = e['command'].split()
        flags = []
        i = 1
        while i < len(args):
            a = args[i]
            if a in ('-o', '-MT', '-MF', '-c'):
                i += 2
                continue
            if a in ('-MD',) or a.startswith('-O') or a == '-g':
                i += 1
                continue
            if a == f or a == e['file']:
                i += 1
                continue
            flags.append(a)
            i += 1
        if not any(x.startswith('-std=') for x in flags):
            flags.append('-std=gnu++17')
        units[f] = flags
    if len(units) < 40:
        raise AnalysisBroken('compilation database has only %d library units'
                             % len(units))
    return units


# --------------------------------------------------------------------------
# JSON stream -> slim trees

_DROP = {'range', 'loc', 'isReferenced', 'isUsed', 'mangledName'}


class _LocState:
    __slots__ = ('file', 'line')

    def __init__(self):
        self.file = None
        self.line = None


def _bare(d, st):
    if 'file' in d:
        st.file = d['file']
    if 'line' in d:
        st.line = d['line']
    return (st.file, st.line, d.get('col'), d.get('offset'))


def _loc(d, st):
    """Decode a clang JSON source location (emission-order state machine)."""
    if not isinstance(d, dict) or not d:
        return None
    if 'spellingLoc' in d or 'expansionLoc' in d:
        sp = d.get('spellingLoc')
        ex = d.get('expansionLoc')
        a = _bare(sp, st) if sp and 'offset' in sp else None
        b = _bare(ex, st) if ex and 'offset' in ex else None
        return b or a
    if 'offset' in d:
        return _bare(d, st)
    return None


def _slim(node, st):
    """Return a reduced copy of node; walks keys in emission order so that the
    delta-compressed file/line state is reconstructed exactly."""
    out = {}
    for k, v in node.items():
        if k == 'loc':
            l = _loc(v, st)
            if l:
                out['loc'] = l
        elif k == 'range':
            b = _loc(v.get('begin'), st)
            e = _loc(v.get('end'), st)
            if b and 'loc' not in out:
                out['loc'] = b
            if b:
                out['beg'] = b
            if e:
                out['end'] = e
        elif k == 'type' and isinstance(v, dict):
            out['type'] = v.get('qualType')
            if 'desugaredQualType' in v:
                out['dtype'] = v['desugaredQualType']
        elif k == 'inner':
            out['inner'] = [_slim(c, st) if isinstance(c, dict) else c
                            for c in v]
        elif k in ('referencedDecl', 'foundReferencedDecl', 'conversionFunc',
                   'decl', 'ownedTagDecl'):
            if isinstance(v, dict):
                r = {kk: vv for kk, vv in v.items() if kk in ('id', 'kind', 'name')}
                t = v.get('type')
                if isinstance(t, dict):
                    r['type'] = t.get('qualType')
                out[k] = r
            else:
                out[k] = v
        elif k in _DROP:
            continue
        elif k in ('argType', 'ctorType', 'computeLHSType', 'computeResultType',
                   'typeArg', 'adjustedTypeArg'):
            out[k] = v.get('qualType') if isinstance(v, dict) else v
        elif isinstance(v, dict):
            # other nested objects may contain locations: keep state in sync
            out[k] = _walk_other(v, st)
        elif isinstance(v, list):
            out[k] = [_walk_other(x, st) if isinstance(x, dict) else x for x in v]
        else:
            out[k] = v
    return out


def _walk_other(d, st):
    if 'offset' in d or 'spellingLoc' in d or 'expansionLoc' in d:
        return _loc(d, st)
    if 'kind' in d and 'id' in d:
        return _slim(d, st)
    out = {}
    for k, v in d.items():
        if k == 'includedFrom':
            continue
        if isinstance(v, dict):
            out[k] = _walk_other(v, st)
        elif isinstance(v, list):
            out[k] = [_walk_other(x, st) if isinstance(x, dict) else x for x in v]
        else:
            out[k] = v
    return out


def parse_dump(text):
    dec = json.JSONDecoder()
    i = 0
    n = len(text)
    tops = []
    while True:
        while i < n and text[i] in ' \t\r\n':
            i += 1
        if i >= n:
            break
        if text[i] != '{':
            # clang prints "Dumping <name>:" lines for non-JSON; not expected
            j = text.find('\n', i)
            if j < 0:
                break
            i = j + 1
            continue
        obj, i = dec.raw_decode(text, i)
        tops.append(_slim(obj, _LocState()))
    return tops


def _dump_unit(arg):
    src, flags, outdir = arg
    t0 = time.time()
    cmd = ['clang++'] + flags + [
        '-fsyntax-only', '-w', '-Xclang', '-ast-dump=json',
        '-Xclang', '-ast-dump-filter=djinterop', src]
    r = subprocess.run(cmd, stdout=subprocess.PIPE, stderr=subprocess.PIPE)
    errs = [l for l in r.stderr.decode(errors='replace').splitlines()
            if ' error: ' in l]
    if r.returncode != 0 and (not r.stdout or any(
            not any(w in e for w in TOLERATED_CLANG_ERRORS) for e in errs)):
        return (src, None, r.stderr.decode(errors='replace')[-3000:], 0, 0, errs)
    text = r.stdout.decode()
    tops = parse_dump(text)
    out = os.path.join(outdir, hashlib.sha1(src.encode()).hexdigest() + '.pkl')
    with open(out, 'wb') as f:
        pickle.dump({'src': src, 'tops': tops}, f, protocol=pickle.HIGHEST_PROTOCOL)
    return (src, out, None, len(text), time.time() - t0, errs)


def build(repo=None, jobs=None, verbose=False):
    """Return (cache_dir, meta).  cache_dir holds one pickle per TU."""
    repo = repo or REPO
    jobs = jobs or min(16, os.cpu_count() or 4)
    key = source_key(repo)
    cdir = os.path.join(CACHE, key)
    metaf = os.path.join(cdir, 'meta.json')
    if os.path.exists(metaf):
        try:
            os.utime(cdir)       # mark as in use (pruning spares recently used entries)
        except OSError:
            pass
        with open(metaf) as f:
            return cdir, json.load(f)
    t0 = time.time()
    scratch = tempfile.mkdtemp(prefix='verif-fe-', dir=SCRATCH_ROOT)
    try:
        units = make_compdb(repo, scratch)
        # config.hpp is generated into scratch/cfg/include: keep a copy of the
        # include dir alive in the cache for later syntax-only uses
        tmpd = cdir + '.tmp%d' % os.getpid()
        shutil.rmtree(tmpd, ignore_errors=True)
        os.makedirs(tmpd)
        gen_inc = os.path.join(scratch, 'cfg', 'include')
        keep_inc = os.path.join(tmpd, 'gen_include')
        if os.path.isdir(gen_inc):
            shutil.copytree(gen_inc, keep_inc)
        units2 = {}
        for f, flags in units.items():
            units2[f] = [x.replace(gen_inc, keep_inc) for x in flags]
        args = [(f, fl, tmpd) for f, fl in sorted(units2.items())]
        res = []
        with ProcessPoolExecutor(max_workers=jobs) as ex:
            for r in ex.map(_dump_unit, args):
                res.append(r)
        bad = [r for r in res if r[1] is None]
        if bad:
            shutil.rmtree(tmpd, ignore_errors=True)
            raise AnalysisBroken('clang failed on %d unit(s): %s\n%s' % (
                len(bad), bad[0][0], bad[0][2]))
        meta = {
            'key': key, 'repo': repo,
            'units': [{'src': r[0], 'pkl': os.path.basename(r[1]),
                       'json_bytes': r[3], 'secs': round(r[4], 2),
                       'clang_errors': r[5]} for r in res],
            'flags': {f: fl for f, fl in units2.items()},
            'wall_s': round(time.time() - t0, 2),
        }
        meta['flags'] = {f: [x.replace(tmpd, cdir) for x in fl]
                         for f, fl in meta['flags'].items()}
        with open(os.path.join(tmpd, 'meta.json'), 'w') as f:
            json.dump(meta, f)
        os.makedirs(CACHE, exist_ok=True)
        if os.path.exists(cdir):
            shutil.rmtree(tmpd, ignore_errors=True)
        else:
            os.rename(tmpd, cdir)
        _prune_cache(keep=key)
        if verbose:
            print('front end: %d units in %.1fs' % (len(res), time.time() - t0),
                  file=sys.stderr)
        return cdir, meta
    finally:
        shutil.rmtree(scratch, ignore_errors=True)


def _prune_cache(keep, maxn=4):
    maxn = int(os.environ.get('VERIF_CACHE_MAX', maxn))
    try:
        ents = [(os.path.getmtime(os.path.join(CACHE, d)), d)
                for d in os.listdir(CACHE) if d != keep and '.tmp' not in d]
    except OSError:
        return
    ents.sort(reverse=True)
    now = time.time()
    for mt, d in ents[maxn - 1:]:
        if now - mt < 1800:
            continue             # possibly in use by a concurrent run on another tree
        shutil.rmtree(os.path.join(CACHE, d), ignore_errors=True)


def load_units(repo=None):
    cdir, meta = build(repo)
    out = []
    for u in meta['units']:
        with open(os.path.join(cdir, u['pkl']), 'rb') as f:
            out.append(pickle.load(f))
    return out, meta


if __name__ == '__main__':
    t = time.time()
    cdir, meta = build(verbose=True)
    print(cdir, len(meta['units']), 'units', meta['wall_s'], 's build;',
          round(time.time() - t, 2), 's now')
