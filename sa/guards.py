"""Structured must-facts (dominance-style) over the clang AST.

walk_with_facts(func, visit) calls visit(node, facts) for every expression node with the set of
facts that hold on every path reaching it.  Facts are strings:
   E:<path>      the std::optional named by <path> is engaged
   NE:<path>     the iterator <path> was compared unequal to an end() iterator
   B:<path>      bounds facts are kept as tuples ('B', index path, op, container path / literal)
   NZ:<path>     the arithmetic value <path> is non-zero
   ORD:<path>    <path> took part in an ordered comparison that held (so it is not a NaN)
Paths are canonical access paths rooted at a declaration id ("#0x..:name.a.b"), with
dereferences of optionals / smart pointers written as '!'.
The code base has no goto; asserts are compiled out (NDEBUG) and establish nothing.
"""
from .program import children, strip, walk, locstr, literal_value

LEAVE = ('ReturnStmt', 'CXXThrowExpr', 'BreakStmt', 'ContinueStmt')
# wrappers that convert a floating value to an integer (rule C15-U11 decides their body)
CONVERTERS = ('saturating_cast',)


_ALIASES = {}


def canon(n):
    """Canonical path of an lvalue-ish expression, or None."""
    n = strip(n, explicit=True)
    k = n.get('kind')
    if k == 'DeclRefExpr':
        ref = n.get('referencedDecl') or {}
        if ref.get('id') in _ALIASES:
            return _ALIASES[ref.get('id')]
        return '#%s:%s' % (ref.get('id'), ref.get('name'))
    if k == 'CXXThisExpr':
        return 'this'
    if k == 'MemberExpr':
        c = children(n)
        if not c:
            return 'this.' + (n.get('name') or '?')
        b = canon(c[0])
        if b is None:
            return None
        sep = '!.' if n.get('isArrow') and not b.endswith('!') and strip(c[0]).get('kind') != 'CXXThisExpr' \
            and 'optional' in (strip(c[0]).get('type') or '') else '.'
        return b + sep + (n.get('name') or '?')
    if k == 'CXXOperatorCallExpr':
        c = children(n)
        op = (strip(c[0]).get('referencedDecl') or {}).get('name')
        if op in ('operator*', 'operator->') and len(c) > 1:
            b = canon(c[1])
            return None if b is None else b + '!'
        if op == 'operator[]' and len(c) > 2:
            b = canon(c[1])
            i = canon(c[2])
            lit = literal_value(c[2])
            if b is None:
                return None
            return '%s[%s]' % (b, lit if lit is not None else (i or '?'))
        return None
    if k == 'CXXMemberCallExpr':
        callee = strip(children(n)[0])
        nm = callee.get('name')
        if nm in ('value', 'operator*', 'operator->', 'get') and children(callee):
            b = canon(children(callee)[0])
            return None if b is None else b + '!'
        if nm in ('size', 'length') and children(callee) and len(children(n)) == 1:
            b = canon(children(callee)[0])
            return None if b is None else b + '.size()'
        if nm in ('end', 'cend', 'begin', 'cbegin') and children(callee) and len(children(n)) == 1:
            b = canon(children(callee)[0])
            return None if b is None else b + '.%s()' % nm.replace('c', '', 1) if nm.startswith('c') else b + '.%s()' % nm
        return None
    if k == 'CallExpr' and len(children(n)) == 2 and \
            (strip(children(n)[0]).get('referencedDecl') or {}).get('name') in CONVERTERS:
        # the repository's range-safe floating -> integer conversion: names the converted operand
        return canon(children(n)[1])
    if k == 'CallExpr' and len(children(n)) == 1:
        # std::numeric_limits<T>::max() / min() / lowest(): a constant of the result type
        ref = strip(children(n)[0]).get('referencedDecl') or {}
        if ref.get('kind') == 'CXXMethodDecl' and ref.get('name') in ('max', 'min', 'lowest'):
            return 'limit.%s<%s>' % ('min' if ref['name'] == 'lowest' else ref['name'], n.get('type') or '?')
    if k == 'UnaryOperator' and n.get('opcode') in ('*',):
        b = canon(children(n)[0])
        return None if b is None else b + '!'
    if k == 'BinaryOperator' and n.get('opcode') in ('+', '-'):
        a, b2 = children(n)
        pa = canon(a)
        kb = literal_value(b2)
        if pa is not None and isinstance(kb, int) and not isinstance(kb, bool):
            return '%s%s%d' % (pa, n['opcode'], kb)
    return None


def _is_optional(n):
    t = (strip(n).get('type') or '')
    return 'optional<' in t or t.startswith('std::optional') or 'std::optional' in t


_CUR_TU = [None]


def _predicate_call(n):
    """For a call of a repository function whose body is `return <expr>;` (a named predicate such as
    is_out_of_range(i, n)): (return expression, {canonical parameter path: canonical argument path}), else None.
    The facts of the returned expression, with the arguments substituted, are the facts of the call."""
    tu = _CUR_TU[0]
    if tu is None or n.get('kind') != 'CallExpr':
        return None
    c = children(n)
    ref = (strip(c[0]).get('referencedDecl') or {}) if c else {}
    if ref.get('kind') not in ('FunctionDecl', 'CXXMethodDecl') or ref.get('name') in CONVERTERS:
        return None
    from . import program
    prog = program.load()
    d = tu.ids.get(ref.get('id'))
    defs = prog.definitions_for(tu, d) if d is not None else []
    if len(defs) != 1 or defs[0].body is None or not prog.in_repo(defs[0].file):
        return None
    f = defs[0]
    body = [x for x in children(f.body)]
    if len(body) != 1 or body[0].get('kind') != 'ReturnStmt' or not children(body[0]):
        return None
    if 'bool' not in (f.type or '').split('(')[0]:
        return None
    args = c[1:]
    if len(args) != len(f.params):
        return None
    m = {}
    for p_, a in zip(f.params, args):
        m['#%s:%s' % (p_.get('id'), p_.get('name'))] = canon(a)
    return children(body[0])[0], m


def _subst_fact(fact, m):
    if isinstance(fact, str):
        for k, v in m.items():
            if k in fact:
                if v is None:
                    return None
                fact = fact.replace(k, v)
        return fact
    if isinstance(fact, tuple):
        out = []
        for x in fact:
            y = _subst_fact(x, m)
            if y is None and x is not None:
                return None
            out.append(y)
        return tuple(out)
    if isinstance(fact, (set, frozenset)):
        out = set()
        for x in fact:
            y = _subst_fact(x, m)
            if y is not None:
                out.add(y)
        return type(fact)(out)
    return fact


def _via_predicate(n, truth):
    pc = _predicate_call(n)
    if pc is None:
        return None
    expr, m = pc
    facts = truthy(expr) if truth else falsy(expr)
    out = set()
    for f in facts:
        g = _subst_fact(f, m)
        if g is not None:
            out.add(g)
    return out


def truthy(cond):
    """Facts implied by cond being true."""
    out = set()
    n = strip(cond)
    k = n.get('kind')
    if k == 'CallExpr':
        via = _via_predicate(n, True)
        if via is not None:
            return via
    if k == 'BinaryOperator':
        op = n.get('opcode')
        c = children(n)
        if op == '&&':
            return truthy(c[0]) | truthy(c[1])
        if op in ('!=', '==', '<', '>', '<=', '>='):
            out |= _cmp_facts(op, c[0], c[1], True)
        return out
    if k == 'UnaryOperator' and n.get('opcode') == '!':
        return falsy(children(n)[0])
    if k == 'CXXOperatorCallExpr':
        c = children(n)
        op = (strip(c[0]).get('referencedDecl') or {}).get('name')
        if op in ('operator!=', 'operator==', 'operator<', 'operator>', 'operator<=', 'operator>=') and len(c) == 3:
            out |= _cmp_facts(op[8:], c[1], c[2], True)
        if op == 'operator!' and len(c) == 2:
            return falsy(c[1])
        return out
    if k == 'CXXMemberCallExpr':
        callee = strip(children(n)[0])
        nm = callee.get('name') or ''
        if nm in ('operator bool', 'has_value') and children(callee):
            p = canon(children(callee)[0])
            if p:
                out.add('E:' + p)
        return out
    if k in ('ImplicitCastExpr', 'CXXStaticCastExpr') and children(n):
        return truthy(children(n)[0])
    if k == 'CallExpr' and len(children(n)) == 2 and \
            (strip(children(n)[0]).get('referencedDecl') or {}).get('name') == 'isfinite':
        pp = canon(children(n)[1])
        if pp:
            out.add('ORD:' + pp)
        return out
    p = canon(n)
    if p and _is_optional(n):
        out.add('E:' + p)
    elif p:
        out.add('NZ:' + p)
    return out


def falsy(cond):
    out = set()
    n = strip(cond)
    k = n.get('kind')
    if k == 'CallExpr':
        via = _via_predicate(n, False)
        if via is not None:
            return via
    if k == 'BinaryOperator':
        op = n.get('opcode')
        c = children(n)
        if op == '||':
            return falsy(c[0]) | falsy(c[1])
        if op in ('!=', '==', '<', '>', '<=', '>='):
            out |= _cmp_facts(op, c[0], c[1], False)
        return out
    if k == 'UnaryOperator' and n.get('opcode') == '!':
        return truthy(children(n)[0])
    if k == 'CXXOperatorCallExpr':
        c = children(n)
        op = (strip(c[0]).get('referencedDecl') or {}).get('name')
        if op in ('operator!=', 'operator==', 'operator<', 'operator>', 'operator<=', 'operator>=') and len(c) == 3:
            out |= _cmp_facts(op[8:], c[1], c[2], False)
        if op == 'operator!' and len(c) == 2:
            return truthy(c[1])
        return out
    if k == 'CXXMemberCallExpr':
        callee = strip(children(n)[0])
        if callee.get('name') == 'empty' and children(callee):
            p = canon(children(callee)[0])
            if p:
                out.add(('B', '0', '<', p + '.size()'))
                out.add('NZ:' + p + '.size()')
        return out
    if k in ('ImplicitCastExpr', 'CXXStaticCastExpr') and children(n):
        return falsy(children(n)[0])
    if k == 'CallExpr' and len(children(n)) == 2 and \
            (strip(children(n)[0]).get('referencedDecl') or {}).get('name') == 'isnan':
        pp = canon(children(n)[1])
        if pp:
            out.add('ORD:' + pp)
        return out
    p = canon(n)
    if p and not _is_optional(n):
        out.add('Z:' + p)
    return out


def float_to_int_cast(node):
    """The expression converts a floating value to an integer type (explicit or implicit)."""
    x = strip(node) if node.get('kind') == 'ParenExpr' else node
    while isinstance(x, dict) and x.get('kind') in ('CXXStaticCastExpr', 'CStyleCastExpr', 'CXXFunctionalCastExpr',
                                                      'ImplicitCastExpr', 'ParenExpr', 'CallExpr'):
        c = children(x)
        if not c:
            break
        if x.get('kind') == 'CallExpr':
            if len(c) == 2 and (strip(c[0]).get('referencedDecl') or {}).get('name') in CONVERTERS:
                return True
            break
        inner_t = (strip(c[0]).get('type') or '')
        outer_t = (x.get('type') or '')
        if ('double' in inner_t or 'float' in inner_t) and not ('double' in outer_t or 'float' in outer_t):
            return True
        x = c[0]
    return False


NEG = {'==': '!=', '!=': '==', '<': '>=', '>=': '<', '>': '<=', '<=': '>'}
FLIP = {'<': '>', '>': '<', '<=': '>=', '>=': '<=', '==': '==', '!=': '!='}


def _cmp_facts(op, a, b, truth):
    ordered = (truth and op in ('<', '<=', '>', '>=', '==')) or (not truth and op == '!=')
    if not truth:
        op = NEG[op]
    out = set()
    pa, pb = canon(a), canon(b)
    if ordered:
        # a comparison that evaluated to true: neither operand is a NaN (facts obtained by negating a failed
        # comparison do not say so)
        for x in (pa, pb):
            if x:
                out.add('ORD:' + x)
    la, lb = literal_value(a), literal_value(b)
    sa_, sb_ = strip(a, explicit=True), strip(b, explicit=True)
    # optional vs nullopt
    for x, y in ((a, b), (b, a)):
        ys = strip(y, explicit=True)
        if (ys.get('referencedDecl') or {}).get('name') == 'nullopt' or 'nullopt_t' in (ys.get('type') or ''):
            px = canon(x)
            if px and op == '!=':
                out.add('E:' + px)
    # iterator vs end()
    if op == '!=':
        for x, y in ((pa, pb), (pb, pa)):
            if x and y and y.endswith('.end()'):
                out.add('NE:' + x)
        for x, l, node in ((pa, lb, a), (pb, la, b)):
            if x and l == 0:
                out.add('NZ:' + x)
                if float_to_int_cast(node):
                    out.add('NZI:' + x)
    if op in ('>', '<') :
        for x, l, o, node in ((pa, lb, op, a), (pb, la, FLIP[op], b)):
            if x and isinstance(l, (int, float)) and ((o == '>' and l >= 0) or (o == '<' and l <= 0)):
                out.add('NZ:' + x)
                if float_to_int_cast(node):
                    out.add('NZI:' + x)      # the comparison is made on the truncated integer value
    # bounds: index op container.size() / literal
    ka = pa if pa else (str(la) if isinstance(la, int) else None)
    kb = pb if pb else (str(lb) if isinstance(lb, int) else None)
    if ka and kb:
        out.add(('B', ka, op, kb))
        out.add(('B', kb, FLIP[op], ka))
    return out


def always_leaves(n):
    k = n.get('kind')
    if k in ('ReturnStmt', 'CXXThrowExpr'):
        return True
    if k in ('BreakStmt', 'ContinueStmt'):
        return True
    x = strip(n)
    if x.get('kind') == 'CXXThrowExpr':
        return True
    if k == 'CompoundStmt':
        c = children(n)
        return bool(c) and any(always_leaves(s) for s in c)
    if k == 'IfStmt':
        c = children(n)
        if not n.get('hasElse'):
            return False
        return always_leaves(c[-2]) and always_leaves(c[-1])
    return False


def _invalidate(facts, path):
    if path is None:
        return facts
    keep = set()
    for f in facts:
        s = f if isinstance(f, str) else '|'.join(map(str, f))
        if path in s:
            continue
        keep.add(f)
    return keep


def _assigned_paths(n):
    """Paths written by expression node n itself (assignment, ++, non-const member call)."""
    k = n.get('kind')
    out = []
    if k in ('BinaryOperator', 'CompoundAssignOperator') and (n.get('opcode') or '').endswith('=') \
            and n.get('opcode') not in ('==', '!=', '<=', '>='):
        out.append(canon(children(n)[0]))
    elif k == 'UnaryOperator' and n.get('opcode') in ('++', '--'):
        out.append(canon(children(n)[0]))
    elif k == 'CXXOperatorCallExpr':
        c = children(n)
        op = (strip(c[0]).get('referencedDecl') or {}).get('name')
        if op in ('operator=', 'operator+=', 'operator++', 'operator--') and len(c) > 1:
            out.append(canon(c[1]))
            l = strip(c[1], explicit=True)
            if l.get('kind') == 'CallExpr' and (strip(children(l)[0]).get('referencedDecl') or {}).get('name') == 'tie':
                for a in children(l)[1:]:
                    out.append(canon(a))
    elif k == 'CXXMemberCallExpr':
        callee = strip(children(n)[0])
        if callee.get('name') in ('reset', 'clear', 'erase', 'pop_back', 'resize', 'swap', 'emplace', 'push_back',
                                  'emplace_back', 'insert', 'assign', 'push_front') and children(callee):
            out.append(canon(children(callee)[0]))
    return [p for p in out if p]


def _engaging_assignment(n):
    """x = <value known to be engaged>  ->  'E:x'."""
    k = n.get('kind')
    lhs = rhs = None
    if k == 'BinaryOperator' and n.get('opcode') == '=':
        lhs, rhs = children(n)
    elif k == 'CXXOperatorCallExpr':
        c = children(n)
        if (strip(c[0]).get('referencedDecl') or {}).get('name') == 'operator=' and len(c) == 3:
            lhs, rhs = c[1], c[2]
    if lhs is None or not _is_optional(lhs):
        return None
    if _rhs_engaged(rhs):
        p = canon(lhs)
        return 'E:' + p if p else None
    return None


def _rhs_engaged(rhs):
    r = strip(rhs, explicit=True)
    t = r.get('type') or ''
    if r.get('kind') == 'CallExpr' and (strip(children(r)[0]).get('referencedDecl') or {}).get('name') == 'make_optional':
        return True
    if (r.get('referencedDecl') or {}).get('name') == 'nullopt' or 'nullopt_t' in t:
        return False
    if r.get('kind') in ('CXXConstructExpr', 'CXXTemporaryObjectExpr'):
        args = [a for a in children(r) if a.get('kind') != 'CXXDefaultArgExpr']
        if len(args) == 1:
            at = strip(args[0]).get('type') or ''
            if 'optional' not in at and 'nullopt' not in at:
                return True
            return _rhs_engaged(args[0])
        return False
    if 'optional' not in t and 'nullopt' not in t and t:
        return True
    return False


class Walker:
    def __init__(self, func, visit):
        self.func = func
        self.visit = visit

    def run(self):
        _CUR_TU[0] = getattr(self.func, 'tu', None)
        self._immediate = set()
        _ALIASES.clear()
        if self.func.body is not None:
            for x in walk(self.func.body):
                if x.get('kind') in ('CallExpr', 'CXXMemberCallExpr', 'CXXOperatorCallExpr'):
                    for a in children(x)[1:]:
                        y = strip(a)
                        while y.get('kind') in ('MaterializeTemporaryExpr', 'CXXBindTemporaryExpr', 'ExprWithCleanups',
                                                'CXXConstructExpr', 'CXXFunctionalCastExpr') and len(children(y)) == 1:
                            y = strip(children(y)[0])
                        if y.get('kind') == 'LambdaExpr':
                            self._immediate.add(id(y))
            # `const auto last = v.end();` - a name for the end of a container
            from .program import single_assignment_locals
            for vid, init in single_assignment_locals(self.func.node).items():
                e = strip(init, explicit=True)
                if e.get('kind') == 'CXXMemberCallExpr' and strip(children(e)[0]).get('name') in ('end', 'cend') \
                        and len(children(e)) == 1:
                    c = canon(e)
                    if c:
                        _ALIASES[vid] = c
                # `const auto n = v.size();` of a container this function never resizes: a name for v.size()
                if e.get('kind') == 'CXXMemberCallExpr' and strip(children(e)[0]).get('name') in ('size', 'length') \
                        and len(children(e)) == 1:
                    obj = children(strip(children(e)[0]))
                    oc = canon(obj[0]) if obj else None
                    c = canon(e)
                    if c and oc:
                        mutated = False
                        for y in walk(self.func.body):
                            if y.get('kind') == 'CXXMemberCallExpr':
                                cal = strip(children(y)[0])
                                if cal.get('name') in ('push_back', 'emplace_back', 'resize', 'erase', 'clear', 'insert',
                                                       'pop_back', 'assign', 'swap', 'emplace', 'reserve') and \
                                        children(cal) and canon(children(cal)[0]) == oc:
                                    mutated = mutated or cal.get('name') != 'reserve'
                            for ap in _assigned_paths(y):
                                if ap == oc:
                                    mutated = True
                        if not mutated:
                            _ALIASES[vid] = c
            # `constexpr T lowest = std::numeric_limits<T>::min();  const double lower = static_cast<double>(lowest);`
            # a constant local, never assigned, that holds a limit of an integer type in the same type or converted to
            # a floating type (what the comparison would do with the limit written in place): a name for that limit.
            # Chains of such names are followed (each round resolves one more link).
            ids = getattr(getattr(self.func, 'tu', None), 'ids', None) or {}
            locs = single_assignment_locals(self.func.node)
            for _round in range(4):
                grew = False
                for vid, init in locs.items():
                    if vid in _ALIASES:
                        continue
                    d = ids.get(vid)
                    if d is None or d.get('kind') != 'VarDecl':
                        continue
                    vt = (d.get('dtype') or d.get('type') or '')
                    if not (d.get('constexpr') or vt.startswith('const ') or ' const' in vt) or '&' in vt or '*' in vt:
                        continue
                    c = canon(init)
                    if not c or not c.startswith('limit.') or not c.endswith('>'):
                        continue
                    bare = vt.replace('constexpr', '').replace('const', '').strip()
                    lt = c[c.index('<') + 1:-1].replace('const', '').strip()
                    if bare == lt or bare in ('double', 'long double'):
                        _ALIASES[vid] = c
                        grew = True
                if not grew:
                    break
        if self.func.body is not None:
            self.stmt(self.func.body, set())

    # returns facts after the statement (None if it never completes normally)
    def stmt(self, n, facts):
        k = n.get('kind')
        if k == 'CompoundStmt':
            cur = facts
            for s in children(n):
                cur = self.stmt(s, cur)
                if cur is None:
                    return None
            return cur
        if k == 'DeclStmt':
            cur = facts
            for d in children(n):
                if d.get('kind') == 'VarDecl':
                    init = [x for x in children(d) if not x['kind'].endswith('Attr') and not x['kind'].endswith('Comment')]
                    if init:
                        cur = self.expr(init[-1], cur)
                        if (d.get('dtype') or d.get('type') or '').replace('const ', '').strip() == 'bool':
                            # a named condition: testing the flag later establishes what the condition does,
                            # as long as nothing it mentions is assigned in between (_invalidate drops the fact)
                            cur = cur | {('FLAG', '#%s:%s' % (d.get('id'), d.get('name')),
                                          frozenset(self._t(init[-1], cur)), frozenset(self._f(init[-1], cur)))}
                        if _is_optional(d) and _rhs_engaged(init[-1]) and not \
                                (strip(init[-1]).get('kind') == 'CXXConstructExpr' and not children(strip(init[-1]))):
                            cur = cur | {'E:#%s:%s' % (d.get('id'), d.get('name'))}
                        # alias:  auto& row = *row_maybe;   carries no new fact
            return cur
        if k == 'IfStmt':
            c = children(n)
            has_else = n.get('hasElse')
            body = c[-2:] if has_else else c[-1:]
            pre = c[:-2] if has_else else c[:-1]
            cur = facts
            cond = None
            for p in pre:
                if p.get('kind') == 'DeclStmt':
                    cur = self.stmt(p, cur)
                else:
                    cond = p
                    cur = self.expr(p, cur)
            t_f = cur | (self._t(cond, cur) if cond is not None else set())
            e_f = cur | (self._f(cond, cur) if cond is not None else set())
            a = self.stmt(body[0], t_f)
            b = self.stmt(body[1], e_f) if has_else else e_f
            if a is None and b is None:
                return None
            if a is None:
                return b
            if b is None:
                return a
            return a & b
        if k in ('WhileStmt',):
            c = children(n)
            cond, body = c[-2], c[-1]
            inv = self._loop_invalidate(n, facts)
            cur = self.expr(cond, inv)
            self.stmt(body, cur | self._t(cond, cur))
            return inv | self._f(cond, inv) if not self._has_break(body) else inv
        if k == 'DoStmt':
            c = children(n)
            body, cond = c[0], c[1]
            inv = self._loop_invalidate(n, facts)
            # first iteration runs with the facts before the loop (minus what the body itself invalidates later)
            out = self.stmt(body, facts if True else inv)
            self.stmt(body, inv | self._t(cond, inv))
            self.expr(cond, inv)
            return inv | self._f(cond, inv) if not self._has_break(body) else inv
        if k == 'ForStmt':
            c = children(n)
            cur = facts
            init, cond, inc, body = None, None, None, c[-1]
            parts = c[:-1]
            if parts and parts[0].get('kind') == 'DeclStmt':
                cur = self.stmt(parts[0], cur)
                parts = parts[1:]
            elif parts and parts[0].get('kind'):
                cur = self.expr(parts[0], cur)
                parts = parts[1:]
            inv = self._loop_invalidate(n, cur)
            exprs = [p for p in parts if p.get('kind')]
            cond = exprs[0] if exprs else None
            bf = inv | (self._t(cond, inv) if cond is not None else set())
            if cond is not None:
                self.expr(cond, inv)
            self.stmt(body, bf)
            for p in exprs[1:]:
                self.expr(p, bf)
            return inv | (self._f(cond, inv) if cond is not None and not self._has_break(body) else set())
        if k == 'CXXForRangeStmt':
            c = children(n)
            cur = facts
            for p in c[:-1]:
                if p.get('kind') == 'DeclStmt':
                    cur = self.stmt(p, cur)
            inv = self._loop_invalidate(n, cur)
            self.stmt(c[-1], inv)
            return inv
        if k == 'ReturnStmt':
            for c in children(n):
                self.expr(c, facts)
            return None
        if k == 'CXXTryStmt':
            c = children(n)
            a = self.stmt(c[0], facts)
            outs = [a]
            for h in c[1:]:
                hb = children(h)[-1] if children(h) else None
                if hb is not None:
                    outs.append(self.stmt(hb, self._loop_invalidate(c[0], facts)))
            live = [o for o in outs if o is not None]
            if not live:
                return None
            r = live[0]
            for o in live[1:]:
                r = r & o
            return r
        if k == 'SwitchStmt':
            c = children(n)
            cur = facts
            for p in c[:-1]:
                if p.get('kind') == 'DeclStmt':
                    cur = self.stmt(p, cur)
                elif p.get('kind'):
                    cur = self.expr(p, cur)
            inv = self._loop_invalidate(n, cur)
            self.stmt(c[-1], inv)
            return inv
        if k in ('CaseStmt', 'DefaultStmt', 'LabelStmt', 'AttributedStmt'):
            cur = facts
            for ch in children(n):
                if ch.get('kind') in ('ConstantExpr', 'IntegerLiteral'):
                    continue
                r = self.stmt(ch, cur)
                cur = r if r is not None else cur
            return cur
        if k in ('BreakStmt', 'ContinueStmt'):
            return None
        if k == 'NullStmt':
            return facts
        if k == 'CXXThrowExpr' or strip(n).get('kind') == 'CXXThrowExpr':
            self.expr(n, facts)
            return None
        return self.expr(n, facts)

    def _expand(self, new, cur):
        out = set(new)
        for f in cur:
            if isinstance(f, tuple) and f[0] == 'FLAG':
                if ('NZ:' + f[1]) in new:
                    out |= f[2]
                if ('Z:' + f[1]) in new:
                    out |= f[3]
        return out

    def _t(self, cond, cur):
        return self._expand(truthy(cond), cur)

    def _f(self, cond, cur):
        return self._expand(falsy(cond), cur)

    def _has_break(self, body):
        for x in walk(body):
            if x.get('kind') == 'BreakStmt':
                return True
        return False

    def _loop_invalidate(self, loop, facts):
        cur = facts
        for x in walk(loop):
            for p in _assigned_paths(x):
                cur = _invalidate(cur, p)
        return cur

    # expression: visits nodes with facts; returns facts after evaluation
    def expr(self, n, facts):
        if not isinstance(n, dict) or not n.get('kind'):
            return facts
        k = n.get('kind')
        if k in ('CompoundStmt', 'IfStmt', 'ForStmt', 'WhileStmt', 'DoStmt', 'CXXForRangeStmt', 'ReturnStmt',
                 'DeclStmt', 'CXXTryStmt', 'SwitchStmt'):
            r = self.stmt(n, facts)
            return r if r is not None else facts
        if k == 'LambdaExpr':
            body = [c for c in children(n) if c.get('kind') == 'CompoundStmt']
            if body:
                # a lambda may run later / repeatedly: only facts about constants survive; be conservative -
                # unless it is written as an argument of a call (std::any_of(.., [&]{..}), a statement sink): then
                # it runs during that call, under the facts that hold there
                self.stmt(body[-1], set(facts) if id(n) in self._immediate else set())
            return facts
        self.visit(n, facts, self.func)
        if k == 'ConditionalOperator':
            c = children(n)
            cur = self.expr(c[0], facts)
            self.expr(c[1], cur | self._t(c[0], cur))
            self.expr(c[2], cur | self._f(c[0], cur))
            return cur
        if k == 'BinaryOperator' and n.get('opcode') in ('&&', '||'):
            c = children(n)
            cur = self.expr(c[0], facts)
            self.expr(c[1], cur | (self._t(c[0], cur) if n['opcode'] == '&&' else self._f(c[0], cur)))
            return cur
        cur = facts
        for c in children(n):
            cur = self.expr(c, cur)
        ap = _assigned_paths(n)
        for p in ap:
            cur = _invalidate(cur, p)
        if ap:
            cur = cur | {'A:' + p for p in ap}
        e = _engaging_assignment(n)
        if e:
            cur = cur | {e}
        return cur


def walk_with_facts(func, visit):
    Walker(func, visit).run()
