"""Program model over the slim clang trees: declarations, qualified names,
functions with bodies, records with bases/fields/methods, enums, constants,
and callee resolution (class-hierarchy analysis for virtual calls)."""
import os
import re
import sys

from . import frontend
from .frontend import AnalysisBroken

FUNC_KINDS = {'FunctionDecl', 'CXXMethodDecl', 'CXXConstructorDecl',
              'CXXDestructorDecl', 'CXXConversionDecl'}
RECORD_KINDS = {'CXXRecordDecl', 'ClassTemplateSpecializationDecl',
                'ClassTemplatePartialSpecializationDecl'}
CTX_KINDS = RECORD_KINDS | {'NamespaceDecl', 'EnumDecl'}
DEPENDENT_KINDS = {'UnresolvedLookupExpr', 'CXXDependentScopeMemberExpr',
                   'UnresolvedMemberExpr', 'DependentScopeDeclRefExpr',
                   'CXXUnresolvedConstructExpr', 'PackExpansionExpr',
                   'SizeOfPackExpr', 'CXXFoldExpr'}


def rel(path, repo=None):
    repo = repo or frontend.REPO
    if path and path.startswith(repo + '/'):
        return path[len(repo) + 1:]
    return path


def locstr(node, repo=None):
    l = node.get('loc') if isinstance(node, dict) else node
    if not l:
        return '?'
    return '%s:%s' % (rel(l[0], repo), l[1])


def walk(node):
    """Pre-order over every node of a tree (including lambda classes)."""
    stack = [node]
    while stack:
        n = stack.pop()
        yield n
        inner = n.get('inner')
        if inner:
            stack.extend(reversed([c for c in inner if isinstance(c, dict)]))


def children(node):
    return [c for c in node.get('inner', ()) if isinstance(c, dict)]


class Function:
    __slots__ = ('key', 'qualname', 'name', 'node', 'tu', 'cls', 'params',
                 'body', 'type', 'is_pattern', 'virtual', 'pure', 'kind',
                 'inits', 'has_recovery', 'is_const', 'file', 'line',
                 'defaulted', 'deleted', 'storage', 'ret')

    def __repr__(self):
        return '<Function %s>' % self.key


class Record:
    __slots__ = ('qualname', 'name', 'node', 'tu', 'bases', 'fields', 'methods',
                 'file', 'line', 'tag')

    def __repr__(self):
        return '<Record %s>' % self.qualname


class TU:
    def __init__(self, src, tops):
        self.src = src
        self.tops = tops
        self.ids = {}       # id -> decl node
        self.qn = {}        # id -> qualified name
        self.parent_ctx = {}  # id -> id of lexical context


_ret_re = re.compile(r'^(.*?)\s*\((.*)\)(\s*(const|noexcept|&|&&|volatile))*\s*(noexcept)?$')


def _strip_elab(t):
    return t


class Program:
    def __init__(self, repo=None):
        self.repo = repo or frontend.REPO
        units, meta = frontend.load_units(self.repo)
        self.meta = meta
        self.tus = [TU(u['src'], u['tops']) for u in units]
        self.functions = {}       # key -> Function (definitions)
        self.by_qualname = {}     # qualname -> [Function]
        self.records = {}         # qualname -> Record (definitions)
        self.enums = {}           # qualname -> {enumerator: value}
        self.enum_nodes = {}
        self.consts = {}          # qualname -> literal value (int/float/str)
        self.var_nodes = {}       # qualname -> VarDecl node (namespace/static scope)
        self.derived = {}         # base qualname -> set(derived qualname)
        self.tu_of_node = {}
        self.def_by_declloc = {}  # (file, line, col) of any declaration -> its definition
        for tu in self.tus:
            self._index_tu(tu)
        self._link_records()

    # ------------------------------------------------------------------
    def in_repo(self, path):
        return bool(path) and path.startswith(self.repo + '/') and \
            '/ext/' not in path

    def _index_tu(self, tu):
        pending = []

        def visit(n, ctx_qn, ctx_id, in_pattern, in_func):
            k = n.get('kind')
            nid = n.get('id')
            name = n.get('name')
            if nid and k and k.endswith('Decl'):
                tu.ids[nid] = n
                tu.parent_ctx[nid] = ctx_id
                if name is not None:
                    q = (ctx_qn + '::' + name) if ctx_qn else name
                elif k == 'NamespaceDecl':
                    q = (ctx_qn + '::(anon)') if ctx_qn else '(anon)'
                else:
                    q = (ctx_qn + '::' + '(unnamed@%s)' % (n.get('loc') or ('', 0))[1]) if ctx_qn else ''
                tu.qn[nid] = q
                if 'parentDeclContextId' in n:
                    pending.append(n)
            else:
                q = ctx_qn
            if k in ('FunctionTemplateDecl', 'ClassTemplateDecl', 'VarTemplateDecl',
                     'TypeAliasTemplateDecl'):
                # first non-parameter child is the pattern; later ones are
                # instantiations / specialisations
                first = True
                for c in children(n):
                    ck = c.get('kind')
                    if ck in ('TemplateTypeParmDecl', 'NonTypeTemplateParmDecl',
                              'TemplateTemplateParmDecl'):
                        visit(c, ctx_qn, ctx_id, in_pattern, in_func)
                        continue
                    visit(c, ctx_qn, ctx_id, in_pattern or first, in_func)
                    first = False
                return
            if k == 'ClassTemplatePartialSpecializationDecl':
                in_pattern = True
            if in_pattern and nid:
                n['_pattern'] = True
            if k in CTX_KINDS:
                for c in children(n):
                    visit(c, q, nid, in_pattern, in_func)
                return
            if k in FUNC_KINDS:
                n['_ctxqn'] = ctx_qn
                for c in children(n):
                    visit(c, q, nid, in_pattern, True)
                return
            for c in children(n):
                visit(c, ctx_qn if not (nid and k.endswith('Decl')) else ctx_qn,
                      ctx_id, in_pattern, in_func)

        sys.setrecursionlimit(20000)
        for top in tu.tops:
            visit(top, '', None, False, False)
        # semantic parents of out-of-line definitions
        for n in pending:
            pid = n['parentDeclContextId']
            pq = tu.qn.get(pid)
            if pq is None:
                continue
            name = n.get('name')
            if name is None:
                continue
            tu.qn[n['id']] = pq + '::' + name
            n['_ctxqn'] = pq
            n['_semctx'] = pid
            if n.get('kind') in FUNC_KINDS:
                # params / locals keep function-relative names; not needed
                pass
        # second pass: collect definitions
        for nid, n in tu.ids.items():
            k = n['kind']
            if k in FUNC_KINDS:
                self._add_function(tu, n)
            elif k in RECORD_KINDS:
                self._add_record(tu, n)
            elif k == 'EnumDecl':
                self._add_enum(tu, n)
            elif k == 'VarDecl':
                self._add_var(tu, n)

    def _add_function(self, tu, n):
        loc = n.get('loc')
        if not loc or not self.in_repo(loc[0]):
            return
        body = None
        inits = []
        params = []
        for c in children(n):
            ck = c['kind']
            if ck in ('CompoundStmt', 'CXXTryStmt'):
                body = c
            elif ck == 'CXXCtorInitializer':
                inits.append(c)
            elif ck == 'ParmVarDecl':
                params.append(c)
        defaulted = bool(n.get('explicitlyDefaulted'))
        if body is None and not defaulted:
            return
        qn = tu.qn.get(n['id'])
        f = Function()
        f.qualname = qn
        f.name = n.get('name')
        f.type = n.get('type') or ''
        f.key = '%s|%s' % (qn, f.type)
        f.node = n
        f.tu = tu
        sem = n.get('_semctx')
        ctxid = sem if sem else tu.parent_ctx.get(n['id'])
        ctxn = tu.ids.get(ctxid) if ctxid else None
        f.cls = tu.qn.get(ctxid) if ctxn is not None and ctxn['kind'] in RECORD_KINDS else None
        f.params = params
        f.body = body
        f.inits = inits
        f.kind = n['kind']
        f.is_pattern = bool(n.get('_pattern')) or self._has_dependent(n)
        f.virtual = bool(n.get('virtual'))
        f.pure = bool(n.get('pure'))
        f.defaulted = defaulted
        f.deleted = bool(n.get('explicitlyDeleted'))
        f.storage = n.get('storageClass')
        f.file, f.line = loc[0], loc[1]
        f.has_recovery = any(x.get('kind') == 'RecoveryExpr' for x in walk(n)) if body is not None else False
        t = f.type
        f.is_const = bool(re.search(r'\)\s*const\b', t))
        m = t.find('(')
        f.ret = t[:m].strip() if m >= 0 else t
        if f.key in self.functions:
            old = self.functions[f.key]
            # prefer a non-pattern definition with body
            if old.body is not None and not (old.is_pattern and not f.is_pattern):
                return
        self.functions[f.key] = f
        self.tu_of_node[id(n)] = tu
        prev = n.get('previousDecl')
        seen = 0
        while prev and seen < 8:
            pn = tu.ids.get(prev)
            if pn is None:
                break
            pl = pn.get('loc')
            if pl:
                self.def_by_declloc[(pl[0], pl[1], pl[2])] = f
            prev = pn.get('previousDecl')
            seen += 1
        self.def_by_declloc[(loc[0], loc[1], loc[2])] = f

    def _has_dependent(self, n):
        for x in walk(n):
            if x.get('kind') in DEPENDENT_KINDS:
                return True
        return False

    def _add_record(self, tu, n):
        if not n.get('completeDefinition') and not any(
                c.get('kind') in ('FieldDecl', 'CXXMethodDecl') for c in children(n)):
            return
        loc = n.get('loc')
        if not loc or not self.in_repo(loc[0]):
            return
        qn = tu.qn.get(n['id'])
        if n.get('_pattern'):
            return
        if qn in self.records and self.records[qn].fields is not None:
            # keep first complete definition
            if self.records[qn].node.get('completeDefinition'):
                return
        r = Record()
        r.qualname = qn
        r.name = n.get('name')
        r.node = n
        r.tu = tu
        r.tag = n.get('tagUsed')
        r.bases = []
        for b in n.get('bases', ()) or ():
            t = b.get('type')
            if isinstance(t, dict):
                t = t.get('desugaredQualType') or t.get('qualType')
            r.bases.append(t)
        r.fields = []
        r.methods = []
        for c in children(n):
            ck = c['kind']
            if ck == 'FieldDecl':
                r.fields.append(c)
            elif ck in FUNC_KINDS:
                r.methods.append(c)
            elif ck == 'FunctionTemplateDecl':
                for cc in children(c):
                    if cc['kind'] in FUNC_KINDS:
                        r.methods.append(cc)
        r.file, r.line = loc[0], loc[1]
        self.records[qn] = r

    def _add_enum(self, tu, n):
        loc = n.get('loc')
        if not loc or not self.in_repo(loc[0]):
            return
        qn = tu.qn.get(n['id'])
        vals = {}
        nxt = 0
        for c in children(n):
            if c['kind'] != 'EnumConstantDecl':
                continue
            v = None
            for x in walk(c):
                if x.get('kind') == 'ConstantExpr' and 'value' in x:
                    try:
                        v = int(x['value'])
                    except ValueError:
                        pass
                    break
                if x.get('kind') == 'IntegerLiteral':
                    v = int(x['value'])
                    break
            if v is None:
                v = nxt
            vals[c['name']] = v
            nxt = v + 1
        if vals or qn not in self.enums:
            self.enums[qn] = vals
            self.enum_nodes[qn] = n

    def _add_var(self, tu, n):
        loc = n.get('loc')
        if not loc or not self.in_repo(loc[0]):
            return
        ctx = tu.parent_ctx.get(n['id'])
        ctxn = tu.ids.get(ctx) if ctx else None
        if ctxn is not None and ctxn['kind'] in FUNC_KINDS:
            return
        qn = tu.qn.get(n['id'])
        if not qn:
            return
        # only namespace / class scope variables
        self.var_nodes.setdefault(qn, n)
        v = literal_value(n)
        if v is not None:
            self.consts.setdefault(qn, v)

    def _link_records(self):
        for qn, r in self.records.items():
            for b in r.bases:
                bq = norm_type_name(b)
                self.derived.setdefault(bq, set()).add(qn)

    # ------------------------------------------------------------------
    def all_derived(self, qn):
        out = set()
        work = [qn]
        while work:
            x = work.pop()
            for d in self.derived.get(x, ()):
                if d not in out:
                    out.add(d)
                    work.append(d)
        return out

    def all_bases(self, qn):
        out = []
        work = [qn]
        while work:
            x = work.pop()
            r = self.records.get(x)
            if not r:
                continue
            for b in r.bases:
                bq = norm_type_name(b)
                if bq not in out:
                    out.append(bq)
                    work.append(bq)
        return out

    def find_method(self, cls, name, type_=None):
        """Definition of cls::name, searching base classes (non-virtual lookup)."""
        for c in [cls] + self.all_bases(cls):
            cands = [f for f in self.by_name(c + '::' + name)
                     if type_ is None or f.type == type_]
            if cands:
                return cands
        return []

    def by_name(self, qualname):
        if not self.by_qualname:
            for f in self.functions.values():
                self.by_qualname.setdefault(f.qualname, []).append(f)
        return self.by_qualname.get(qualname, [])

    def func(self, qualname, type_sub=None):
        c = [f for f in self.by_name(qualname) if not f.is_pattern
             and (type_sub is None or type_sub in f.type)]
        if len(c) != 1:
            c2 = [f for f in self.by_name(qualname) if (type_sub is None or type_sub in f.type)]
            if len(c2) == 1:
                return c2[0]
            raise AnalysisBroken('anchor function %s%s: %d definitions found'
                                 % (qualname, ' [%s]' % type_sub if type_sub else '', len(c)))
        return c[0]

    def decl_of(self, tu, ref):
        """ref: referencedDecl dict or id string -> decl node in that TU."""
        rid = ref.get('id') if isinstance(ref, dict) else ref
        return tu.ids.get(rid)

    def qualname_of(self, tu, ref):
        rid = ref.get('id') if isinstance(ref, dict) else ref
        return tu.qn.get(rid)

    def resolve_callee(self, tu, call):
        """Return (decl_node, qualname, is_virtual_call, receiver_expr) for a
        call-like expression, or (None, None, False, None)."""
        k = call['kind']
        inner = children(call)
        if k in ('CallExpr', 'CXXMemberCallExpr', 'CXXOperatorCallExpr',
                 'UserDefinedLiteral'):
            if not inner:
                return None, None, False, None
            callee = strip(inner[0])
            if callee['kind'] == 'MemberExpr':
                mid = callee.get('referencedMemberDecl')
                d = tu.ids.get(mid)
                recv = children(callee)[0] if children(callee) else None
                qn = tu.qn.get(mid)
                if d is None:
                    return None, callee.get('name'), False, recv
                virt = bool(d.get('virtual')) or self._overrides_virtual(tu, d)
                # explicit qualification disables virtual dispatch: not used in repo
                return d, qn, virt, recv
            if callee['kind'] == 'DeclRefExpr':
                ref = callee.get('referencedDecl') or {}
                d = tu.ids.get(ref.get('id'))
                qn = tu.qn.get(ref.get('id'))
                recv = None
                if k == 'CXXOperatorCallExpr' and d is not None and \
                        d['kind'] in ('CXXMethodDecl',) and len(inner) > 1:
                    recv = inner[1]
                if d is None:
                    return None, ref.get('name'), False, recv
                return d, qn, False, recv
            return None, None, False, None
        return None, None, False, None

    def _overrides_virtual(self, tu, d):
        # clang marks 'virtual' only when written; an override in a derived
        # class without the keyword is still virtual
        if d.get('kind') != 'CXXMethodDecl':
            return False
        for c in children(d):
            if c.get('kind') == 'OverrideAttr':
                return True
        return False

    def definitions_for(self, tu, d, qn=None):
        """Definitions (Function objects) for decl node d of TU tu."""
        if d is None:
            return []
        qn = qn or tu.qn.get(d['id'])
        key = '%s|%s' % (qn, d.get('type') or '')
        f = self.functions.get(key)
        if f:
            return [f]
        dl = d.get('loc')
        if dl:
            f = self.def_by_declloc.get((dl[0], dl[1], dl[2]))
            if f is not None and f.qualname == qn:
                return [f]
        # declaration whose definition spells the type differently
        c = self.by_name(qn)
        if len(c) == 1:
            return c
        nparm = sum(1 for x in children(d) if x['kind'] == 'ParmVarDecl')
        c2 = [f for f in c if len(f.params) == nparm]
        if len(c2) == 1:
            return c2
        return []

    def overriders(self, cls, name, type_, decl=None):
        """All definitions of virtual `name` (with same param list) in cls and
        its derived classes.  Parameter lists are compared on desugared
        parameter types when the declaration node is given (the same type may
        be spelled differently in declaration and definition)."""
        out = []
        sig = param_sig(type_)
        csig = canon_sig(decl) if decl is not None else None
        for c in [cls] + sorted(self.all_derived(cls)):
            cands = self.by_name(c + '::' + name)
            ex = [f for f in cands if param_sig(f.type) == sig]
            if not ex and csig is not None:
                ex = [f for f in cands if canon_sig(f.node) == csig]
            out.extend(ex)
        return out


def canon_sig(node):
    """(desugared parameter types..., constness) of a function declaration."""
    ps = []
    for c in children(node):
        if c.get('kind') == 'ParmVarDecl':
            t = c.get('dtype') or c.get('type') or ''
            ps.append(re.sub(r'\s+', '', t))
    t = node.get('type') or ''
    return (tuple(ps), bool(re.search(r'\)\s*const\b', t)))


def param_sig(t):
    m = t.find('(')
    if m < 0:
        return t
    depth = 0
    for i in range(m, len(t)):
        if t[i] == '(':
            depth += 1
        elif t[i] == ')':
            depth -= 1
            if depth == 0:
                tail = t[i + 1:]
                return t[m:i + 1] + (' const' if re.search(r'\bconst\b', tail) else '')
    return t[m:]


def norm_type_name(t):
    if t is None:
        return None
    t = t.strip()
    for p in ('const ', 'class ', 'struct '):
        while t.startswith(p):
            t = t[len(p):]
    t = t.rstrip('&* ')
    if t.endswith(' const'):
        t = t[:-6]
    return t.strip()


_STRIP = {'ImplicitCastExpr', 'ParenExpr', 'ExprWithCleanups',
          'MaterializeTemporaryExpr', 'CXXBindTemporaryExpr', 'ConstantExpr',
          'FullExpr', 'CXXFunctionalCastExpr', 'CXXStaticCastExpr',
          'CStyleCastExpr', 'SubstNonTypeTemplateParmExpr'}
_STRIP_IMPLICIT = {'ImplicitCastExpr', 'ParenExpr', 'ExprWithCleanups',
                   'MaterializeTemporaryExpr', 'CXXBindTemporaryExpr',
                   'ConstantExpr', 'FullExpr', 'SubstNonTypeTemplateParmExpr'}


def strip(n, explicit=False):
    """Strip wrappers that do not change the value (implicit only by default)."""
    s = _STRIP if explicit else _STRIP_IMPLICIT
    while isinstance(n, dict) and n.get('kind') in s:
        c = children(n)
        if len(c) != 1:
            break
        n = c[0]
    return n


def literal_value(n):
    """Value of a VarDecl/expr when it is a literal (through implicit wrappers,
    unary minus and explicit casts)."""
    if n.get('kind') in ('VarDecl', 'FieldDecl', 'EnumConstantDecl'):
        c = [x for x in children(n) if not x['kind'].endswith('Attr')
             and not x['kind'].endswith('Comment')]
        if not c:
            return None
        return literal_value(c[-1])
    n = strip(n, explicit=True)
    k = n.get('kind')
    if k == 'IntegerLiteral':
        return int(n['value'])
    if k == 'FloatingLiteral':
        try:
            return float(n['value'])
        except ValueError:
            return None
    if k == 'StringLiteral':
        return decode_string_literal(n.get('value'))
    if k == 'CXXBoolLiteralExpr':
        return bool(n.get('value'))
    if k == 'CharacterLiteral':
        return n.get('value')
    if k == 'UnaryOperator' and n.get('opcode') == '-':
        v = literal_value(children(n)[0])
        if isinstance(v, (int, float)):
            return -v
    if k == 'CXXConstructExpr' or k == 'InitListExpr':
        c = [x for x in children(n) if x.get('kind') != 'CXXDefaultArgExpr']
        if len(c) == 1:
            return literal_value(c[0])
    return None


def decode_string_literal(v):
    """clang prints the literal re-escaped inside quotes."""
    if v is None:
        return None
    if len(v) >= 2 and v[0] == '"' and v[-1] == '"':
        v = v[1:-1]
    out = []
    i = 0
    n = len(v)
    while i < n:
        c = v[i]
        if c == '\\' and i + 1 < n:
            d = v[i + 1]
            i += 2
            if d == 'n':
                out.append('\n')
            elif d == 't':
                out.append('\t')
            elif d == 'r':
                out.append('\r')
            elif d == '0' and not (i < n and v[i].isdigit()):
                out.append('\0')
            elif d in '01234567':
                j = i
                s = d
                while j < n and len(s) < 3 and v[j] in '01234567':
                    s += v[j]
                    j += 1
                i = j
                out.append(chr(int(s, 8)))
            elif d == 'x':
                j = i
                s = ''
                while j < n and v[j] in '0123456789abcdefABCDEF':
                    s += v[j]
                    j += 1
                i = j
                out.append(chr(int(s, 16)))
            else:
                out.append(d)
        else:
            out.append(c)
            i += 1
    return ''.join(out)


_PROGRAMS = {}


def load(repo=None):
    repo = repo or frontend.REPO
    key = (repo, frontend.source_key(repo))
    if key not in _PROGRAMS:
        _PROGRAMS[key] = Program(repo)
    return _PROGRAMS[key]


_SINGLE_LOCALS = {}


def single_assignment_locals(func_node):
    """id -> initialiser of the locals of a function that are initialised at their declaration and never
    assigned afterwards (named flags, aliases of sub-expressions)."""
    key = id(func_node)
    if key not in _SINGLE_LOCALS:
        inits, assigned = {}, set()
        for x in walk(func_node):
            k = x.get('kind')
            if k == 'VarDecl' and 'id' in x:
                c = [y for y in children(x) if not y['kind'].endswith('Attr') and not y['kind'].endswith('Comment')]
                if c:
                    inits[x['id']] = c[-1]
            elif k in ('BinaryOperator', 'CompoundAssignOperator') and (x.get('opcode') or '').endswith('=') \
                    and x.get('opcode') not in ('==', '!=', '<=', '>='):
                l = strip(children(x)[0])
                if l.get('kind') == 'DeclRefExpr':
                    assigned.add((l.get('referencedDecl') or {}).get('id'))
            elif k == 'UnaryOperator' and x.get('opcode') in ('++', '--'):
                l = strip(children(x)[0])
                if l.get('kind') == 'DeclRefExpr':
                    assigned.add((l.get('referencedDecl') or {}).get('id'))
            elif k == 'CXXOperatorCallExpr':
                c = children(x)
                nm = (strip(c[0]).get('referencedDecl') or {}).get('name') if c else None
                if nm in ('operator=', 'operator+=', 'operator-=', 'operator++', 'operator--') and len(c) > 1:
                    l = strip(c[1])
                    if l.get('kind') == 'DeclRefExpr':
                        assigned.add((l.get('referencedDecl') or {}).get('id'))
        _SINGLE_LOCALS[key] = {k: v for k, v in inits.items() if k not in assigned}
    return _SINGLE_LOCALS[key]


def walk_expanded(node, func_node, depth=4):
    """walk(node), following references to single-assignment locals of the function into their initialisers:
    a condition written through a named flag is seen as the condition itself."""
    loc = single_assignment_locals(func_node)
    seen = set()

    def rec(n, d):
        for x in walk(n):
            yield x
            if d > 0 and x.get('kind') == 'DeclRefExpr':
                i = (x.get('referencedDecl') or {}).get('id')
                if i in loc and i not in seen:
                    seen.add(i)
                    for y in rec(loc[i], d - 1):
                        yield y
    return rec(node, depth)
