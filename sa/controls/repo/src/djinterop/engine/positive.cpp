// Positive controls for rules whose expected number of reports on the library is zero.
// Each function below violates exactly the rule named in its comment; the rule functions of
// sa/rules/extra.py are run on this unit on every check run and must report each of them -
// a rule that matches nothing here has lost its ability to see the construct (analysis broken).
// This file is never compiled into anything and is not part of /repo.
#include <cstddef>
#include <cstdint>
#include <cstdlib>
#include <ctime>
#include <string>
#include <vector>
#include <zlib.h>

namespace djinterop::engine
{
// pointers_fresh: `p` is taken from `v`, `v` may be reallocated, `p` is used again.
int control_stale_pointer(std::vector<int>& v)
{
    int* p = v.data();
    v.push_back(1);
    return *p;
}

// pointers_fresh: the same through a member of a local struct handed to a call.
struct control_stream
{
    unsigned char* next_out;
    unsigned avail_out;
};
int control_consume(control_stream* s);
int control_stale_member(std::vector<unsigned char>& out)
{
    control_stream strm;
    strm.next_out = out.data();
    strm.avail_out = static_cast<unsigned>(out.size());
    int r = 0;
    for (;;)
    {
        r = control_consume(&strm);
        if (r != 0)
            break;
        out.resize(out.size() + 16);
        strm.avail_out = 16;
    }
    return r;
}

// environment_independent: the result depends on the time zone of the process.
std::time_t control_local_time(std::tm t) { return std::mktime(&t); }
double control_locale_number(const char* s) { return std::strtod(s, nullptr); }

// bytes_read_unsigned: a length byte read through a plain char pointer and widened.
std::ptrdiff_t control_signed_length(const std::byte* ptr)
{
    const auto* chars = reinterpret_cast<const char*>(ptr);
    const std::ptrdiff_t length = chars[0];
    return length;
}

// inflated_length_is_result_length: the result is sized from the announced length only.
std::vector<unsigned char> control_prefix_sized(const std::vector<unsigned char>& in, int announced)
{
    std::vector<unsigned char> out;
    out.resize(announced);
    z_stream strm{};
    inflateInit(&strm);
    strm.next_in = const_cast<Bytef*>(in.data());
    strm.avail_in = static_cast<uInt>(in.size());
    strm.next_out = out.data();
    strm.avail_out = static_cast<uInt>(out.size());
    int ret = inflate(&strm, Z_FINISH);
    inflateEnd(&strm);
    if (ret != Z_STREAM_END)
        throw 1;
    return out;
}
}  // namespace djinterop::engine
