"""SQL / file-system effects of functions, direct and transitive.

An effect is (cls, table, site) with cls in
  read    SELECT, PRAGMA table_info / index_list / index_info / ... (no '=')
  write   INSERT / REPLACE / UPDATE / DELETE             (table = target)
  ddl     CREATE / DROP / ALTER / VACUUM ...
  pragma  PRAGMA assigning a value
  txn     BEGIN / COMMIT / ROLLBACK / SAVEPOINT
  attach  ATTACH (connection effect)
  dynsql  statement text not known statically (treated as any write)
  fs      directory creation / stream opened for writing
"""
from . import sites as sites_mod, sql
from .frontend import AnalysisBroken
from .program import children, strip, walk, locstr

HOLE = 'hole__'


def site_sql_text(site):
    """SQL text with every hole replaced by an identifier placeholder."""
    return ''.join(p if isinstance(p, str) else (HOLE + str(p.desc))
                   for p in site.sql_parts)


def parse_site(site):
    """Parsed statement for a site, or None when the whole text is dynamic."""
    if len(site.sql_parts) == 1 and not isinstance(site.sql_parts[0], str):
        return None
    try:
        st = sql.parse(site_sql_text(site))
    except sql.SqlError as e:
        raise AnalysisBroken('cannot read SQL at %s: %s' % (locstr(site.node), e))
    return st


def classify(st):
    if st is None:
        return 'dynsql'
    k = st.kind
    if k == 'select':
        return 'read'
    if k in ('insert', 'update', 'delete'):
        return 'write'
    if k == 'pragma':
        return 'read' if sql.pragma_is_read(st) else 'pragma'
    if k in ('begin', 'commit', 'rollback', 'savepoint'):
        return 'txn'
    if k == 'attach':
        return 'attach'
    if k == 'detach':
        return 'attach'
    return 'ddl'


class Effect:
    __slots__ = ('cls', 'table', 'site', 'stmt', 'func', 'what')

    def __init__(self, cls, table, site, stmt, func, what=None):
        self.cls = cls
        self.table = table
        self.site = site
        self.stmt = stmt
        self.func = func
        self.what = what

    @property
    def loc(self):
        return locstr(self.site.node) if self.site is not None else self.what

    def __repr__(self):
        return '<%s %s %s>' % (self.cls, self.table, self.loc)


FS_WRITE_CALLS = {'mkdir', '_mkdir', 'remove', 'rename', 'create_directory',
                  'create_directories', 'remove_all', 'copy_file', 'fopen',
                  'unlink', 'rmdir', 'resize_file'}
FS_WRITE_TYPES = ('basic_ofstream', 'basic_fstream', 'std::ofstream', 'std::fstream')


class Effects:
    def __init__(self, prog, cg):
        self.prog = prog
        self.cg = cg
        self._direct = {}
        self._sites = {}

    # ---- statements whose leading text is a parameter of the executing function ------------------
    # (`void populate(db, const std::string& pragma, table) { db << pragma + "('" + table + "')" ... }`, the
    # shared body of two constructors): read with the argument of every call in place of the parameter; all
    # callers must agree on the kind of statement, otherwise it is dynamic SQL (any write)
    def _callers_of(self, func):
        if getattr(self, '_callers', None) is None:
            self._callers = {}
            for g in self.prog.functions.values():
                if g.is_pattern or g.body is None or not self.prog.in_repo(g.file):
                    continue
                for ed in self.cg.edges(g):
                    if ed.node.get('kind') in ('CallExpr', 'CXXMemberCallExpr'):
                        for t in ed.targets:
                            self._callers.setdefault(t.key, []).append((g, ed.node))
        return self._callers.get(func.key, [])

    def _head_variants(self, func, parts, depth=0):
        head = parts[0]
        if isinstance(head, str):
            return [parts]
        ref = strip(head.node, explicit=True).get('referencedDecl') or {}
        names = [p_.get('id') for p_ in func.params]
        if ref.get('kind') != 'ParmVarDecl' or ref.get('id') not in names or depth > 3:
            return None
        i = names.index(ref.get('id'))
        out = []
        cs = self._callers_of(func)
        if not cs:
            return None
        for g, c in cs:
            args = children(c)[1:]
            if i >= len(args):
                return None
            ap = sites_mod._merge(sites_mod.sql_parts(args[i], sites_mod._string_locals(g)))
            vs = self._head_variants(g, ap + list(parts[1:]), depth + 1)
            if vs is None:
                return None
            out.extend(vs)
        return out

    def sites(self, func):
        s = self._sites.get(func.key)
        if s is None:
            s = sites_mod.find_sites(func)
            for x in s:
                ps = x.sql_parts
                if len(ps) > 1 and not isinstance(ps[0], str):
                    vs = self._head_variants(func, list(ps))
                    if vs:
                        sts = []
                        for v in vs:
                            c = sites_mod.Site()
                            c.node, c.sql_parts = x.node, sites_mod._merge(v)
                            sts.append(parse_site(c))
                        kinds = {(classify(t), getattr(t, 'kind', None)) for t in sts}
                        x.stored_in = sts[0] if len(kinds) == 1 else None
                        continue
                x.stored_in = parse_site(x)
            self._sites[func.key] = s
        return s

    def direct(self, func):
        d = self._direct.get(func.key)
        if d is not None:
            return d
        d = []
        for s in self.sites(func):
            st = s.stored_in
            d.append(Effect(classify(st), getattr(st, 'table', None) or
                            getattr(st, 'name', None), s, st, func))
        for e in self.cg.edges(func):
            if e.kind == 'external' and e.name in FS_WRITE_CALLS:
                d.append(Effect('fs', e.name, None, None, func,
                                '%s at %s' % (e.name, locstr(e.node))))
        for n in walk(func.node):
            if n.get('kind') == 'VarDecl':
                t = (n.get('dtype') or n.get('type') or '')
                if any(x in t for x in FS_WRITE_TYPES):
                    d.append(Effect('fs', 'ofstream', None, None, func,
                                    'stream %s at %s' % (n.get('name'), locstr(n))))
        self._direct[func.key] = d
        return d

    def transitive(self, roots, stop=None):
        """(effects, reach) for everything reachable from roots."""
        reach = self.cg.reachable(roots, stop)
        out = []
        for key, (f, _, _) in reach.items():
            if f.is_pattern:
                continue
            out.extend(self.direct(f))
        return out, reach


def public_methods(prog, cls):
    """[(decl node, name)] of the public member functions declared in cls
    (access tracked through AccessSpecDecl; struct default public)."""
    r = prog.records.get(cls)
    if r is None:
        raise AnalysisBroken('class %s not found' % cls)
    acc = 'public' if r.tag == 'struct' else 'private'
    out = []
    for c in children(r.node):
        k = c.get('kind')
        if k == 'AccessSpecDecl':
            acc = c.get('access', acc)
            continue
        if k == 'FunctionTemplateDecl':
            cands = [x for x in children(c) if x.get('kind') == 'CXXMethodDecl'][:1]
        elif k in ('CXXMethodDecl',):
            cands = [c]
        else:
            continue
        for m in cands:
            if m.get('isImplicit'):
                continue
            a = m.get('access') or acc
            if acc == 'public':
                out.append(m)
    return out
