"""Finite evaluation of structured C++ function bodies.

Evaluates a function body for given concrete values of selected inputs
(integers, booleans, enumerators, strings as part lists) and reports every
outcome reachable: ('return', value) / ('throw', exception type).  Conditions
that depend on anything not supplied are explored both ways.  This is not
symbolic execution: there is no solver and no path constraint, only a finite
enumeration of supplied values over the structured AST (switch / if / ?: /
return / throw), as described in DESIGN.md section 3.3 ("finite enumerations").
"""
from .frontend import AnalysisBroken
from .program import children, strip, decode_string_literal, locstr, walk


class _Unknown:
    def __repr__(self):
        return 'UNKNOWN'


UNKNOWN = _Unknown()


class Enum:
    __slots__ = ('name', 'value')

    def __init__(self, name, value):
        self.name = name
        self.value = value

    def __eq__(self, o):
        return isinstance(o, Enum) and o.name == self.name

    def __hash__(self):
        return hash(self.name)

    def __repr__(self):
        return 'enum:%s' % self.name


class Choice:
    """Value of `c ? a : b` with undecidable c."""
    __slots__ = ('cond', 'a', 'b')

    def __init__(self, cond, a, b):
        self.cond, self.a, self.b = cond, a, b

    def __repr__(self):
        return 'choice(%r ? %r : %r)' % (self.cond, self.a, self.b)


class Lin:
    """A symbolic integer / address: sum of coef * symbol plus a constant (`data(v) + size(v) - 4`).  Sums,
    differences and products with an integer stay exact; a comparison is decided when the difference of its
    sides is a constant and is UNKNOWN otherwise.  A value without symbols is a plain int (see `make`)."""
    __slots__ = ('terms', 'const')

    def __init__(self, terms, const=0):
        self.terms = {k: v for k, v in terms.items() if v}
        self.const = const

    @staticmethod
    def sym(name):
        return Lin({name: 1})

    @staticmethod
    def make(terms, const):
        terms = {k: v for k, v in terms.items() if v}
        return Lin(terms, const) if terms else const

    @staticmethod
    def lift(v):
        if isinstance(v, Lin):
            return v
        if isinstance(v, Enum):
            v = v.value
        if isinstance(v, bool) or not isinstance(v, int):
            return None
        return Lin({}, v)

    @staticmethod
    def op(op, a, b):
        a, b = Lin.lift(a), Lin.lift(b)
        if a is None or b is None:
            return UNKNOWN
        if op in ('+', '-'):
            sg = 1 if op == '+' else -1
            t = dict(a.terms)
            for k, v in b.terms.items():
                t[k] = t.get(k, 0) + sg * v
            return Lin.make(t, a.const + sg * b.const)
        if op == '*':
            if a.terms and b.terms:
                return UNKNOWN
            if a.terms:
                a, b = b, a
            return Lin.make({k: v * a.const for k, v in b.terms.items()}, a.const * b.const)
        if op in ('==', '!=', '<', '>', '<=', '>='):
            d = Lin.op('-', a, b)
            if isinstance(d, Lin):
                return UNKNOWN
            return {'==': d == 0, '!=': d != 0, '<': d < 0, '>': d > 0, '<=': d <= 0, '>=': d >= 0}[op]
        return UNKNOWN

    def __eq__(self, o):
        return isinstance(o, Lin) and o.terms == self.terms and o.const == self.const

    def __hash__(self):
        return hash((tuple(sorted(self.terms.items())), self.const))

    def __repr__(self):
        parts = ['%s%s' % ('' if v == 1 else ('-' if v == -1 else '%d*' % v), k) for k, v in sorted(self.terms.items())]
        if self.const or not parts:
            parts.append(str(self.const))
        return ' + '.join(parts).replace('+ -', '- ')


def undecided(v):
    """Is v a value on which a branch cannot be decided (unknown, a two-valued choice, or symbolic)?"""
    return v is UNKNOWN or isinstance(v, (Choice, Lin))


class Outcome:
    __slots__ = ('kind', 'value', 'at', 'trace', 'func')

    def __init__(self, kind, value=None, at=None, trace=(), func=None):
        self.kind = kind
        self.value = value
        self.at = at
        self.trace = trace
        self.func = func        # the Function whose statement produced it (set for inlined tail calls)

    def __repr__(self):
        return '%s(%r)@%s' % (self.kind, self.value, self.at)


class Evaluator:
    def __init__(self, prog, func, call_hook=None, max_paths=20000, unknown_loops_ok=False):
        self.prog = prog
        self.func = func
        self.tu = func.tu
        self.call_hook = call_hook
        self.max_paths = max_paths
        self.paths = 0
        self.unsupported = []

    # ---- expressions ------------------------------------------------------
    def ev(self, n, env):
        n = strip(n)
        k = n.get('kind')
        if k == 'IntegerLiteral':
            return int(n['value'])
        if k == 'CXXBoolLiteralExpr':
            return bool(n.get('value'))
        if k == 'StringLiteral':
            return (decode_string_literal(n.get('value')),)
        if k == 'CharacterLiteral':
            return int(n.get('value'))
        if k in ('CXXStaticCastExpr', 'CStyleCastExpr', 'CXXFunctionalCastExpr'):
            c = children(n)
            return self.ev(c[-1], env) if c else UNKNOWN
        if k == 'DeclRefExpr':
            ref = n.get('referencedDecl') or {}
            if ref.get('kind') == 'EnumConstantDecl':
                d = self.tu.ids.get(ref.get('id'))
                val = None
                if d is not None:
                    qn = self.tu.qn.get(ref['id'])
                    if qn:
                        en = qn.rsplit('::', 1)[0]
                        val = self.prog.enums.get(en, {}).get(ref.get('name'))
                return Enum(ref.get('name'), val)
            if ref.get('id') in env:
                return env[ref['id']]
            qn = self.tu.qn.get(ref.get('id'))
            if qn in self.prog.consts:
                v = self.prog.consts[qn]
                return (v,) if isinstance(v, str) else v
            # a constant of the repository (`constexpr engine_schema latest_v2_schema = engine_schema::x;`)
            d = self.tu.ids.get(ref.get('id'))
            if d is not None and d.get('kind') == 'VarDecl' and (d.get('constexpr') or 'const' in (d.get('type') or '')) \
                    and getattr(self, '_const_depth', 0) < 4:
                init = [x for x in children(d) if not x['kind'].endswith('Attr') and not x['kind'].endswith('Comment')]
                if init:
                    self._const_depth = getattr(self, '_const_depth', 0) + 1
                    try:
                        return self.ev(init[-1], {})
                    finally:
                        self._const_depth -= 1
            return UNKNOWN
        if k == 'MemberExpr':
            c = children(n)
            if c:
                b = strip(c[0])
                if b.get('kind') == 'CXXOperatorCallExpr' and len(children(b)) == 2 and \
                        (strip(children(b)[0]).get('referencedDecl') or {}).get('name') in ('operator->', 'operator*'):
                    b = strip(children(b)[1])       # p->m on a smart pointer: the member of what p names
                if b.get('kind') == 'DeclRefExpr':
                    key = ('member', (b.get('referencedDecl') or {}).get('id'), n.get('name'))
                    if key in env:
                        return env[key]
                if b.get('kind') == 'CXXThisExpr':
                    key = ('this', n.get('name'))
                    if key in env:
                        return env[key]
                # nested: a.b.c
                bv = self.ev(b, env) if b.get('kind') == 'MemberExpr' else None
                if isinstance(bv, dict) and n.get('name') in bv:
                    return bv[n.get('name')]
            return UNKNOWN
        if k == 'UnaryOperator':
            v = self.ev(children(n)[0], env)
            op = n.get('opcode')
            if undecided(v):
                return UNKNOWN
            if op == '!':
                return not self.truth(v)
            if op == '-' and isinstance(v, int):
                return -v
            if op == '+':
                return v
            return UNKNOWN
        if k == 'BinaryOperator':
            op = n.get('opcode')
            c = children(n)
            if op == '&&':
                a = self.ev(c[0], env)
                if not undecided(a) and not self.truth(a):
                    return False
                b = self.ev(c[1], env)
                if not undecided(b) and not self.truth(b):
                    return False
                if undecided(a) or undecided(b):
                    return UNKNOWN
                return True
            if op == '||':
                a = self.ev(c[0], env)
                if not undecided(a) and self.truth(a):
                    return True
                b = self.ev(c[1], env)
                if not undecided(b) and self.truth(b):
                    return True
                if undecided(a) or undecided(b):
                    return UNKNOWN
                return False
            a = self.ev(c[0], env)
            b = self.ev(c[1], env)
            return self.binop(op, a, b)
        if k == 'ConditionalOperator':
            c = children(n)
            cv = self.ev(c[0], env)
            if undecided(cv):
                return Choice(self.describe(c[0]), self.ev(c[1], env), self.ev(c[2], env))
            return self.ev(c[1], env) if self.truth(cv) else self.ev(c[2], env)
        if k == 'CXXOperatorCallExpr':
            c = children(n)
            callee = strip(c[0])
            opn = (callee.get('referencedDecl') or {}).get('name', '')
            if opn == 'operator+' and len(c) == 3:
                a = self.ev(c[1], env)
                b = self.ev(c[2], env)
                if isinstance(a, tuple) and isinstance(b, tuple):
                    return _cat(a + b)
                return UNKNOWN
            if opn in ('operator==', 'operator!=', 'operator<', 'operator>', 'operator<=', 'operator>=') and len(c) == 3:
                a = self.ev(c[1], env)
                b = self.ev(c[2], env)
                return self.binop(opn[len('operator'):], a, b)
            return self.call(n, env)
        if k in ('CallExpr', 'CXXMemberCallExpr'):
            return self.call(n, env)
        if k in ('CXXConstructExpr', 'CXXTemporaryObjectExpr', 'InitListExpr'):
            c = [x for x in children(n) if x.get('kind') != 'CXXDefaultArgExpr']
            t = (n.get('type') or '')
            if len(c) == 1 and ('basic_string' in t or 'std::string' in t or 'string_view' in t
                                or t.startswith('const std::string')):
                return self.ev(c[0], env)
            if len(c) == 1 and strip(c[0]).get('type') == n.get('type'):
                return self.ev(c[0], env)   # copy / move
            return UNKNOWN
        return UNKNOWN

    def binop(self, op, a, b):
        if a is UNKNOWN or b is UNKNOWN or isinstance(a, Choice) or isinstance(b, Choice):
            return UNKNOWN
        if isinstance(a, Lin) or isinstance(b, Lin):
            return Lin.op(op, a, b)
        av = a.value if isinstance(a, Enum) else a
        bv = b.value if isinstance(b, Enum) else b
        if av is None or bv is None:
            if op in ('==', '!=') and isinstance(a, Enum) and isinstance(b, Enum):
                return (a.name == b.name) == (op == '==')
            return UNKNOWN
        if isinstance(av, tuple) or isinstance(bv, tuple):
            if isinstance(av, tuple) and isinstance(bv, tuple) and op in ('==', '!='):
                if all(isinstance(x, str) for x in av + bv):
                    return (''.join(av) == ''.join(bv)) == (op == '==')
            return UNKNOWN
        try:
            if op == '==':
                return av == bv
            if op == '!=':
                return av != bv
            if op == '<':
                return av < bv
            if op == '>':
                return av > bv
            if op == '<=':
                return av <= bv
            if op == '>=':
                return av >= bv
            if op == '+':
                return av + bv
            if op == '-':
                return av - bv
            if op == '*':
                return av * bv
        except TypeError:
            return UNKNOWN
        return UNKNOWN

    def truth(self, v):
        if isinstance(v, Enum):
            return bool(v.value)
        return bool(v)

    def describe(self, n):
        n = strip(n)
        ref = n.get('referencedDecl') or {}
        return ref.get('name') or n.get('name') or '%s@%s' % (n.get('kind'), locstr(n))

    def call(self, n, env):
        d, qn, virt, recv = self.prog.resolve_callee(self.tu, n)
        c = children(n)
        args = c[1:]
        if self.call_hook is not None:
            r = self.call_hook(self, qn, args, env, n)
            if r is not NotImplemented:
                return r
        return self.inline_pure(qn, args, env)

    def inline_pure(self, qn, args, env):
        """A repository function whose body is a single `return <expr>;` is evaluated in place
        (path helpers, small predicates); anything else is UNKNOWN."""
        depth = getattr(self, '_inline_depth', 0)
        if not qn or depth >= 4:
            return UNKNOWN
        gs = [g for g in self.prog.by_name(qn) if g.body is not None and not g.is_pattern]
        if len(gs) != 1 or len(gs[0].params) != len(args):
            return UNKNOWN
        body = [x for x in children(gs[0].body) if not x.get('kind', '').endswith('Comment')]
        if len(body) != 1 or body[0].get('kind') != 'ReturnStmt' or not children(body[0]):
            return UNKNOWN
        sub = Evaluator(self.prog, gs[0], self.call_hook)
        sub._inline_depth = depth + 1
        env2 = {p['id']: self.ev(a, env) for p, a in zip(gs[0].params, args)}
        return sub.ev(children(body[0])[0], env2)

    # ---- statements ---------------------------------------------------------
    def run(self, env):
        """-> list of Outcome for the whole function body."""
        outs = []
        for st, e in self.exec(self.func.body, dict(env), ()):
            if st is None:
                outs.append(Outcome('fall', None, locstr(self.func.node)))
            else:
                outs.append(st)
        return outs

    def _bump(self):
        self.paths += 1
        if self.paths > self.max_paths:
            raise AnalysisBroken('path limit exceeded evaluating ' + self.func.qualname)

    def exec(self, n, env, trace):
        """Generator of (status, env); status None = normal completion,
        otherwise an Outcome (return / throw / break / continue)."""
        k = n.get('kind')
        if k == 'CompoundStmt':
            states = [(None, env)]
            for st in children(n):
                nxt = []
                for s, e in states:
                    if s is not None:
                        nxt.append((s, e))
                        continue
                    nxt.extend(self.exec(st, e, trace))
                states = nxt
            for x in states:
                yield x
            return
        if k == 'IfStmt':
            c = children(n)
            # [init?] [condvar?] cond then [else]
            cond = c[0]
            rest = c[1:]
            if n.get('hasInit') or n.get('hasVar'):
                # not used by the anchors; treat init as a statement
                for s, e in self.exec(c[0], env, trace):
                    if s is not None:
                        yield s, e
                        continue
                    sub = dict(n)
                    sub = {'kind': 'IfStmt', 'inner': c[1:], 'loc': n.get('loc')}
                    for x in self.exec(sub, e, trace):
                        yield x
                return
            cv = self.ev(cond, env)
            then = rest[0] if rest else None
            els = rest[1] if len(rest) > 1 else None
            branches = []
            if undecided(cv):
                branches = [(True, then), (False, els)]
            elif self.truth(cv):
                branches = [(True, then)]
            else:
                branches = [(False, els)]
            for taken, b in branches:
                self._bump()
                tr = trace + (('if', locstr(n), taken),)
                e2 = dict(env) if len(branches) > 1 else env
                if b is None:
                    yield None, e2
                else:
                    for x in self.exec(b, e2, tr):
                        yield x
            return
        if k == 'SwitchStmt':
            c = children(n)
            cond = c[0]
            body = c[-1]
            cv = self.ev(cond, env)
            items = children(body) if body.get('kind') == 'CompoundStmt' else [body]
            # flatten labels: list of (labels, stmt)
            flat = []
            for st in items:
                labels = []
                x = st
                while x.get('kind') in ('CaseStmt', 'DefaultStmt'):
                    cc = children(x)
                    if x['kind'] == 'CaseStmt':
                        labels.append(self.ev(cc[0], env))
                        x = cc[-1]
                    else:
                        labels.append('default')
                        x = cc[-1]
                flat.append((labels, x))
            entries = []
            if undecided(cv):
                entries = [i for i, (l, _) in enumerate(flat) if l]
                entries.append(None)  # no label matches and no default
            else:
                hit = None
                dflt = None
                for i, (labels, _) in enumerate(flat):
                    for l in labels:
                        if l == 'default':
                            dflt = i
                        elif self.binop('==', l, cv) is True:
                            hit = i
                entries = [hit if hit is not None else dflt]
            for ent in entries:
                self._bump()
                if ent is None:
                    if any('default' in l for l, _ in flat) and (undecided(cv)):
                        continue
                    yield None, env
                    continue
                states = [(None, dict(env))]
                for labels, st in flat[ent:]:
                    nxt = []
                    for s, e in states:
                        if s is not None:
                            nxt.append((s, e))
                        else:
                            nxt.extend(self.exec(st, e, trace + (('case', locstr(st)),)))
                    states = nxt
                    if all(s is not None for s, _ in states):
                        break
                for s, e in states:
                    if s is not None and s.kind == 'break':
                        yield None, e
                    else:
                        yield s, e
            return
        if k == 'ReturnStmt':
            c = children(n)
            tail = self.tail_call(c[0], env, trace) if c else None
            if tail is not None:
                for x in tail:
                    yield x
                return
            v = self.ev(c[0], env) if c else None
            yield Outcome('return', v, locstr(n), trace), env
            return
        if k == 'BreakStmt':
            yield Outcome('break', None, locstr(n), trace), env
            return
        if k == 'ContinueStmt':
            yield Outcome('continue', None, locstr(n), trace), env
            return
        if k == 'DeclStmt':
            for d in children(n):
                if d.get('kind') == 'VarDecl':
                    init = [x for x in children(d) if not x['kind'].endswith('Attr')]
                    dflt = init and strip(init[-1]).get('kind') == 'CXXConstructExpr' and \
                        not [x for x in children(strip(init[-1])) if x.get('kind') != 'CXXDefaultArgExpr']
                    if init and dflt and d['id'] in env:
                        pass        # `std::string s;` that the caller preset (a sink target): keep the value
                    elif init:
                        th = self.find_throw(init[-1])
                        env[d['id']] = self.ev(init[-1], env)
                        # aggregate initialisation `T v{a, b, c};`: remember the members
                        ini = strip(init[-1])
                        while ini.get('kind') in ('ExprWithCleanups', 'CXXConstructExpr', 'MaterializeTemporaryExpr') \
                                and len(children(ini)) == 1 and strip(children(ini)[0]).get('kind') == 'InitListExpr':
                            ini = strip(children(ini)[0])
                        if ini.get('kind') == 'InitListExpr':
                            from .program import norm_type_name
                            rec = self.prog.records.get(norm_type_name(d.get('type') or ''))
                            args = children(ini)
                            if rec is not None and rec.fields and len(args) == len(rec.fields):
                                for fd, a in zip(rec.fields, args):
                                    env[('member', d['id'], fd.get('name'))] = self.ev(a, env)
                    else:
                        env.setdefault(d['id'], UNKNOWN)     # keeps a value the caller preset (sink targets)
            yield None, env
            return
        if k in ('NullStmt',):
            yield None, env
            return
        if k == 'CXXTryStmt':
            c = children(n)
            handlers = [x for x in c[1:] if x.get('kind') == 'CXXCatchStmt']
            for s, e in self.exec(c[0], env, trace):
                if s is not None and s.kind == 'throw':
                    caught = False
                    for h in handlers:
                        hc = children(h)
                        var = hc[0] if hc and hc[0].get('kind') == 'VarDecl' else None
                        htype = (var.get('type') if var else None)
                        if self.catches(htype, s.value):
                            caught = True
                            for x in self.exec(hc[-1], dict(e), trace + (('catch', htype),)):
                                yield x
                            break
                    if not caught:
                        yield s, e
                else:
                    yield s, e
            return
        if k in ('ForStmt', 'WhileStmt', 'DoStmt', 'CXXForRangeStmt'):
            # loops: body may or may not execute; outcomes inside are explored
            # once with unknown loop state
            self.unsupported.append('loop at ' + locstr(n))
            body = children(n)[-1]
            yield None, env
            for s, e in self.exec(body, dict(env), trace + (('loop', locstr(n)),)):
                if s is not None and s.kind in ('return', 'throw'):
                    yield s, e
            return
        # expression statements
        th = self.find_throw(n)
        if th is not None and strip(n) is th:
            yield Outcome('throw', self.throw_type(th), locstr(th), trace), env
            return
        if k == 'ExprWithCleanups' or k.endswith('Expr') or k.endswith('Operator'):
            x = strip(n)
            if x.get('kind') == 'CXXThrowExpr':
                yield Outcome('throw', self.throw_type(x), locstr(x), trace), env
                return
            # assignment to a tracked local
            if x.get('kind') == 'BinaryOperator' and x.get('opcode') == '=':
                c = children(x)
                l = strip(c[0])
                if l.get('kind') == 'DeclRefExpr':
                    env[(l.get('referencedDecl') or {}).get('id')] = self.ev(c[1], env)
            elif x.get('kind') in ('CallExpr', 'CXXMemberCallExpr', 'CXXOperatorCallExpr'):
                r = self.local_lambda_stmt(x, env, trace)
                if r is None:
                    r = self.call_stmt(x, env, trace)
                if r is not None:
                    for y in r:
                        yield y
                    return
            yield None, env
            return
        self.unsupported.append('%s at %s' % (k, locstr(n)))
        yield None, env

    def local_lambda_stmt(self, x, env, trace):
        """`check(v, 0);` where check is a local variable initialised with a lambda expression (a macro turned
        into a lambda): the lambda body is executed in place with the arguments bound; its throws are the
        caller's.  None when x is not such a call."""
        if x.get('kind') != 'CXXOperatorCallExpr':
            return None
        c = children(x)
        if len(c) < 2 or (strip(c[0]).get('referencedDecl') or {}).get('name') != 'operator()':
            return None
        obj = strip(c[1])
        if obj.get('kind') != 'DeclRefExpr':
            return None
        d = self.tu.ids.get((obj.get('referencedDecl') or {}).get('id'))
        if d is None or d.get('kind') != 'VarDecl':
            return None
        lam = None
        for y in walk(d):
            if y.get('kind') == 'LambdaExpr':
                lam = y
                break
        if lam is None:
            return None
        params, body = [], None
        for y in children(lam):
            if y.get('kind') == 'CXXRecordDecl':
                for m in children(y):
                    if m.get('kind') == 'CXXMethodDecl' and m.get('name') == 'operator()':
                        params = [p for p in children(m) if p.get('kind') == 'ParmVarDecl']
            elif y.get('kind') == 'CompoundStmt':
                body = y
        args = c[2:]
        if body is None or len(params) != len(args):
            return None
        env2 = dict(env)
        for p, a in zip(params, args):
            env2[p['id']] = self.ev(a, env)
            sa_ = strip(a)
            if sa_.get('kind') == 'DeclRefExpr':
                aid = (sa_.get('referencedDecl') or {}).get('id')
                for k_, v_ in list(env.items()):
                    if isinstance(k_, tuple) and len(k_) == 3 and k_[0] == 'member' and k_[1] == aid:
                        env2[('member', p['id'], k_[2])] = v_
        out = []
        seen_normal = False
        for st, e in self.exec(body, env2, trace + (('lambda', locstr(lam)),)):
            if st is not None and st.kind == 'throw':
                out.append((st, env))
            elif not seen_normal:
                seen_normal = True
                out.append((None, env))
        return out or None

    def tail_call(self, expr, env, trace):
        """`return helper(args);` where helper is a free function of the repository with a body of several
        statements (a branch of the caller moved into a function of its own): the helper's outcomes are the
        caller's.  None when the expression is not such a call (or a hook answers it)."""
        n = strip(expr)
        while n.get('kind') in ('MaterializeTemporaryExpr', 'CXXBindTemporaryExpr', 'ExprWithCleanups',
                                'CXXConstructExpr') and len(children(n)) == 1:
            n = strip(children(n)[0])
        if n.get('kind') != 'CallExpr':
            return None
        depth = getattr(self, '_inline_depth', 0)
        if depth >= 3:
            return None
        d, qn, virt, recv = self.prog.resolve_callee(self.tu, n)
        args = children(n)[1:]
        if not qn:
            return None
        if self.call_hook is not None:
            r = self.call_hook(self, qn, args, env, n)
            if r is not NotImplemented:
                return None
        gs = [g for g in self.prog.by_name(qn) if g.body is not None and not g.is_pattern and g.cls is None
              and self.prog.in_repo(g.file)]
        if len(gs) != 1 or len(gs[0].params) != len(args):
            return None
        g = gs[0]
        body = [x for x in children(g.body) if not x.get('kind', '').endswith('Comment')]
        if len(body) <= 1:
            return None         # single-return helpers are evaluated as values (inline_pure)
        sub = Evaluator(self.prog, g, self.call_hook, self.max_paths)
        sub._inline_depth = depth + 1
        env2 = {k_: v_ for k_, v_ in env.items() if isinstance(k_, tuple)}
        for p, a in zip(g.params, args):
            env2[p['id']] = self.ev(a, env)
        out = []
        for st, e in sub.exec(g.body, env2, trace + (('call', qn),)):
            if st is None:
                out.append((Outcome('return', None, locstr(g.node), trace, g), env))
            else:
                if st.func is None:
                    st.func = g
                out.append((st, env))
        self.unsupported.extend(sub.unsupported)
        return out

    def call_stmt(self, x, env, trace):
        """Hook for statement-level calls (e.g. to model callee outcomes)."""
        d, qn, virt, recv = self.prog.resolve_callee(self.tu, x)
        if self.call_hook is not None:
            r = self.call_hook(self, qn, children(x)[1:], env, x, stmt=True)
            if isinstance(r, list):
                return [(o, env) if isinstance(o, Outcome) else (None, env) for o in r]
        return self.inline_checker(qn, children(x)[1:], env, trace)

    def inline_checker(self, qn, args, env, trace):
        """A free repository function called for its effect only (`ensure_...(x);`) whose body, apart
        from throwing, has no effect on the caller's state - it takes its arguments by value or const
        reference and contains no call and no assignment to anything but its own locals: its throws are the
        caller's throws.  Evaluated in place with the arguments bound; anything else is left alone."""
        depth = getattr(self, '_inline_depth', 0)
        if not qn or depth >= 3:
            return None
        gs = [g for g in self.prog.by_name(qn) if g.body is not None and not g.is_pattern and g.cls is None
              and self.prog.in_repo(g.file)]
        if len(gs) != 1 or len(gs[0].params) != len(args):
            return None
        g = gs[0]
        if 'void' not in (g.ret or ''):
            return None
        for p in g.params:
            t = p.get('type') or ''
            if ('&' in t or '*' in t) and 'const' not in t:
                return None
        if not any(y.get('kind') == 'CXXThrowExpr' for y in walk(g.body)):
            return None
        for y in walk(g.body):
            if y.get('kind') in ('CallExpr', 'CXXMemberCallExpr') and not any(
                    z.get('kind') == 'CXXThrowExpr' for z in walk(y)):
                inner = (strip(children(y)[0]).get('referencedDecl') or {}).get('name') or strip(children(y)[0]).get('name')
                if inner not in ('has_value', 'empty', 'size', 'length', 'value', 'to_string'):
                    return None
        sub = Evaluator(self.prog, g, self.call_hook)
        sub._inline_depth = depth + 1
        env2 = {p['id']: self.ev(a, env) for p, a in zip(g.params, args)}
        outs = []
        for st, e in sub.exec(g.body, env2, trace):
            if st is not None and st.kind == 'throw':
                outs.append((st, env))
            else:
                outs.append((None, env))
        # collapse identical normal completions
        seen_normal = False
        res = []
        for st, e in outs:
            if st is None:
                if seen_normal:
                    continue
                seen_normal = True
            res.append((st, e))
        return res or None

    def find_throw(self, n):
        x = strip(n)
        if x.get('kind') == 'CXXThrowExpr':
            return x
        return None

    def throw_type(self, th):
        c = children(th)
        if not c:
            return '(rethrow)'
        t = strip(c[0]).get('type') or c[0].get('type') or '?'
        return t.replace('const ', '').strip()

    def catches(self, htype, thrown):
        if htype is None:
            return True   # catch (...)
        h = htype.replace('const ', '').replace('&', '').strip()
        t = (thrown or '').strip()
        if h == t or h.split('::')[-1] == t.split('::')[-1]:
            return True
        # base class match
        for q, r in self.prog.records.items():
            if q.split('::')[-1] == t.split('::')[-1]:
                bases = self.prog.all_bases(q)
                if any(b.split('::')[-1] == h.split('::')[-1] for b in bases):
                    return True
        return False


def _cat(parts):
    out = []
    for p in parts:
        if isinstance(p, str) and out and isinstance(out[-1], str):
            out[-1] += p
        else:
            out.append(p)
    return tuple(out)
