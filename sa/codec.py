"""Emission / consumption grammars of the blob codecs, read from the AST.

A grammar is a list of items
  ('prim', P, field)            P in uint8 int32_le int32_be int64_le int64_be double_le double_be
  ('bytes', length_src, field)  raw byte run
  ('repeat', count_src, [items])
  ('alt', cond, [items], [items])
  ('skip', n)
with framing 'z' (length prefix + deflate) or 'raw'.
Fields are access paths relative to the blob struct ('quick_cues[].color.a').
"""
import re

from .frontend import AnalysisBroken
from .program import children, strip, walk, locstr, literal_value

PRIMS = ('uint8', 'int32_le', 'int32_be', 'int64_le', 'int64_be', 'double_le', 'double_be')
WIDTH = {'uint8': 1, 'int32_le': 4, 'int32_be': 4, 'int64_le': 8, 'int64_be': 8,
         'double_le': 8, 'double_be': 8,
         # not a primitive of the format: one byte read in place as a signed number (-128..127), which is what a
         # decoder takes when it widens a (signed) char; it matches no layout item and no encoder item
         'int8': 1}
ENG = 'djinterop::engine::'

# std algorithms that write a run of bytes through an output cursor and return the advanced cursor
STD_FILL = ('fill_n',)
STD_COPY = ('transform', 'copy')
# std algorithms that read every element of [first, last) without storing any
STD_SCAN = ('any_of', 'all_of', 'none_of', 'find_if', 'find_if_not', 'find', 'count', 'count_if', 'for_each')


def is_cursor_type(t):
    """std::byte * / const std::byte * (possibly const-qualified itself): a position in a blob."""
    t = re.sub(r'\s*const$', '', (t or '').strip())
    return t.endswith('*') and 'byte' in t


def carries_cursor(t):
    """The type is a cursor or a pair / tuple one component of which is a cursor."""
    t = t or ''
    return is_cursor_type(t) or bool(re.search(r'byte \*\s*(const)?\s*[>,]', t))


# std functions that only put their arguments together (a value next to a cursor)
STD_PACK = ('make_pair', 'make_tuple', 'tie', 'forward_as_tuple')
# C library functions that copy a run of bytes: (destination, source, count)
C_COPY = ('memcpy', 'memmove')
# std containers that can be built from / assigned a range of bytes of a blob
RANGE_TYPES = re.compile(r'basic_string|\bstring\b|string_view|\bvector<')
# element types through which one byte of a blob is read as 0..255 / as a possibly negative number
U8_TYPES = ('std::byte', 'unsigned char', 'uint8_t', 'std::uint8_t', '__uint8_t', 'uint_least8_t')
S8_TYPES = ('char', 'signed char', 'int8_t', 'std::int8_t', '__int8_t')
_PTR_CASTS = ('CXXReinterpretCastExpr', 'CXXConstCastExpr')


def _bare(t):
    """Type name without cv-qualifiers."""
    return re.sub(r'\b(const|volatile)\b', '', t or '').strip()


def _through_casts(n):
    """n without the wrappers and casts (reinterpret_cast and const_cast included) around it."""
    while True:
        m = strip(n, explicit=True)
        if m.get('kind') in _PTR_CASTS and len(children(m)) == 1:
            n = children(m)[0]
            continue
        return m


def lin_add(a, b, k=1):
    """Linear forms {symbol: coefficient} ('' = constant term): a + k * b."""
    r = dict(a)
    for s_, c in b.items():
        r[s_] = r.get(s_, 0) + k * c
        if r[s_] == 0:
            del r[s_]
    return r


def lin_name(l):
    """The length source a linear form stands for: a constant, or one symbol; None for anything else."""
    if not l:
        return 'const:0'
    if set(l) == {''}:
        return 'const:%d' % l['']
    if len(l) == 1 and list(l.values()) == [1]:
        return next(iter(l))
    return None


def lin_show(l):
    return ' + '.join(('%d' % c if s_ == '' else (s_ if c == 1 else '%d*%s' % (c, s_)))
                      for s_, c in sorted(l.items())) or '0'


class RawFrame:
    """Accesses made directly through the cursor of one function (not through a primitive) that no advance
    of the cursor has covered yet."""

    def __init__(self):
        self.alias = {}      # decl id of a pointer local -> (id of the cursor it was taken from, offset, epoch)
        self.reads = []      # (cursor id, offset, width, item, location)
        self.epoch = 0       # number of times the cursor has moved


def _leaves_block(s):
    """The statement ends by leaving the enclosing block (continue / break / return)."""
    while s.get('kind') == 'CompoundStmt' and children(s):
        s = children(s)[-1]
    return s.get('kind') in ('ContinueStmt', 'BreakStmt', 'ReturnStmt')


class Grammar:
    def __init__(self, func, side):
        self.func = func
        self.side = side          # 'enc' / 'dec'
        self.items = []
        self.framing = None
        self.notes = []
        self.unknown = []
        self.alloc = None         # encoder: allocation size expression node
        self.locs = {}
        self.pending = []         # encoder: byte runs copied to the cursor that no advance has covered yet

    def flat(self):
        return flatten(self.items)


def flatten(items, prefix=''):
    out = []
    for it in items:
        if it[0] == 'repeat':
            out.append('%srepeat %s {' % (prefix, it[1]))
            out += flatten(it[2], prefix + '  ')
            out.append(prefix + '}')
        elif it[0] == 'alt':
            out.append('%salt %s {' % (prefix, it[1]))
            out += flatten(it[2], prefix + '  ')
            out.append(prefix + '} else {')
            out += flatten(it[3], prefix + '  ')
            out.append(prefix + '}')
        else:
            out.append(prefix + ' '.join(str(x) for x in it))
    return out


class Extractor:
    def __init__(self, prog):
        self.prog = prog

    # ---- naming -------------------------------------------------------------
    def resolve(self, n, env, tu):
        n = strip(n, explicit=True)
        k = n.get('kind')
        if k == 'MemberExpr':
            c = children(n)
            if not c:
                return n.get('name')
            b = strip(c[0], explicit=True)
            if b.get('kind') == 'CXXThisExpr':
                return n.get('name')
            base = self.resolve(b, env, tu)
            if base == '':
                return n.get('name')
            return '%s.%s' % (base, n.get('name'))
        if k == 'DeclRefExpr':
            ref = n.get('referencedDecl') or {}
            rid = ref.get('id')
            if rid in env:
                return env[rid]
            if ref.get('name') == 'ignore':
                return 'ignored'
            if ref.get('kind') == 'EnumConstantDecl':
                return 'const:%s' % ref.get('name')
            return 'local:%s%s' % (ref.get('name'), env.get('__tag', ''))
        if k == 'CXXThisExpr':
            return ''
        if k in ('IntegerLiteral', 'FloatingLiteral', 'CXXBoolLiteralExpr'):
            return 'const:%s' % n.get('value')
        if k == 'UnaryOperator':
            c = children(n)
            if n.get('opcode') == '-' and strip(c[0]).get('kind') in ('IntegerLiteral', 'FloatingLiteral'):
                return 'const:-%s' % strip(c[0]).get('value')
            if n.get('opcode') in ('*', '&'):
                return self.resolve(c[0], env, tu)
            return 'expr(%s%s)' % (n.get('opcode'), self.resolve(c[0], env, tu))
        if k == 'ArraySubscriptExpr':
            return self.resolve(children(n)[0], env, tu) + '[]'
        if k == 'CXXOperatorCallExpr':
            c = children(n)
            op = (strip(c[0]).get('referencedDecl') or {}).get('name', '')
            if op == 'operator[]':
                return self.resolve(c[1], env, tu) + '[]'
            if op in ('operator*', 'operator->'):
                return self.resolve(c[1], env, tu)
            return 'expr(%s)' % ','.join(self.resolve(x, env, tu) for x in c[1:])
        if k == 'CXXMemberCallExpr':
            callee = strip(children(n)[0])
            nm = callee.get('name')
            obj = children(callee)[0] if children(callee) else None
            if nm in ('size', 'length') and obj is not None:
                return 'size(%s)' % self.resolve(obj, env, tu)
            if nm in ('value_or', 'value') and obj is not None:
                return self.resolve(obj, env, tu)
            if nm == 'count' and obj is not None:
                return self.resolve(obj, env, tu)
            if nm == 'empty' and obj is not None:
                return 'call(empty %s)' % self.resolve(obj, env, tu)
            return 'call(%s)' % nm
        if k in ('CXXConstructExpr', 'CXXTemporaryObjectExpr', 'InitListExpr'):
            c = [x for x in children(n) if x.get('kind') != 'CXXDefaultArgExpr']
            if len(c) == 1:
                return self.resolve(c[0], env, tu)
            return 'ctor'
        if k == 'ConditionalOperator':
            c = children(n)
            return 'cond(%s?%s:%s)' % tuple(self.resolve(x, env, tu) for x in c)
        if k == 'BinaryOperator':
            c = children(n)
            return 'expr(%s%s%s)' % (self.resolve(c[0], env, tu), n.get('opcode'), self.resolve(c[1], env, tu))
        if k == 'CallExpr':
            d, nm = self.callee(n, tu)
            args = children(n)[1:]
            if nm in ('move', 'forward') and args:
                return self.resolve(args[0], env, tu)
            if nm in ('to_integer',) and args:
                return self.resolve(args[0], env, tu)
            return 'call(%s)' % nm
        return 'expr:%s' % k

    def callee(self, n, tu):
        c = children(n)
        callee = strip(c[0]) if c else {}
        ref = callee.get('referencedDecl') or {}
        if callee.get('kind') == 'MemberExpr':
            return tu.ids.get(callee.get('referencedMemberDecl')), callee.get('name')
        return tu.ids.get(ref.get('id')), ref.get('name')

    def repo_function(self, d, tu):
        if d is None:
            return None
        defs = self.prog.definitions_for(tu, d)
        return defs[0] if len(defs) == 1 else None

    # ---- encoders --------------------------------------------------------------
    def encoder(self, f):
        g = Grammar(f, 'enc')
        env = {}
        self._enc_block(children(f.body), env, f, g, g.items, 0)
        # allocation: std::vector<std::byte> uncompressed(N)
        for n in walk(f.body):
            if n.get('kind') == 'VarDecl' and 'vector<std::byte>' in (n.get('type') or '').replace(' ', '') \
                    or n.get('kind') == 'VarDecl' and 'std::vector<std::byte>' in (n.get('type') or ''):
                init = [x for x in children(n) if not x['kind'].endswith('Attr')]
                if init and strip(init[-1]).get('kind') == 'CXXConstructExpr':
                    args = [a for a in children(strip(init[-1])) if a.get('kind') != 'CXXDefaultArgExpr']
                    if len(args) == 1:
                        g.alloc = args[0]
                        g.alloc_var = n
                break
        self._enc_settled(g, 'the end of %s' % f.name)
        self._framing(f, g, 'zlib_compress')
        g.items = normalise(g.items)
        return g

    def _enc_settled(self, g, where):
        """Every run of bytes copied to the cursor has been followed by an advance of that length."""
        for ln, loc in g.pending:
            g.unknown.append('%s byte(s) are copied to the cursor at %s and the cursor is not advanced over them before %s'
                             % (ln, loc, where))
        del g.pending[:]

    def _framing(self, f, g, zname):
        fr = None
        for n in walk(f.body):
            if n.get('kind') == 'CallExpr':
                d, nm = self.callee(n, f.tu)
                if nm == zname:
                    fr = 'z'
        g.framing = fr or 'raw'

    def _assigned(self, f):
        """ids of the locals of f that are written after their declaration."""
        key = id(f.body)
        cache = self.__dict__.setdefault('_assigned_cache', {})
        if key not in cache:
            ids = set()
            for n in walk(f.body):
                k = n.get('kind')
                tgt = None
                if k in ('BinaryOperator', 'CompoundAssignOperator') and (n.get('opcode') or '').endswith('=') \
                        and n.get('opcode') not in ('==', '!=', '<=', '>='):
                    tgt = children(n)[0]
                elif k == 'UnaryOperator' and n.get('opcode') in ('++', '--'):
                    tgt = children(n)[0]
                elif k == 'CXXOperatorCallExpr':
                    c = children(n)
                    nm = (strip(c[0]).get('referencedDecl') or {}).get('name') if c else None
                    if nm in ('operator=', 'operator+=', 'operator-=', 'operator++', 'operator--') and len(c) > 1:
                        tgt = c[1]
                if tgt is not None:
                    t = strip(tgt, explicit=True)
                    if t.get('kind') == 'DeclRefExpr':
                        ids.add((t.get('referencedDecl') or {}).get('id'))
            cache[key] = ids
        return cache[key]

    def _phi(self, d, f, env):
        """Name of a local that is assigned after its declaration: every value it can hold."""
        vals = []
        env2 = dict(env)
        env2[d['id']] = 'local:%s' % d.get('name')
        init = [x for x in children(d) if not x['kind'].endswith('Attr')]
        if init:
            vals.append(self.resolve(init[-1], env2, f.tu))
        for n in walk(f.body):
            if n.get('kind') == 'BinaryOperator' and n.get('opcode') == '=':
                l = strip(children(n)[0], explicit=True)
                if l.get('kind') == 'DeclRefExpr' and (l.get('referencedDecl') or {}).get('id') == d['id']:
                    v = self.resolve(children(n)[1], env2, f.tu)
                    if v not in vals:
                        vals.append(v)
        return 'phi(%s)' % '|'.join(vals)

    def _alt(self, cond, t, e, env, tu):
        """alt item; `if (!X) A else B` is `if (X) B else A`."""
        c = strip(cond, explicit=True)
        if c.get('kind') == 'UnaryOperator' and c.get('opcode') == '!':
            return ('alt', self.resolve(children(c)[0], env, tu), e, t)
        return ('alt', self.resolve(cond, env, tu), t, e)

    def _enc_block(self, stmts, env, f, g, out, depth):
        for i, s in enumerate(stmts):
            if s.get('kind') == 'IfStmt':
                c = children(s)
                if len(c) == 2 and _leaves_block(c[1]) and self._has_encode(c[1], f.tu):
                    # the then-branch leaves the block: the rest of the block is the else arm
                    t, e = [], []
                    self._enc_stmt(c[1], dict(env), f, g, t, depth)
                    self._enc_block(stmts[i + 1:], env, f, g, e, depth)
                    out.append(self._alt(c[0], t, e, env, f.tu))
                    return
            self._enc_stmt(s, env, f, g, out, depth)

    def _enc_stmt(self, s, env, f, g, out, depth):
        k = s.get('kind')
        tu = f.tu
        if k == 'CompoundStmt':
            self._enc_block(children(s), env, f, g, out, depth)
            return
        if k == 'DeclStmt':
            for d in children(s):
                if d.get('kind') == 'VarDecl':
                    init = [x for x in children(d) if not x['kind'].endswith('Attr')]
                    t = d.get('type') or ''
                    if '*' in t or 'vector' in t:
                        if init and self._has_encode(init[-1], tu):
                            for n in self._encode_calls(init[-1], tu):
                                self._enc_call(n, env, f, g, out, depth)
                        continue
                    if d['id'] in self._assigned(f):
                        env[d['id']] = self._phi(d, f, env)
                    elif init and not self._has_encode(init[-1], tu):
                        env[d['id']] = self.resolve(init[-1], env, tu)
            return
        if k == 'CXXForRangeStmt':
            inner = s.get('inner', [])
            body = inner[-1]
            lv = children(inner[-2])[0] if inner[-2].get('kind') == 'DeclStmt' else None
            rng = inner[1]
            cont = None
            if rng.get('kind') == 'DeclStmt':
                vd = children(rng)[0]
                init = children(vd)
                cont = self.resolve(init[-1], env, tu) if init else None
            if not self._has_encode(body, tu):
                return
            env2 = dict(env)
            if lv is not None:
                env2[lv['id']] = '%s[]' % cont
            sub = []
            self._enc_stmt(body, env2, f, g, sub, depth)
            out.append(('repeat', 'size(%s)' % cont, sub))
            return
        if k == 'ForStmt':
            inner = s.get('inner', []) + [{}] * 5
            init, _, cond, inc, body = inner[:5]
            if not self._has_encode(body, tu):
                return
            env2 = dict(env)
            cnt = '?'
            cn = strip(cond) if cond.get('kind') else {}
            if cn.get('kind') == 'BinaryOperator' and cn.get('opcode') in ('<', '!='):
                cc = children(cn)
                cnt = self.resolve(cc[1], env, tu)
                iv = strip(cc[0], explicit=True)
                if iv.get('kind') == 'DeclRefExpr':
                    env2[iv['referencedDecl']['id']] = 'index'
            sub = []
            self._enc_stmt(body, env2, f, g, sub, depth)
            out.append(('repeat', cnt, sub))
            return
        if k == 'IfStmt':
            c = children(s)
            if not any(self._has_encode(x, tu) for x in c[1:]):
                return
            t, e = [], []
            self._enc_stmt(c[1], dict(env), f, g, t, depth)
            if len(c) > 2:
                self._enc_stmt(c[2], dict(env), f, g, e, depth)
            out.append(self._alt(c[0], t, e, env, tu))
            return
        if k in ('WhileStmt', 'DoStmt', 'SwitchStmt', 'CXXTryStmt'):
            if self._has_encode(s, tu):
                g.unknown.append('encode call inside %s at %s' % (k, locstr(s)))
            return
        # expression statements: ptr = encode_X(v, ptr) / return encode_X(v, ptr)
        for n in self._encode_calls(s, tu):
            self._enc_call(n, env, f, g, out, depth)
        # ... / ptr += n / ptr = ptr + n / return ptr + n: the cursor moves over bytes written in place
        adv = self._enc_advance(s, env, tu)
        if adv is not None:
            if g.pending and g.pending[0][0] == adv:
                g.pending.pop(0)
            else:
                g.unknown.append('the output cursor is advanced by %s at %s over bytes no recognised write has filled%s'
                                 % (adv, locstr(s), (' (a copy of %s byte(s) is outstanding)' % g.pending[0][0])
                                    if g.pending else ''))
                del g.pending[:]

    def _enc_advance(self, s, env, tu):
        """Length by which statement s moves an output cursor without writing: `c += n`, `++c`, `c = c + n`,
        `return c + n` (c a std::byte* variable) -> n resolved; None if s is not of that form."""
        x = strip(s)
        if x.get('kind') == 'ReturnStmt':
            if not children(x):
                return None
            x = strip(children(x)[0], explicit=True)

        def out_cursor(e):
            e = strip(e, explicit=True)
            return e.get('kind') == 'DeclRefExpr' and is_cursor_type(e.get('type')) and \
                'const std::byte' not in (e.get('type') or '')
        k = x.get('kind')
        if k == 'BinaryOperator' and x.get('opcode') == '=' and out_cursor(children(x)[0]):
            x = strip(children(x)[1], explicit=True)
            k = x.get('kind')
        if k == 'BinaryOperator' and x.get('opcode') == '+' and out_cursor(children(x)[0]):
            return self.resolve(children(x)[1], env, tu)
        if k == 'CompoundAssignOperator' and x.get('opcode') == '+=' and out_cursor(children(x)[0]):
            return self.resolve(children(x)[1], env, tu)
        if k == 'UnaryOperator' and x.get('opcode') == '++' and out_cursor(children(x)[0]):
            return 'const:1'
        return None

    def _has_encode(self, n, tu):
        return any(True for _ in self._encode_calls(n, tu))

    def _c_copy_args(self, n, tu):
        """(destination, source, count) of a call to the C library's memcpy / memmove; None for any other node."""
        if n.get('kind') != 'CallExpr':
            return None
        d, nm = self.callee(n, tu)
        if nm not in C_COPY or len(children(n)) != 4:
            return None
        qn = (tu.qn.get(d['id'], '') if d is not None else '') or nm
        if not (qn.startswith('std::') or '::' not in qn):
            return None
        return children(n)[1:]

    def _data_of(self, n, env, tu):
        """X for the pointer expressions X.data() / X.c_str() / &X[0]; None otherwise."""
        e = _through_casts(n)
        if e.get('kind') == 'CXXMemberCallExpr':
            callee = strip(children(e)[0])
            if callee.get('name') in ('data', 'c_str') and children(callee) and len(children(e)) == 1:
                return self.resolve(children(callee)[0], env, tu)
        if e.get('kind') == 'UnaryOperator' and e.get('opcode') == '&':
            a = strip(children(e)[0], explicit=True)
            sub = None
            if a.get('kind') == 'ArraySubscriptExpr':
                sub = children(a)
            elif a.get('kind') == 'CXXOperatorCallExpr' and len(children(a)) == 3 and \
                    (strip(children(a)[0]).get('referencedDecl') or {}).get('name') == 'operator[]':
                sub = children(a)[1:]
            if sub and literal_value(sub[1]) == 0:
                return self.resolve(sub[0], env, tu)
        return None

    def _emit_kind(self, n, tu):
        """What a call does with an output cursor it is given: 'prim' (one of the fixed-width primitives
        L1 checks, or encode_extra), 'fill' / 'copy' (std algorithm writing through the cursor), 'rawcopy'
        (memcpy to the cursor, which does not move it), 'helper' (repository function that takes the cursor
        and returns the advanced one), 'opaque' (takes and returns a cursor but its body is not available);
        None = not an emitting call."""
        if n.get('kind') != 'CallExpr':
            return None
        args = children(n)[1:]
        cp = self._c_copy_args(n, tu)
        if cp is not None:
            dt = _through_casts(cp[0]).get('type') or ''
            return 'rawcopy' if is_cursor_type(dt) and 'const std::byte' not in dt else None
        if not is_cursor_type(n.get('type')) or 'const std::byte' in (n.get('type') or '') or \
                not any(is_cursor_type(a.get('type')) for a in args):
            return None
        d, nm = self.callee(n, tu)
        nm = nm or ''
        if nm.startswith('encode_') and (nm[7:] in PRIMS or nm[7:] == 'extra'):
            return 'prim'
        qn = tu.qn.get(d['id'], '') if d is not None else ''
        if nm in STD_FILL and (qn.startswith('std::') or not qn):
            return 'fill'
        if nm in STD_COPY and (qn.startswith('std::') or not qn):
            return 'copy'
        cf = self.repo_function(d, tu)
        if cf is not None and cf.body is not None:
            return 'helper'
        return 'opaque'

    def _encode_calls(self, n, tu):
        """Outermost emitting calls in n (document order)."""
        k = n.get('kind')
        if k == 'CallExpr' and self._emit_kind(n, tu):
            # nested emitting calls in arguments come first (evaluation order of
            # `encode(a, encode(b, ptr))` is inner first)
            for a in children(n)[1:]:
                for x in self._encode_calls(a, tu):
                    yield x
            yield n
            return
        if k == 'LambdaExpr':
            return
        for c in children(n):
            for x in self._encode_calls(c, tu):
                yield x

    def _range_container(self, first, last, env, tu):
        """X for the iterator pair (X.begin(), X.end()) / (begin(X), end(X)); None otherwise."""
        names = []
        for it_, want in ((first, ('begin', 'cbegin')), (last, ('end', 'cend'))):
            e = strip(it_, explicit=True)
            while e.get('kind') == 'CXXConstructExpr' and len(children(e)) == 1:
                e = strip(children(e)[0], explicit=True)
            if e.get('kind') == 'CXXMemberCallExpr':
                callee = strip(children(e)[0])
                if callee.get('name') in want and children(callee):
                    names.append(self.resolve(children(callee)[0], env, tu))
                    continue
            if e.get('kind') == 'CallExpr' and self.callee(e, tu)[1] in want and len(children(e)) == 2:
                names.append(self.resolve(children(e)[1], env, tu))
                continue
            return None
        return names[0] if names[0] == names[1] else None

    @staticmethod
    def _is_identity_lambda(lam):
        """The lambda returns its single parameter, converted by casts only."""
        lam = strip(lam, explicit=True)
        while lam.get('kind') == 'CXXConstructExpr' and len(children(lam)) == 1:
            lam = strip(children(lam)[0], explicit=True)
        if lam.get('kind') != 'LambdaExpr':
            return False
        body = [c for c in children(lam) if c.get('kind') == 'CompoundStmt']
        if not body:
            return False
        st = children(body[-1])
        if len(st) != 1 or st[0].get('kind') != 'ReturnStmt' or not children(st[0]):
            return False
        e = strip(children(st[0])[0], explicit=True)
        while e.get('kind') in ('CXXConstructExpr', 'InitListExpr') and len(children(e)) == 1:
            e = strip(children(e)[0], explicit=True)
        return e.get('kind') == 'DeclRefExpr' and (e.get('referencedDecl') or {}).get('kind') == 'ParmVarDecl'

    def _enc_call(self, n, env, f, g, out, depth):
        tu = f.tu
        d, nm = self.callee(n, tu)
        args = children(n)[1:]
        kind = self._emit_kind(n, tu)
        vals = [a for a in args if not is_cursor_type(a.get('type'))]
        self._enc_settled(g, 'the next write at %s' % locstr(n))
        if kind == 'rawcopy':
            # std::memcpy(cursor, X.data(), X.size()): the bytes of X, in place; the cursor stays where it is
            # and has to be moved over them by what follows (cursor += X.size() / return cursor + X.size())
            dst, src, cnt = args
            cont = self._data_of(src, env, tu)
            ln = self.resolve(cnt, env, tu)
            if strip(dst, explicit=True).get('kind') == 'DeclRefExpr' and cont is not None and ln == 'size(%s)' % cont:
                out.append(('bytes', ln, cont))
                g.pending.append((ln, locstr(n)))
            else:
                g.unknown.append('%s at %s copies a run to the output cursor that the extractor cannot describe '
                                 '(destination other than the cursor itself, or source / length that are not the '
                                 'data and the size of one container)' % (nm, locstr(n)))
            return
        if kind == 'prim':
            p = nm[len('encode_'):]
            if p in PRIMS:
                out.append(('prim', p, self.resolve(vals[0], env, tu)))
                g.locs[len(g.locs)] = locstr(n)
                return
            fld = self.resolve(vals[0], env, tu)
            out.append(('bytes', 'size(%s)' % fld, fld))
            return
        if kind == 'fill':
            # std::fill_n(cursor, N, byte): N bytes of one value
            if len(args) == 3 and is_cursor_type(args[0].get('type')):
                cnt = self.resolve(args[1], env, tu)
                if cnt.startswith('const:'):
                    out.append(('repeat', cnt, [('prim', 'uint8', self.resolve(args[2], env, tu))]))
                    return
            g.unknown.append('std::%s at %s writes a run the extractor cannot size' % (nm, locstr(n)))
            return
        if kind == 'copy':
            # std::copy(first, last, cursor) / std::transform(first, last, cursor, cast-only lambda):
            # one byte per element of the source range
            if len(args) >= 3 and is_cursor_type(args[2].get('type')):
                cont = self._range_container(args[0], args[1], env, tu)
                if cont is not None and (len(args) == 3 or (len(args) == 4 and self._is_identity_lambda(args[3]))):
                    out.append(('repeat', 'size(%s)' % cont, [('prim', 'uint8', '%s[]' % cont)]))
                    return
            g.unknown.append('std::%s at %s writes a run the extractor cannot describe' % (nm, locstr(n)))
            return
        cf = self.repo_function(d, tu)
        if kind != 'helper' or depth > 3:
            g.unknown.append('call to %s at %s cannot be inlined' % (nm, locstr(n)))
            return
        env2 = {}
        for prm, a in zip(cf.params, args):
            t = prm.get('type') or ''
            if t.strip().endswith('*'):
                continue
            env2[prm['id']] = self.resolve(a, env, tu)
        self._enc_block(children(cf.body), env2, cf, g, out, depth + 1)
        self._enc_settled(g, 'the end of %s' % cf.name)

    # ---- decoders --------------------------------------------------------------
    def decoder(self, f):
        g = Grammar(f, 'dec')
        env = {}
        # the local of the returned struct type is the root
        ret = (f.ret or '').replace('const ', '').strip()
        for n in walk(f.body):
            if n.get('kind') == 'VarDecl':
                t = (n.get('type') or '').replace('const ', '').strip()
                if t and (t == ret or ret.endswith('::' + t) or t.endswith('::' + ret)):
                    env[n['id']] = ''
        self._late_locals(f, env)
        env['__raw'] = RawFrame()
        self._dec_block(children(f.body), env, f, g, g.items, 0)
        self._raw_settled(env, g, 'the end of %s' % f.name)
        self._framing(f, g, 'zlib_uncompress')
        g.items = normalise(g.items)
        return g

    def _late_locals(self, f, env, root=None):
        """A local that is later stored into a member of the result (possibly
        through a conversion, possibly through further locals) is named after that member.
        (root: the part of the body to look at - a loop body, once its element object has a name.)"""
        cand = {}
        body = root if root is not None else f.body

        def feed(rhs, name):
            for y in walk(rhs):
                if y.get('kind') == 'DeclRefExpr' and (y.get('referencedDecl') or {}).get('kind') in ('VarDecl', 'BindingDecl'):
                    vid = y['referencedDecl']['id']
                    vd = f.tu.ids.get(vid)
                    if vd is None or vid in env:
                        continue
                    t = vd.get('type') or ''
                    if '*' in t:
                        continue
                    cand.setdefault(vid, set()).add(name)
        for n in walk(body):
            lhs = rhs = None
            if n.get('kind') == 'BinaryOperator' and n.get('opcode') == '=':
                lhs, rhs = children(n)[0], children(n)[1]
            elif n.get('kind') == 'CXXOperatorCallExpr':
                c = children(n)
                if (strip(c[0]).get('referencedDecl') or {}).get('name') == 'operator=' and len(c) == 3:
                    lhs, rhs = c[1], c[2]
            if lhs is None:
                continue
            l = strip(lhs)
            if l.get('kind') == 'CallExpr':
                continue
            name = self.resolve(lhs, env, f.tu)
            if name.startswith(('local:', 'expr', 'call', 'const', 'cond', 'ctor', 'phi(')) or name in ('', 'ignored'):
                continue
            feed(rhs, name)
        # a local initialised from other locals and stored into one member: the locals it is computed
        # from carry that member's value (`const auto key_num = raw_key == 0 ? nullopt : raw_key;`)
        for _ in range(3):
            grew = False
            for n in walk(body):
                if n.get('kind') == 'VarDecl' and len(cand.get(n.get('id'), ())) == 1:
                    init = [x for x in children(n) if not x['kind'].endswith('Attr')]
                    if init:
                        before = sum(len(v) for v in cand.values())
                        feed(init[-1], next(iter(cand[n['id']])))
                        grew = grew or sum(len(v) for v in cand.values()) != before
            if not grew:
                break
        for vid, names in cand.items():
            if len(names) == 1:
                env[vid] = next(iter(names))

    def _dec_block(self, stmts, env, f, g, out, depth):
        for i, s in enumerate(stmts):
            if s.get('kind') == 'IfStmt':
                c = children(s)
                if len(c) == 2 and _leaves_block(c[1]) and self._consumes(c[1], f.tu):
                    # the then-branch leaves the block: the rest of the block is the else arm
                    t, e = [], []
                    self._dec_stmt(c[1], dict(env), f, g, t, depth)
                    self._dec_block(stmts[i + 1:], env, f, g, e, depth)
                    out.append(self._alt(c[0], t, e, env, f.tu))
                    return
            self._dec_stmt(s, env, f, g, out, depth)

    def _dec_stmt(self, s, env, f, g, out, depth):
        tu = f.tu
        k = s.get('kind')
        if k == 'CompoundStmt':
            self._dec_block(children(s), env, f, g, out, depth)
            return
        if k == 'DeclStmt':
            for d in children(s):
                if d.get('kind') == 'DecompositionDecl':
                    # auto [value, next] = decode_X(cursor);
                    init = [x for x in children(d) if x.get('kind') != 'BindingDecl' and not x['kind'].endswith('Attr')]
                    binds = [x for x in children(d) if x.get('kind') == 'BindingDecl']
                    calls = [y for y in (walk(init[-1]) if init else ()) if self._consume_kind(y, tu)]
                    if calls and binds:
                        self._dec_call(calls[0], [{'kind': 'DeclRefExpr', 'referencedDecl': {
                            'id': binds[0]['id'], 'name': binds[0].get('name'), 'kind': 'BindingDecl'}}], env, f, g, out, depth)
                    elif init and self._consumes(init[-1], tu):
                        g.unknown.append('unrecognised consuming declaration at %s' % locstr(s))
                    continue
                if d.get('kind') != 'VarDecl':
                    continue
                t = d.get('type') or ''
                init = [x for x in children(d) if not x['kind'].endswith('Attr')]
                if init and not self._consumes(init[-1], tu):
                    if _bare(t).endswith('*'):
                        # const char* p = reinterpret_cast<const char*>(cursor + k): another view of the blob
                        self._raw_alias(d, init[-1], env, f)
                    else:
                        self._raw_scan(init[-1], self._decl_name(d, env), env, f, g)
                # std::vector<T> result(count): container sized by a wire count
                if init and 'vector' in t:
                    e = strip(init[-1])
                    if e.get('kind') == 'CXXConstructExpr':
                        args = [a for a in children(e) if a.get('kind') != 'CXXDefaultArgExpr']
                        if len(args) == 1:
                            src = self.resolve(args[0], env, tu)
                            g.notes.append(('sized', env.get(d['id'], 'local:%s%s' % (d.get('name'), env.get('__tag', ''))), src))
                if not init:
                    continue
                # T& x = <place>: another name of that place
                if t.strip().endswith('&') and d['id'] not in env and not self._consumes(init[-1], tu):
                    env[d['id']] = self.resolve(init[-1], env, tu)
                    continue
                if self._scans_rest(init[-1], tu):
                    out.append(('bytes', 'rest', 'trailing'))
                    continue
                if self._consumes(init[-1], tu):
                    calls = [y for y in walk(init[-1]) if self._consume_kind(y, tu)]
                    e = strip(init[-1], explicit=True)
                    if is_cursor_type(t) and len(calls) == 1 and e is calls[0] and self._consume_kind(e, tu) == 'helper':
                        self._dec_call(e, [], env, f, g, out, depth)     # const std::byte* next = helper(cursor, ...)
                    else:
                        g.unknown.append('unrecognised consuming declaration at %s' % locstr(s))
            return
        if k == 'CXXForRangeStmt':
            inner = s.get('inner', [])
            body = inner[-1]
            lv = children(inner[-2])[0] if inner[-2].get('kind') == 'DeclStmt' else None
            rng = inner[1]
            cont = None
            if rng.get('kind') == 'DeclStmt':
                vd = children(rng)[0]
                init = children(vd)
                cont = self.resolve(init[-1], env, tu) if init else None
            if not self._has_decode(body, tu):
                return
            env2 = dict(env)
            if lv is not None:
                env2[lv['id']] = '%s[]' % cont
            sub = []
            self._dec_stmt(body, env2, f, g, sub, depth)
            out.append(('repeat', 'size(%s)' % cont, sub))
            return
        if k == 'ForStmt':
            inner = s.get('inner', []) + [{}] * 5
            init, _, cond, inc, body = inner[:5]
            if not self._has_decode(body, tu):
                return
            env2 = dict(env)
            cnt = '?'
            cn = strip(cond) if cond.get('kind') else {}
            if cn.get('kind') == 'BinaryOperator' and cn.get('opcode') in ('<', '!='):
                cc = children(cn)
                cnt = self.resolve(cc[1], env, tu)
            # locals pushed into a container inside the body name its element
            for x in walk(body):
                if x.get('kind') == 'CXXMemberCallExpr':
                    callee = strip(children(x)[0])
                    if callee.get('name') in ('push_back', 'emplace_back') and children(callee):
                        cont = self.resolve(children(callee)[0], env, tu)
                        for a in children(x)[1:]:
                            for y in walk(a):
                                if y.get('kind') == 'DeclRefExpr' and (y.get('referencedDecl') or {}).get('kind') == 'VarDecl':
                                    env2[y['referencedDecl']['id']] = '%s[]' % cont
                                    g.notes.append(('sized', cont, cnt))
            # locals of the body (structured bindings) that are then stored into a member of that element
            self._late_locals(f, env2, root=body)
            sub = []
            self._dec_stmt(body, env2, f, g, sub, depth)
            out.append(('repeat', cnt, sub))
            return
        if k == 'WhileStmt':
            # trailing-bytes scan (v1 beat data): while (ptr != end) { check; ptr++ }
            c = children(s)
            if any(x.get('kind') == 'UnaryOperator' and x.get('opcode') == '++' for x in walk(c[-1])):
                out.append(('bytes', 'rest', 'trailing'))
            elif self._consumes(s, tu):
                g.unknown.append('consumption inside %s at %s' % (k, locstr(s)))
            return
        if k == 'IfStmt':
            c = children(s)
            cn = strip(c[0])
            self._raw_scan(c[0], 'expr(test)', env, f, g)
            if self._scans_rest(c[0], tu):
                out.append(('bytes', 'rest', 'trailing'))
            if cn.get('kind') == 'BinaryOperator' and cn.get('opcode') == '!=' and len(c) > 1 and \
                    any(x.get('kind') == 'CXXThrowExpr' for x in walk(c[1])):
                cc = children(cn)
                g.notes.append(('equal', self.resolve(cc[0], env, tu), self.resolve(cc[1], env, tu)))
            if not any(self._consumes(x, tu) for x in c[1:]):
                return
            t, e = [], []
            self._dec_stmt(c[1], dict(env), f, g, t, depth)
            if len(c) > 2:
                self._dec_stmt(c[2], dict(env), f, g, e, depth)
            out.append(self._alt(c[0], t, e, env, tu))
            return
        if k == 'CXXTryStmt':
            c = children(s)
            self._dec_stmt(c[0], env, f, g, out, depth)
            return
        if k in ('DoStmt', 'SwitchStmt'):
            if self._consumes(s, tu):
                g.unknown.append('consumption inside %s at %s' % (k, locstr(s)))
            return
        self._dec_expr(s, env, f, g, out, depth)

    def _has_decode(self, n, tu):
        return self._consumes(n, tu)

    def _consume_kind(self, n, tu):
        """What a call does with an input cursor it is given: 'prim' (fixed-width primitive of L1 or
        decode_extra), 'helper' (repository function that takes the cursor and returns the advanced one,
        alone or in a pair with the value read), 'opaque' (the same without a body); None otherwise."""
        if n.get('kind') != 'CallExpr':
            return None
        args = children(n)[1:]
        if not carries_cursor(n.get('type')) or not any(is_cursor_type(a.get('type')) for a in args):
            return None
        d, nm = self.callee(n, tu)
        nm = nm or ''
        if nm.startswith('decode_') and (nm[7:] in PRIMS or nm[7:] == 'extra'):
            return 'prim'
        cf = self.repo_function(d, tu)
        if cf is not None and cf.body is not None:
            return 'helper'
        qn = (tu.qn.get(d['id'], '') if d is not None else '') or ''
        if nm in STD_PACK and (qn.startswith('std::') or not qn):
            return None         # puts a cursor next to a value; reads nothing
        return 'opaque'

    def _scans_rest(self, n, tu):
        """n contains a std algorithm that visits every byte of [cursor, end)."""
        for x in walk(n):
            if x.get('kind') == 'CallExpr':
                d, nm = self.callee(x, tu)
                args = children(x)[1:]
                if nm in STD_SCAN and len(args) >= 2 and is_cursor_type(args[0].get('type')) \
                        and is_cursor_type(args[1].get('type')):
                    return True
        return False

    def _consumes(self, n, tu):
        for x in walk(n):
            if x.get('kind') == 'CallExpr':
                if self._consume_kind(x, tu):
                    return True
                d, nm = self.callee(x, tu)
                if nm and nm.startswith('decode_'):
                    return True
            if x.get('kind') == 'CompoundAssignOperator' and x.get('opcode') == '+=':
                l = strip(children(x)[0], explicit=True)
                if (l.get('type') or '').strip().endswith('*'):
                    return True
            if self._moves_cursor(x):
                return True
        return self._scans_rest(n, tu)

    @staticmethod
    def _cursor_sum(e):
        """e is `c + n` for a cursor variable c (a position further on in the blob)."""
        e = strip(e, explicit=True)
        if e.get('kind') != 'BinaryOperator' or e.get('opcode') != '+' or not is_cursor_type(e.get('type')):
            return False
        while e.get('kind') == 'BinaryOperator' and e.get('opcode') in ('+', '-') and is_cursor_type(e.get('type')):
            e = strip(children(e)[0], explicit=True)
        return e.get('kind') == 'DeclRefExpr' and is_cursor_type(e.get('type'))

    def _return_components(self, r):
        """The expressions a return statement puts together: the arguments of the pair / tuple / struct it
        constructs (braces, constructor, make_pair / make_tuple), or the single cursor it returns; None if the
        returned expression is not of that shape."""
        if not children(r):
            return None
        e = strip(children(r)[0])
        for _ in range(4):
            k = e.get('kind')
            args = None
            if k in ('CXXConstructExpr', 'CXXTemporaryObjectExpr', 'InitListExpr'):
                args = [a for a in children(e) if a.get('kind') != 'CXXDefaultArgExpr']
            elif k == 'CallExpr' and (strip(children(e)[0]).get('referencedDecl') or {}).get('name') in (
                    'make_pair', 'make_tuple'):
                args = children(e)[1:]
            if args is None:
                break
            if len(args) == 1 and carries_cursor(strip(args[0]).get('type')) and not is_cursor_type(strip(args[0]).get('type')):
                e = strip(args[0])      # copy / move of the aggregate
                continue
            if len(args) >= 2 and any(is_cursor_type(a.get('type')) for a in args):
                return args
            return None
        if is_cursor_type(e.get('type')):
            return [e]
        return None

    def _moves_cursor(self, x):
        """x moves a cursor by arithmetic, without a call: ++c, c = c + n, return {.., c + n} / return c + n."""
        k = x.get('kind')
        if k == 'UnaryOperator' and x.get('opcode') == '++' and children(x) and \
                is_cursor_type(strip(children(x)[0], explicit=True).get('type')):
            return True
        if k == 'BinaryOperator' and x.get('opcode') == '=' and is_cursor_type(strip(children(x)[0], explicit=True).get('type')):
            return self._cursor_sum(children(x)[1])
        if k == 'ReturnStmt':
            comps = self._return_components(x)
            return bool(comps) and any(self._cursor_sum(c) for c in comps)
        return False

    def _dec_expr(self, s, env, f, g, out, depth):
        tu = f.tu
        x = strip(s)
        k = x.get('kind')
        if k == 'CXXOperatorCallExpr':
            c = children(x)
            op = (strip(c[0]).get('referencedDecl') or {}).get('name')
            if op == 'operator=' and len(c) == 3:
                l = strip(c[1])
                if l.get('kind') == 'CallExpr' and self.callee(l, tu)[1] == 'tie':
                    targets = children(l)[1:]
                    calls = [y for y in walk(c[2]) if self._consume_kind(y, tu)]
                    if calls:
                        self._dec_call(calls[0], targets, env, f, g, out, depth)
                        return
        raw = env.get('__raw')
        if k == 'BinaryOperator' and x.get('opcode') == '=':
            # cursor = helper(cursor, ...): the helper consumes and hands back the advanced cursor
            c = children(x)
            l = strip(c[0], explicit=True)
            r = strip(c[1], explicit=True)
            if is_cursor_type(l.get('type')) and self._consume_kind(r, tu) in ('helper', 'opaque'):
                self._dec_call(r, [], env, f, g, out, depth)
                return
            if is_cursor_type(l.get('type')) and l.get('kind') == 'DeclRefExpr' and self._cursor_sum(r):
                self._dec_advance(r, l, env, f, g, out)      # cursor = cursor + n
                return
            if not self._consumes(c[1], tu):
                self._raw_scan(c[1], self.resolve(c[0], env, tu), env, f, g)     # x = <byte read through the cursor>
                return
        if k == 'UnaryOperator' and x.get('opcode') == '++' and \
                is_cursor_type(strip(children(x)[0], explicit=True).get('type')) and raw is not None:
            l = strip(children(x)[0], explicit=True)
            if l.get('kind') == 'DeclRefExpr':
                self._raw_moved(l['referencedDecl']['id'], {'': 1}, env, f, g, out, locstr(s))
                return
        if k == 'CompoundAssignOperator' and x.get('opcode') == '+=':
            c = children(x)
            l = strip(c[0], explicit=True)
            if (l.get('type') or '').strip().endswith('*'):
                if raw is not None and raw.reads and l.get('kind') == 'DeclRefExpr':
                    # the bytes read in place before this statement are what the cursor moves over
                    adv = self._lin(c[1], env, tu)
                    if adv is None:
                        g.unknown.append('the cursor is advanced at %s by an amount the extractor cannot express' % locstr(s))
                        del raw.reads[:]
                    else:
                        self._raw_moved(l['referencedDecl']['id'], adv, env, f, g, out, locstr(s))
                    return
                if raw is not None:
                    raw.epoch += 1
                v = self.resolve(c[1], env, tu)
                if v.startswith('const:'):
                    out.append(('skip', int(v[6:])))
                else:
                    # label bytes: preceded by X.assign(ptr, n)
                    out.append(('bytes', v, '?'))
                return
        if k == 'CXXMemberCallExpr':
            callee = strip(children(x)[0])
            if callee.get('name') == 'assign' and children(callee):
                args = children(x)[1:]
                if len(args) == 2 and raw is not None and self._raw_assign_in_place(x, env, tu):
                    # X.assign(p + k, n) / X.assign(first, last) at a position the cursor has yet to be moved to
                    self._raw_scan(x, 'ignored', env, f, g)
                    return
                if len(args) == 2:
                    fld = self.resolve(children(callee)[0], env, tu)
                    ln = self.resolve(args[1], env, tu)
                    out.append(('assign', ln, fld))
                    return
            if callee.get('name') == 'resize' and children(callee):
                cont = self.resolve(children(callee)[0], env, tu)
                args = children(x)[1:]
                if args:
                    g.notes.append(('sized', cont, self.resolve(args[0], env, tu)))
                return
        if self._scans_rest(s, tu) and not any(self._consume_kind(y, tu) for y in walk(s)):
            out.append(('bytes', 'rest', 'trailing'))
            return
        if k == 'ReturnStmt' or s.get('kind') == 'ReturnStmt':
            if any(self._consume_kind(y, tu) for y in walk(s)):
                g.unknown.append('consuming call in a return statement at %s' % locstr(s))
                return
            # return {value, cursor + n}: what the value is built from in place, and how far the cursor moves
            comps = self._return_components(s) if s.get('kind') == 'ReturnStmt' else None
            first = True
            for c in comps or ():
                if not is_cursor_type(c.get('type')):
                    self._raw_scan(c, env.get('__ret', 'ignored') if first else 'ignored', env, f, g)
                    first = False
            for c in comps or ():
                if is_cursor_type(c.get('type')) and self._cursor_sum(c):
                    self._dec_advance(c, None, env, f, g, out)
            if comps is None and children(s):
                self._raw_scan(children(s)[0], env.get('__ret', 'ignored'), env, f, g)
            return
        # any other statement that contains a decode call is outside the subset
        if s.get('kind') not in ('ReturnStmt',) and self._consumes(s, tu) and k not in ('CXXThrowExpr',):
            g.unknown.append('unrecognised consuming statement at %s' % locstr(s))
            return
        if k != 'CXXThrowExpr':
            self._raw_scan(s, 'ignored', env, f, g)

    # ---- bytes taken directly through the cursor -------------------------------------------------
    def _decl_name(self, d, env):
        return env[d['id']] if d.get('id') in env else 'local:%s%s' % (d.get('name'), env.get('__tag', ''))

    def _lin(self, n, env, tu):
        """Integer expression as a linear form over resolved names; None if it is not one."""
        n = strip(n, explicit=True)
        k = n.get('kind')
        if k == 'IntegerLiteral':
            return {'': int(n['value'])} if int(n['value']) else {}
        if k == 'BinaryOperator' and n.get('opcode') in ('+', '-'):
            a, b = (self._lin(c, env, tu) for c in children(n))
            if a is None or b is None:
                return None
            return lin_add(a, b, 1 if n['opcode'] == '+' else -1)
        if k == 'BinaryOperator' and n.get('opcode') == '*':
            a, b = (self._lin(c, env, tu) for c in children(n))
            if a is None or b is None:
                return None
            if set(a) <= {''}:
                return {s_: c * a.get('', 0) for s_, c in b.items() if c * a.get('', 0)}
            if set(b) <= {''}:
                return {s_: c * b.get('', 0) for s_, c in a.items() if c * b.get('', 0)}
            return None
        if k == 'DeclRefExpr' or (k == 'CXXMemberCallExpr' and strip(children(n)[0]).get('name') in ('size', 'length')):
            nm = self.resolve(n, env, tu)
            if nm.startswith('const:'):
                try:
                    v = int(nm[6:])
                except ValueError:
                    return None
                return {'': v} if v else {}
            if nm.startswith(('local:', 'size(')) or is_plain(nm):
                return {nm: 1}
        return None

    def _cursor_off(self, n, env, tu):
        """Pointer expression as (cursor variable id, offset): the cursor itself, a pointer local taken from it
        (through any cast), either of them plus / minus an integer, &p[i].  None: not a position in the blob;
        'stale': taken from the cursor before the cursor moved (or from a pointer that is modified)."""
        raw = env.get('__raw')
        e = _through_casts(n)
        k = e.get('kind')
        if k == 'DeclRefExpr':
            rid = (e.get('referencedDecl') or {}).get('id')
            if raw is not None and rid in raw.alias:
                a = raw.alias[rid]
                if a == 'stale' or a[2] != raw.epoch:
                    return 'stale'
                return (a[0], a[1])
            if is_cursor_type(e.get('type')) and (e.get('referencedDecl') or {}).get('kind') in ('ParmVarDecl', 'VarDecl', 'BindingDecl'):
                return (rid, {})
            return None
        if k == 'BinaryOperator' and e.get('opcode') in ('+', '-') and _bare(e.get('type')).endswith('*'):
            c = children(e)
            base = self._cursor_off(c[0], env, tu)
            if base is None or base == 'stale':
                return base
            off = self._lin(c[1], env, tu)
            if off is None:
                return 'stale'
            return (base[0], lin_add(base[1], off, 1 if e['opcode'] == '+' else -1))
        if k == 'UnaryOperator' and e.get('opcode') == '&':
            a = strip(children(e)[0], explicit=True)
            if a.get('kind') == 'ArraySubscriptExpr':
                base = self._cursor_off(children(a)[0], env, tu)
                if base is None or base == 'stale':
                    return base
                off = self._lin(children(a)[1], env, tu)
                return 'stale' if off is None else (base[0], lin_add(base[1], off))
        return None

    def _raw_alias(self, d, init, env, f):
        raw = env.get('__raw')
        if raw is None:
            return
        off = self._cursor_off(init, env, f.tu)
        if off is None:
            return
        if off == 'stale' or d['id'] in self._assigned(f):
            raw.alias[d['id']] = 'stale'
        else:
            raw.alias[d['id']] = (off[0], off[1], raw.epoch)

    def _raw_assign_in_place(self, x, env, tu):
        """X.assign(p, ..) where p is a position other than the cursor itself, or follows reads made in place."""
        raw = env.get('__raw')
        off = self._cursor_off(children(x)[1], env, tu)
        if off is None:
            return False
        return off == 'stale' or bool(off[1]) or bool(raw.reads) or \
            _bare(strip(children(x)[2], explicit=True).get('type')).endswith('*')

    def _range_of(self, a0, a1, env, tu):
        """(cursor id, offset, length) of the byte range (first, last) / (first, count) in the blob; None if first is
        not a position in the blob; 'stale' if it is one the extractor cannot place."""
        o0 = self._cursor_off(a0, env, tu)
        if o0 is None or o0 == 'stale':
            return o0
        if _bare(_through_casts(a1).get('type')).endswith('*') or _bare(strip(a1).get('type')).endswith('*'):
            o1 = self._cursor_off(a1, env, tu)
            if o1 is None or o1 == 'stale' or o1[0] != o0[0]:
                return 'stale'
            return (o0[0], o0[1], lin_add(o1[1], o0[1], -1))
        ln = self._lin(a1, env, tu)
        if ln is None:
            return 'stale'
        return (o0[0], o0[1], ln)

    def _raw_scan(self, root, dest, env, f, g):
        """Record what expression `root` takes directly from the blob through the cursor (or a pointer local taken
        from it): single bytes (p[i], *p, *(p + i)) and ranges (a string / vector built from or assigned
        [p + i, p + i + n) or (p + i, n); memcpy from p + i).  `dest` names what receives the value when the
        access is all of root but conversions.  The items are emitted when the cursor is moved over them."""
        raw = env.get('__raw')
        if raw is None:
            return
        tu = f.tu
        par = {}
        nodes = []
        stack = [root]
        while stack:
            n = stack.pop()
            nodes.append(n)
            if n.get('kind') == 'LambdaExpr':
                continue
            for c in reversed(children(n)):
                par[id(c)] = n
                stack.append(c)

        def whole(n, also=()):
            """n is root but for conversions (and the kinds in `also`)."""
            while n is not root:
                p_ = par.get(id(n))
                if p_ is None:
                    return False
                pk = p_.get('kind')
                if pk in ('ImplicitCastExpr', 'ParenExpr', 'ExprWithCleanups', 'MaterializeTemporaryExpr',
                          'CXXBindTemporaryExpr', 'ConstantExpr', 'FullExpr', 'CXXFunctionalCastExpr',
                          'CXXStaticCastExpr', 'CStyleCastExpr') + tuple(also) and len(children(p_)) == 1:
                    n = p_
                elif pk == 'CallExpr' and len(children(p_)) == 2 and n is children(p_)[1] and \
                        (strip(children(p_)[0]).get('referencedDecl') or {}).get('name') in ('to_integer', 'move'):
                    n = p_
                elif pk in ('CXXConstructExpr',) and 'CXXConstructExpr' in also and \
                        len([a for a in children(p_) if a.get('kind') != 'CXXDefaultArgExpr']) == 1:
                    n = p_
                else:
                    return False
            return True

        def lost(n, what):
            g.unknown.append('%s at %s is taken from a position in the blob the extractor cannot place (a pointer '
                             'saved before the cursor moved, or an offset that is not a sum of constants and '
                             'locals)' % (what, locstr(n)))

        for n in nodes:
            k = n.get('kind')
            # ---- one byte
            if (k == 'ArraySubscriptExpr' or (k == 'UnaryOperator' and n.get('opcode') == '*')) and children(n):
                up = par.get(id(n))
                while up is not None and up.get('kind') == 'ParenExpr':
                    up = par.get(id(up))
                if up is not None and up.get('kind') == 'UnaryOperator' and up.get('opcode') == '&':
                    continue        # &p[i]: a position, not a read
                off = self._cursor_off(children(n)[0], env, tu)
                if off is None:
                    continue
                if off != 'stale' and k == 'ArraySubscriptExpr':
                    i = self._lin(children(n)[1], env, tu)
                    off = 'stale' if i is None else (off[0], lin_add(off[1], i))
                if off == 'stale':
                    lost(n, 'the byte read')
                    continue
                et = _bare(n.get('type'))
                if et not in U8_TYPES + S8_TYPES:
                    g.unknown.append('a %s is read in place through the cursor at %s: not one of the primitives' % (et, locstr(n)))
                    continue
                prim = 'uint8'
                if et in S8_TYPES:
                    conv = self._first_conversion(n, par)
                    if conv is None:
                        g.unknown.append('the byte read through a %s pointer at %s is kept as a %s: what number it stands for '
                                         'is decided where it is used, which the extractor does not follow' % (et, locstr(n), et))
                        continue
                    if conv != 'u8':
                        prim = 'int8'       # widened as a signed number: 128..255 arrive as -128..-1
                raw.reads.append((off[0], off[1], {'': 1}, ('prim', prim, dest if whole(n) else 'expr(read)'), locstr(n)))
                continue
            # ---- a range
            rng = tgt = None
            if k in ('CXXConstructExpr', 'CXXTemporaryObjectExpr') and RANGE_TYPES.search(n.get('type') or ''):
                args = [a for a in children(n) if a.get('kind') != 'CXXDefaultArgExpr']
                if len(args) == 2:
                    rng = self._range_of(args[0], args[1], env, tu)
                    tgt = dest if whole(n, ('CXXConstructExpr',)) else 'expr(range)'
            elif k == 'CXXMemberCallExpr' and len(children(n)) == 3 and \
                    strip(children(n)[0]).get('name') == 'assign' and children(strip(children(n)[0])):
                rng = self._range_of(children(n)[1], children(n)[2], env, tu)
                tgt = self.resolve(children(strip(children(n)[0]))[0], env, tu)
            else:
                cp = self._c_copy_args(n, tu)
                if cp is not None:
                    rng = self._range_of(cp[1], cp[2], env, tu)
                    tgt = self._data_of(cp[0], env, tu) or 'expr(copy)'
            if rng is None:
                continue
            if rng == 'stale':
                lost(n, 'the byte range')
                continue
            ln = lin_name(rng[2])
            if ln is None or (ln.startswith('const:') and int(ln[6:]) < 0):
                g.unknown.append('the byte range taken at %s has length %s, which is not one constant or one count'
                                 % (locstr(n), lin_show(rng[2])))
                continue
            raw.reads.append((rng[0], rng[1], rng[2], ('bytes', ln, tgt), locstr(n)))

    @staticmethod
    def _first_conversion(n, par):
        """The first integer conversion applied to the value read at n: 'u8' (to an unsigned 8-bit type: the byte
        as 0..255), 'other' (to any other type: the value of the signed char), None (none: it stays a char)."""
        p_ = par.get(id(n))
        while p_ is not None:
            k = p_.get('kind')
            if k == 'ParenExpr' or (k == 'ImplicitCastExpr' and p_.get('castKind') in ('LValueToRValue', 'NoOp')):
                p_ = par.get(id(p_))
                continue
            if k in ('ImplicitCastExpr', 'CXXStaticCastExpr', 'CStyleCastExpr', 'CXXFunctionalCastExpr'):
                t = _bare(p_.get('type'))
                if t in S8_TYPES:
                    p_ = par.get(id(p_))        # char -> signed char and the like: still the signed value
                    continue
                return 'u8' if t in U8_TYPES else 'other'
            return None
        return None

    def _dec_advance(self, e, target, env, f, g, out):
        """The cursor is set to (or returned as) `e` = cursor + n."""
        raw = env.get('__raw')
        off = self._cursor_off(e, env, f.tu)
        if raw is None or off is None or off == 'stale' or \
                (target is not None and (target.get('referencedDecl') or {}).get('id') != off[0]):
            g.unknown.append('the position %s at %s cannot be expressed as the cursor plus constants and locals'
                             % ('returned' if target is None else 'assigned', locstr(e)))
            if raw is not None:
                del raw.reads[:]
            return
        self._raw_moved(off[0], off[1], env, f, g, out, locstr(e))

    def _raw_moved(self, cid, adv, env, f, g, out, loc):
        """Cursor `cid` moves forward by `adv`: the accesses made in place since its last move must tile
        [0, adv) exactly; they become grammar items in the order of their offsets."""
        raw = env['__raw']
        reads, raw.reads = raw.reads, []
        raw.epoch += 1
        if not reads:
            nm = lin_name(adv)
            if nm is None:
                g.unknown.append('the cursor is moved by %s at %s' % (lin_show(adv), loc))
            elif nm.startswith('const:'):
                if int(nm[6:]) < 0:
                    g.unknown.append('the cursor is moved backwards at %s' % loc)
                elif int(nm[6:]):
                    out.append(('skip', int(nm[6:])))
            else:
                out.append(('bytes', nm, '?'))
            return
        pos = {}
        items = []
        while reads:
            here = [r for r in reads if r[0] == cid and r[1] == pos]
            if len(here) != 1:
                g.unknown.append('the bytes taken in place before the cursor moves at %s do not follow one another '
                                 'from the cursor on: %s at offset %s (%s)' % (
                                     loc, 'nothing' if not here else 'more than one access', lin_show(pos),
                                     ', '.join('%s+%s at %s' % (lin_show(r[1]), lin_show(r[2]), r[4]) for r in reads)))
                return
            reads.remove(here[0])
            items.append(here[0][3])
            pos = lin_add(pos, here[0][2])
        if pos != adv:
            g.unknown.append('the cursor moves by %s at %s but the bytes taken in place before cover %s'
                             % (lin_show(adv), loc, lin_show(pos)))
            return
        out.extend(items)

    def _raw_settled(self, env, g, where):
        raw = env.get('__raw')
        if raw is not None and raw.reads:
            g.unknown.append('bytes are taken in place through the cursor (%s) and the cursor is not moved over them '
                             'before %s' % (', '.join(r[4] for r in raw.reads), where))
            del raw.reads[:]

    def _dec_call(self, n, targets, env, f, g, out, depth):
        tu = f.tu
        d, nm = self.callee(n, tu)
        kind = self._consume_kind(n, tu)
        tgt = self.resolve(targets[0], env, tu) if targets else 'ignored'
        self._raw_settled(env, g, 'the cursor is handed on at %s' % locstr(n))
        if env.get('__raw') is not None:
            env['__raw'].epoch += 1
        if kind == 'prim':
            p = nm[len('decode_'):]
            if p in PRIMS:
                out.append(('prim', p, tgt))
                return
            out.append(('bytes', 'rest', tgt))
            return
        cf = self.repo_function(d, tu)
        if kind != 'helper' or depth > 3:
            g.unknown.append('call to %s at %s cannot be inlined' % (nm, locstr(n)))
            return
        self.inl = getattr(self, 'inl', 0) + 1
        env2 = {'__tag': '#%d' % self.inl, '__raw': RawFrame(), '__ret': tgt}
        # value and reference parameters stand for the caller's arguments
        for prm, a in zip(cf.params, children(n)[1:]):
            if is_cursor_type(prm.get('type')):
                continue
            env2[prm['id']] = self.resolve(a, env, tu)
        # the object the callee returns (next to the cursor) is the caller's target
        if targets:
            for r in walk(cf.body):
                if r.get('kind') == 'ReturnStmt':
                    comps = self._return_components(r)
                    if comps is not None:
                        # the first component next to the cursor, when it is a local (copied or moved)
                        vals = [c for c in comps if not is_cursor_type(c.get('type'))]
                        y = strip(vals[0], explicit=True) if vals else {}
                        for _ in range(4):
                            a = [c for c in children(y) if c.get('kind') != 'CXXDefaultArgExpr']
                            if y.get('kind') == 'CXXConstructExpr' and len(a) == 1:
                                y = strip(a[0], explicit=True)
                            elif y.get('kind') == 'CallExpr' and len(a) == 2 and \
                                    (strip(a[0]).get('referencedDecl') or {}).get('name') in ('move', 'forward'):
                                y = strip(a[1], explicit=True)
                            else:
                                break
                        scan = [y] if y.get('kind') == 'DeclRefExpr' else []
                    else:
                        scan = walk(r)
                    for y in scan:
                        if y.get('kind') == 'DeclRefExpr' and (y.get('referencedDecl') or {}).get('kind') == 'VarDecl':
                            vd = cf.tu.ids.get(y['referencedDecl']['id'])
                            if vd is not None and '*' not in (vd.get('type') or ''):
                                env2[vd['id']] = tgt
                                break
        self._dec_block(children(cf.body), env2, cf, g, out, depth + 1)
        self._raw_settled(env2, g, 'the end of %s' % cf.name)


# ---- normalisation ----------------------------------------------------------------
def normalise(items):
    items = [_norm_item(i) for i in items]
    out = []
    i = 0
    while i < len(items):
        it = items[i]
        # encoder label idiom: u8 size(X) ; repeat size(X) { u8 X[] }  ->  u8 size(X) ; bytes size(X) X
        if it[0] == 'repeat' and len(it[2]) == 1 and it[2][0][0] == 'prim' and it[2][0][1] == 'uint8' \
                and it[2][0][2].endswith('[]') and it[1] == 'size(%s)' % it[2][0][2][:-2]:
            out.append(('bytes', it[1], it[2][0][2][:-2]))
            i += 1
            continue
        # decoder label idiom: assign(n, X) ; bytes n ?   (possibly inside `if (n > 0)`)
        if it[0] == 'assign' and i + 1 < len(items) and items[i + 1][0] == 'bytes' and items[i + 1][2] == '?' \
                and items[i + 1][1] == it[1]:
            out.append(('bytes', it[1], it[2]))
            i += 2
            continue
        if it[0] == 'alt' and not it[3] and len(it[2]) == 1 and it[2][0][0] == 'bytes' and \
                _mentions(it[1], it[2][0][1]):
            out.append(it[2][0])
            i += 1
            continue
        # `if (!X.empty()) <the size(X) bytes of X>`: an empty X has no bytes, so the run is there on both arms
        if it[0] == 'alt' and not it[2] and len(it[3]) == 1 and it[3][0][0] == 'bytes' and \
                it[3][0][1].startswith('size(') and it[1] == 'call(empty %s)' % it[3][0][1][5:-1]:
            out.append(it[3][0])
            i += 1
            continue
        out.append(it)
        i += 1
    return out


def _mentions(cond, ln):
    return ln.replace('local:', '') in cond


def _norm_item(it):
    if it[0] == 'repeat':
        return ('repeat', it[1], normalise(it[2]))
    if it[0] == 'alt':
        return ('alt', it[1], normalise(it[2]), normalise(it[3]))
    return it


def rename_locals(g):
    """Decoder post-pass: a local that sizes a container / label is named
    after what it sizes: local:n -> size(X)."""
    ren = {}
    for kind, cont, src in g.notes:
        if kind == 'sized' and src.startswith('local:'):
            ren.setdefault(src, 'size(%s)' % cont)

    def scan(items):
        for it in items:
            if it[0] == 'bytes' and it[1].startswith('local:') and it[2] not in ('?',):
                ren.setdefault(it[1], 'size(%s)' % it[2])
            elif it[0] == 'repeat':
                scan(it[2])
            elif it[0] == 'alt':
                scan(it[2])
                scan(it[3])
    scan(g.items)
    # a local that must equal another (if (a != b) throw) carries the same value
    for kind, a, b in g.notes:
        if kind == 'equal':
            if a in ren and b.startswith('local:') and b not in ren:
                ren[b] = ren[a]
            elif b in ren and a.startswith('local:') and a not in ren:
                ren[a] = ren[b]

    def ap(items):
        out = []
        for it in items:
            if it[0] == 'prim':
                out.append(('prim', it[1], ren.get(it[2], it[2])))
            elif it[0] == 'bytes':
                out.append(('bytes', ren.get(it[1], it[1]), it[2]))
            elif it[0] == 'repeat':
                out.append(('repeat', ren.get(it[1], it[1]), ap(it[2])))
            elif it[0] == 'alt':
                out.append(('alt', it[1], ap(it[2]), ap(it[3])))
            else:
                out.append(it)
        return out
    g.items = ap(g.items)
    g.renames = ren
    return g


PAIRS = [
    ('v1 beat_data', ENG + 'v1::beat_data::encode', ENG + 'v1::beat_data::decode'),
    ('v1 high_res_waveform_data', ENG + 'v1::high_res_waveform_data::encode', ENG + 'v1::high_res_waveform_data::decode'),
    ('v1 loops_data', ENG + 'v1::loops_data::encode', ENG + 'v1::loops_data::decode'),
    ('v1 overview_waveform_data', ENG + 'v1::overview_waveform_data::encode', ENG + 'v1::overview_waveform_data::decode'),
    ('v1 quick_cues_data', ENG + 'v1::quick_cues_data::encode', ENG + 'v1::quick_cues_data::decode'),
    ('v1 track_data', ENG + 'v1::track_data::encode', ENG + 'v1::track_data::decode'),
    ('v2 beat_data_blob', ENG + 'v2::beat_data_blob::to_blob', ENG + 'v2::beat_data_blob::from_blob'),
    ('v2 loops_blob', ENG + 'v2::loops_blob::to_blob', ENG + 'v2::loops_blob::from_blob'),
    ('v2 overview_waveform_data_blob', ENG + 'v2::overview_waveform_data_blob::to_blob', ENG + 'v2::overview_waveform_data_blob::from_blob'),
    ('v2 quick_cues_blob', ENG + 'v2::quick_cues_blob::to_blob', ENG + 'v2::quick_cues_blob::from_blob'),
    ('v2 track_data_blob', ENG + 'v2::track_data_blob::to_blob', ENG + 'v2::track_data_blob::from_blob'),
]


def all_grammars(prog):
    ex = Extractor(prog)
    out = []
    for name, e, d in PAIRS:
        ge = ex.encoder(prog.func(e))
        gd = rename_locals(ex.decoder(prog.func(d)))
        out.append((name, ge, gd))
    return out


# ---- primitives (L1) ------------------------------------------------------------------
def _ex(n):
    return strip(n, explicit=True)


def _int(n):
    n = _ex(n)
    if n.get('kind') == 'IntegerLiteral':
        return int(n['value'])
    return None


def _refid(n):
    n = _ex(n)
    if n.get('kind') == 'DeclRefExpr':
        return (n.get('referencedDecl') or {}).get('id')
    return None


def _value_shift(e, vid):
    """e is `v`, `v & 0xFF`, `(v >> s) & 0xFF`, `v >> s` -> s; else None."""
    e = _ex(e)
    if e.get('kind') == 'BinaryOperator' and e.get('opcode') == '&':
        c = children(e)
        if _int(c[1]) == 0xFF:
            return _value_shift(c[0], vid)
        return None
    if e.get('kind') == 'BinaryOperator' and e.get('opcode') == '>>':
        c = children(e)
        if _refid(c[0]) == vid and _int(c[1]) is not None:
            return _int(c[1])
        return None
    if _refid(e) == vid:
        return 0
    return None


def _byte_terms(e, pid, out):
    """Collect (index, shift) from an |-tree of casts of (uint8(ptr[i]) << s)."""
    e = _ex(e)
    if e.get('kind') == 'BinaryOperator' and e.get('opcode') == '|':
        c = children(e)
        return _byte_terms(c[0], pid, out) and _byte_terms(c[1], pid, out)
    sh = 0
    if e.get('kind') == 'BinaryOperator' and e.get('opcode') == '<<':
        c = children(e)
        sh = _int(c[1])
        if sh is None:
            return False
        e = _ex(c[0])
    if e.get('kind') == 'CallExpr' and len(children(e)) == 2 and \
            (strip(children(e)[0]).get('referencedDecl') or {}).get('name') == 'to_integer':
        e = _ex(children(e)[1])       # std::to_integer<T>(ptr[i]) is the byte, zero-extended
    if e.get('kind') == 'ArraySubscriptExpr':
        c = children(e)
        if _refid(c[0]) == pid and _int(c[1]) is not None:
            out.append((_int(c[1]), sh))
            return True
    return False


def _var_terms(e, out):
    """|-tree of casts of (var << s): collect (var id, shift)."""
    e = _ex(e)
    if e.get('kind') == 'BinaryOperator' and e.get('opcode') == '|':
        c = children(e)
        return _var_terms(c[0], out) and _var_terms(c[1], out)
    sh = 0
    if e.get('kind') == 'BinaryOperator' and e.get('opcode') == '<<':
        c = children(e)
        sh = _int(c[1])
        if sh is None:
            return False
        e = _ex(c[0])
    r = _refid(e)
    if r is not None:
        out.append((r, sh))
        return True
    return False


def _unshifted_sign_extended(e):
    """In an |-tree that combines 32-bit halves into a 64-bit value: is a half that is not shifted (the low
    half) widened from a signed 32-bit variable without passing through an unsigned 32-bit type?  Then its
    sign bit is copied into the upper 32 bits and overwrites the other half.  -> name of the variable or None."""
    e0 = e
    e = _ex(e)
    if e.get('kind') == 'BinaryOperator' and e.get('opcode') == '|':
        for c in children(e):
            r = _unshifted_sign_extended(c)
            if r:
                return r
        return None
    if e.get('kind') == 'BinaryOperator' and e.get('opcode') == '<<':
        return None
    if e.get('kind') != 'DeclRefExpr':
        return None
    vt = (e.get('type') or '')
    if 'unsigned' in vt or vt.lstrip('std::').startswith('uint'):
        return None
    # the wrappers between the |-operand and the variable, outermost first
    n = e0
    types = []
    while isinstance(n, dict) and n is not e and len(children(n)) == 1:
        types.append(n.get('type') or '')
        n = children(n)[0]
    for t in types:
        t2 = t.replace('std::', '').strip()
        if t2 in ('uint32_t', 'unsigned int', 'uint_least32_t', '__uint32_t'):
            return None
    if any(('64' in t or 'long' in t) for t in types):
        return (e.get('referencedDecl') or {}).get('name') or '?'
    return None


def _ret_advance(f, pid):
    """Return statements: the pointer component is ptr (+ k)."""
    ks = []
    for n in walk(f.body):
        if n.get('kind') != 'ReturnStmt':
            continue
        found = None
        for x in walk(n):
            if x.get('kind') == 'BinaryOperator' and x.get('opcode') == '+':
                c = children(x)
                if _refid(c[0]) == pid and _int(c[1]) is not None:
                    found = _int(c[1])
        if found is None:
            # plain `ptr`
            if any(_refid(x) == pid for x in walk(n) if x.get('kind') == 'DeclRefExpr'):
                found = 0
        ks.append(found)
    return ks


def _calls(f, prefix):
    out = []
    for n in walk(f.body):
        if n.get('kind') == 'CallExpr':
            nm = (strip(children(n)[0]).get('referencedDecl') or {}).get('name') or ''
            if nm.startswith(prefix):
                out.append((nm, n))
    return out


def primitive_facts(prog):
    """-> {funcname: (ok, description)} for the 14 encode_/decode_ primitives."""
    res = {}
    for p in PRIMS:
        for side in ('encode', 'decode'):
            name = '%s_%s' % (side, p)
            fs = [f for f in prog.by_name(ENG + name) if f.body is not None]
            if len(fs) != 1:
                res[name] = (None, 'definition not found (%d)' % len(fs))
                continue
            f = fs[0]
            try:
                res[name] = _prim_check(f, p, side, prog)
            except (IndexError, KeyError, TypeError) as e:
                res[name] = (None, 'construct outside the recognised forms: %r' % e)
            res[name] = res[name] + (f,)
    return res


def _prim_check(f, p, side, prog=None):
    params = {x.get('name'): x['id'] for x in f.params}
    pid = [x['id'] for x in f.params if (x.get('type') or '').strip().endswith('*')]
    if len(pid) != 1:
        return (None, 'no unique pointer parameter')
    pid = pid[0]
    vid = [x['id'] for x in f.params if not (x.get('type') or '').strip().endswith('*')]
    vid = vid[0] if vid else None
    width = WIDTH[p]
    endian = 'le' if p.endswith('_le') else ('be' if p.endswith('_be') else None)
    if p == 'uint8':
        adv = _ret_advance(f, pid)
        if adv != [1]:
            return (False, 'returns ptr + %s, expected ptr + 1' % adv)
        derefs = [n for n in walk(f.body) if n.get('kind') == 'UnaryOperator' and n.get('opcode') == '*'
                  and _refid(children(n)[0]) == pid]
        if len(derefs) != 1:
            return (False, 'expected exactly one access to *ptr')
        if side == 'encode':
            asg = [n for n in walk(f.body) if n.get('kind') == 'BinaryOperator' and n.get('opcode') == '=']
            if len(asg) != 1 or _refid(children(asg[0])[1]) != vid:
                return (False, '*ptr is not assigned from the value parameter')
        return (True, 'byte at offset 0, advance 1')
    if p.startswith('int32'):
        want = {(i, 8 * i if endian == 'le' else 8 * (3 - i)) for i in range(4)}
        if side == 'encode':
            got = set()
            for n in walk(f.body):
                if n.get('kind') == 'BinaryOperator' and n.get('opcode') == '=':
                    c = children(n)
                    l = _ex(c[0])
                    if l.get('kind') == 'ArraySubscriptExpr' and _refid(children(l)[0]) == pid:
                        i = _int(children(l)[1])
                        s = _value_shift(c[1], vid)
                        if i is None or s is None:
                            return (None, 'unrecognised byte store at %s' % locstr(n))
                        got.add((i, s))
        else:
            terms = []
            vds = [n for n in walk(f.body) if n.get('kind') == 'VarDecl']
            ok = False
            for vd in vds:
                init = [x for x in children(vd) if not x['kind'].endswith('Attr')]
                if init:
                    terms = []
                    if _byte_terms(init[-1], pid, terms):
                        ok = True
                        break
            if not ok:
                # maybe directly in the return
                for n in walk(f.body):
                    if n.get('kind') == 'ReturnStmt':
                        for x in walk(n):
                            if x.get('kind') == 'BinaryOperator' and x.get('opcode') == '|':
                                terms = []
                                if _byte_terms(x, pid, terms):
                                    ok = True
                                    break
            if not ok:
                return (None, 'value is not an |-combination of shifted bytes')
            got = set(terms)
        adv = _ret_advance(f, pid)
        if got != want:
            return (False, 'byte/shift map %s, expected %s (%s-endian)' % (sorted(got), sorted(want), endian))
        if adv != [4]:
            return (False, 'returns ptr + %s, expected ptr + 4' % adv)
        return (True, 'bytes %s, advance 4' % sorted(got))
    if p.startswith('int64'):
        sub = '%s_int32_%s' % (side, endian)
        calls = _calls(f, side + '_')
        if [c[0] for c in calls] != [sub, sub]:
            return (False, 'expected two calls to %s, found %s' % (sub, [c[0] for c in calls]))
        want = [0, 32] if endian == 'le' else [32, 0]
        if side == 'encode':
            shifts = [_value_shift(children(c[1])[1], vid) for c in calls]
            if shifts != want:
                return (False, 'halves are written with shifts %s, expected %s (%s-endian)' % (shifts, want, endian))
            # each call threads ptr: ptr = encode(.., ptr)
            return (True, 'two int32 halves, shifts %s' % shifts)
        # decode: targets of the two tie-assignments in order, then combination
        targets = []
        chain = []      # (cursor read, cursor produced) per structured binding
        for n in walk(f.body):
            if n.get('kind') == 'CallExpr' and (strip(children(n)[0]).get('referencedDecl') or {}).get('name') == 'tie':
                targets.append(_refid(children(n)[1]))
            elif n.get('kind') == 'DecompositionDecl':
                # auto [half, next] = decode_int32_xx(cursor);
                b = [x for x in children(n) if x.get('kind') == 'BindingDecl']
                mine = [c for c in calls if any(c[1] is y for y in walk(n))]
                if len(b) == 2 and mine:
                    targets.append(b[0].get('id'))
                    chain.append((_refid(children(mine[0][1])[1]), b[1].get('id')))
        terms = []
        ok = False
        for vd in [n for n in walk(f.body) if n.get('kind') == 'VarDecl']:
            init = [x for x in children(vd) if not x['kind'].endswith('Attr')]
            if init:
                terms = []
                if _var_terms(init[-1], terms) and len(terms) == 2:
                    ok = True
                    break
        if not ok or len(targets) != 2:
            return (None, 'combination of the two halves not recognised')
        sx = _unshifted_sign_extended(init[-1])
        if sx:
            return (False, 'the unshifted half `%s` (a signed 32-bit value) is widened to 64 bits without passing '
                           'through an unsigned 32-bit type: its sign bit is copied into the upper half and '
                           'overwrites the other word' % sx)
        if chain:
            # each half is read where the previous read ended, and the cursor after the second is returned
            rets = [_refid(y) for n in walk(f.body) if n.get('kind') == 'ReturnStmt' for y in walk(n)
                    if y.get('kind') == 'DeclRefExpr']
            if len(chain) != 2 or chain[0][0] != pid or chain[1][0] != chain[0][1] or chain[1][1] not in rets:
                return (False, 'the two halves are not read one after the other from the cursor that is returned')
        m = dict(terms)
        got = [m.get(targets[0]), m.get(targets[1])]
        if got != want:
            return (False, 'halves are combined with shifts %s (in read order), expected %s (%s-endian)' % (got, want, endian))
        return (True, 'two int32 halves, shifts %s' % got)
    if p.startswith('double'):
        sub = '%s_int64_%s' % (side, endian)
        calls = _calls(f, side + '_')
        if [c[0] for c in calls] != [sub]:
            return (False, 'expected one call to %s, found %s' % (sub, [c[0] for c in calls]))
        # the bit pattern is carried over by one memcpy of 8 bytes, in the primitive itself or in a
        # repository helper it calls for the conversion
        bodies = [f.body]
        if prog is not None:
            for n in walk(f.body):
                if n.get('kind') == 'CallExpr' and not any(n is c[1] for c in calls):
                    ref = strip(children(n)[0]).get('referencedDecl') or {}
                    d = f.tu.ids.get(ref.get('id'))
                    for t in (prog.definitions_for(f.tu, d) if d is not None else []):
                        if t.body is not None and prog.in_repo(t.file):
                            bodies.append(t.body)
        mem = [n for b in bodies for n in walk(b) if n.get('kind') == 'CallExpr'
               and (strip(children(n)[0]).get('referencedDecl') or {}).get('name') == 'memcpy']
        def _size_of(n):
            v = _int(n)
            if v is None:
                x = _ex(n)
                if x.get('kind') == 'DeclRefExpr':
                    d = f.tu.ids.get((x.get('referencedDecl') or {}).get('id'))
                    if d is not None and d.get('kind') == 'VarDecl' and (d.get('constexpr') or 'const' in (d.get('type') or '')):
                        from .program import literal_value as _lv
                        v = _lv(d)
                elif x.get('kind') == 'UnaryExprOrTypeTraitExpr' and x.get('name') == 'sizeof':
                    t = (x.get('argType') or {}).get('qualType') or ''
                    v = 8 if t.replace('const ', '').strip() in ('double', 'int64_t', 'std::int64_t', 'long', 'long long') else None
            return v
        if len(mem) != 1 or _size_of(children(mem[0])[3]) != 8:
            return (False, 'expected one memcpy of 8 bytes between the double and the int64')
        types = sorted(re.sub(r'\s*\*$', '', (strip(a, explicit=True).get('type') or '').replace('const ', '')).strip()
                       for a in children(mem[0])[1:3])
        if not (types[0] == 'double' and types[1] in ('int64_t', 'long', 'long long')):
            return (False, 'the memcpy is not between a double and an int64 (%s)' % types)
        return (True, 'bit pattern via memcpy(8) and %s' % sub)
    return (None, 'unknown primitive')


# ---- matching grammars -----------------------------------------------------------------
def linearise(items):
    """All alternatives of a grammar with `alt` resolved and constant repeats
    expanded -> list of item lists (repeat items keep a list of linearised bodies)."""
    outs = [[]]
    for it in items:
        if it[0] == 'alt':
            new = []
            for arm in (it[2], it[3]):
                for la in linearise(arm):
                    for o in outs:
                        new.append(o + la)
            outs = new
        elif it[0] == 'repeat' and it[1].startswith('const:'):
            k = int(it[1][6:])
            bodies = linearise(it[2])
            new = []
            for b in bodies:
                for o in outs:
                    new.append(o + b * k)
            outs = new
        elif it[0] == 'repeat':
            bodies = linearise(it[2])
            outs = [o + [('repeat', it[1], bodies)] for o in outs]
        else:
            outs = [o + [it] for o in outs]
    return outs


def is_plain(field):
    return field is not None and not field.startswith(('local:', 'const:', 'expr', 'cond(', 'call(', 'ctor', 'phi(')) \
        and field not in ('ignored', '?', 'index')


def match_spec(spec_items, lin, strict_fields, side):
    """Compare one linearisation with the layout table.  -> list of messages."""
    msgs = []
    i = j = 0
    S = spec_items
    while i < len(S) or j < len(lin):
        s = S[i] if i < len(S) else None
        g = lin[j] if j < len(lin) else None
        if s is not None and s[0] == 'trailing_zeros':
            if g is not None and g[0] == 'bytes' and g[2] == 'trailing':
                j += 1
            i += 1
            continue
        if g is not None and g[0] == 'bytes' and g[2] == 'trailing':
            msgs.append('consumes trailing bytes where the layout has none')
            j += 1
            continue
        if s is None:
            msgs.append('emits/consumes %s beyond the end of the layout' % (g,))
            break
        if g is None:
            msgs.append('ends before layout item #%d %s' % (i, s))
            break
        if g[0] == 'skip':
            n = g[1]
            while n > 0 and i < len(S) and S[i][0] == 'prim':
                n -= WIDTH[S[i][1]]
                i += 1
            if n != 0:
                msgs.append('skips %d byte(s), which does not cover whole layout items' % g[1])
            j += 1
            continue
        if s[0] == 'prim':
            if g[0] != 'prim':
                msgs.append('layout item #%d is %s %s but the code has %s' % (i, s[1], s[2], g))
                break
            if g[1] != s[1]:
                msgs.append('layout item #%d (%s) is %s but the code uses %s' % (i, s[2] or 'unnamed', s[1], g[1]))
            elif s[2] is not None and g[2] != s[2]:
                if is_plain(g[2]) or strict_fields:
                    msgs.append('layout item #%d carries %s but the code %s %s there' % (
                        i, s[2], 'writes' if side == 'enc' else 'reads into', g[2]))
            elif s[2] is None and is_plain(g[2]) and side == 'enc' and False:
                pass
            i += 1
            j += 1
            continue
        if s[0] == 'bytes':
            if g[0] != 'bytes' and s[1] != 'rest' and j > 0 and lin[j - 1][0] == 'prim' and \
                    lin[j - 1][2] == 'const:0' and i > 0 and S[i - 1][0] == 'prim' and S[i - 1][2] == s[1]:
                i += 1      # length written as literal 0: the byte run is empty
                continue
            if g[0] != 'bytes':
                msgs.append('layout item #%d is a byte run (%s) but the code has %s' % (i, s[2], g))
                break
            if g[2] != s[2]:
                msgs.append('byte run #%d carries %s but the code uses %s' % (i, s[2], g[2]))
            if s[1] != 'rest' and g[1] != s[1]:
                msgs.append('byte run %s has length %s, layout says %s' % (s[2], g[1], s[1]))
            i += 1
            j += 1
            continue
        if s[0] == 'repeat':
            if g[0] != 'repeat':
                msgs.append('layout item #%d is a repeat group over %s but the code has %s' % (i, s[1], g))
                break
            if g[1] != 'size(%s)' % s[1]:
                msgs.append('repeat group over %s is counted by %s' % (s[1], g[1]))
            for body in g[2]:
                for m in match_spec(s[2], body, strict_fields, side):
                    msgs.append('in group %s: %s' % (s[1], m))
            i += 1
            j += 1
            continue
        msgs.append('unknown layout item %r' % (s,))
        break
    return msgs


def to_spec(lin):
    """Turn an encoder linearisation into layout-table form (for S1)."""
    out = []
    for it in lin:
        if it[0] == 'prim':
            out.append(['prim', it[1], it[2] if is_plain(it[2]) else None])
        elif it[0] == 'bytes':
            out.append(['bytes', 'rest' if it[2] == 'extra_data' else it[1], it[2]])
        elif it[0] == 'repeat':
            cont = it[1][5:-1] if it[1].startswith('size(') else it[1]
            # bodies of an encoder repeat: use the first (alts inside repeats are
            # compared arm by arm by the caller)
            out.append(['repeat', cont, [to_spec(b) for b in it[2]]])
        else:
            out.append(list(it))
    return out
