"""Emission / consumption grammars of the blob codecs, read from the AST.

A grammar is a list of items
  ('prim', P, field)            P in uint8 int32_le int32_be int64_le int64_be double_le double_be
  ('bytes', length_src, field)  raw byte run
  ('repeat', count_src, [items])
  ('alt', cond, [items], [items])
  ('skip', n)
with framing 'z' (length prefix + deflate) or 'raw'.
Fields are access paths relative to the blob struct ('quick_cues[].color.a').
"""
import re

from .frontend import AnalysisBroken
from .program import children, strip, walk, locstr, literal_value

PRIMS = ('uint8', 'int32_le', 'int32_be', 'int64_le', 'int64_be', 'double_le', 'double_be')
WIDTH = {'uint8': 1, 'int32_le': 4, 'int32_be': 4, 'int64_le': 8, 'int64_be': 8,
         'double_le': 8, 'double_be': 8}
ENG = 'djinterop::engine::'

# std algorithms that write a run of bytes through an output cursor and return the advanced cursor
STD_FILL = ('fill_n',)
STD_COPY = ('transform', 'copy')
# std algorithms that read every element of [first, last) without storing any
STD_SCAN = ('any_of', 'all_of', 'none_of', 'find_if', 'find_if_not', 'find', 'count', 'count_if', 'for_each')


def is_cursor_type(t):
    """std::byte * / const std::byte * (possibly const-qualified itself): a position in a blob."""
    t = re.sub(r'\s*const$', '', (t or '').strip())
    return t.endswith('*') and 'byte' in t


def carries_cursor(t):
    """The type is a cursor or a pair / tuple one component of which is a cursor."""
    t = t or ''
    return is_cursor_type(t) or bool(re.search(r'byte \*\s*(const)?\s*[>,]', t))


def _leaves_block(s):
    """The statement ends by leaving the enclosing block (continue / break / return)."""
    while s.get('kind') == 'CompoundStmt' and children(s):
        s = children(s)[-1]
    return s.get('kind') in ('ContinueStmt', 'BreakStmt', 'ReturnStmt')


class Grammar:
    def __init__(self, func, side):
        self.func = func
        self.side = side          # 'enc' / 'dec'
        self.items = []
        self.framing = None
        self.notes = []
        self.unknown = []
        self.alloc = None         # encoder: allocation size expression node
        self.locs = {}

    def flat(self):
        return flatten(self.items)


def flatten(items, prefix=''):
    out = []
    for it in items:
        if it[0] == 'repeat':
            out.append('%srepeat %s {' % (prefix, it[1]))
            out += flatten(it[2], prefix + '  ')
            out.append(prefix + '}')
        elif it[0] == 'alt':
            out.append('%salt %s {' % (prefix, it[1]))
            out += flatten(it[2], prefix + '  ')
            out.append(prefix + '} else {')
            out += flatten(it[3], prefix + '  ')
            out.append(prefix + '}')
        else:
            out.append(prefix + ' '.join(str(x) for x in it))
    return out


class Extractor:
    def __init__(self, prog):
        self.prog = prog

    # ---- naming -------------------------------------------------------------
    def resolve(self, n, env, tu):
        n = strip(n, explicit=True)
        k = n.get('kind')
        if k == 'MemberExpr':
            c = children(n)
            if not c:
                return n.get('name')
            b = strip(c[0], explicit=True)
            if b.get('kind') == 'CXXThisExpr':
                return n.get('name')
            base = self.resolve(b, env, tu)
            if base == '':
                return n.get('name')
            return '%s.%s' % (base, n.get('name'))
        if k == 'DeclRefExpr':
            ref = n.get('referencedDecl') or {}
            rid = ref.get('id')
            if rid in env:
                return env[rid]
            if ref.get('name') == 'ignore':
                return 'ignored'
            if ref.get('kind') == 'EnumConstantDecl':
                return 'const:%s' % ref.get('name')
            return 'local:%s%s' % (ref.get('name'), env.get('__tag', ''))
        if k == 'CXXThisExpr':
            return ''
        if k in ('IntegerLiteral', 'FloatingLiteral', 'CXXBoolLiteralExpr'):
            return 'const:%s' % n.get('value')
        if k == 'UnaryOperator':
            c = children(n)
            if n.get('opcode') == '-' and strip(c[0]).get('kind') in ('IntegerLiteral', 'FloatingLiteral'):
                return 'const:-%s' % strip(c[0]).get('value')
            if n.get('opcode') in ('*', '&'):
                return self.resolve(c[0], env, tu)
            return 'expr(%s%s)' % (n.get('opcode'), self.resolve(c[0], env, tu))
        if k == 'ArraySubscriptExpr':
            return self.resolve(children(n)[0], env, tu) + '[]'
        if k == 'CXXOperatorCallExpr':
            c = children(n)
            op = (strip(c[0]).get('referencedDecl') or {}).get('name', '')
            if op == 'operator[]':
                return self.resolve(c[1], env, tu) + '[]'
            if op in ('operator*', 'operator->'):
                return self.resolve(c[1], env, tu)
            return 'expr(%s)' % ','.join(self.resolve(x, env, tu) for x in c[1:])
        if k == 'CXXMemberCallExpr':
            callee = strip(children(n)[0])
            nm = callee.get('name')
            obj = children(callee)[0] if children(callee) else None
            if nm in ('size', 'length') and obj is not None:
                return 'size(%s)' % self.resolve(obj, env, tu)
            if nm in ('value_or', 'value') and obj is not None:
                return self.resolve(obj, env, tu)
            if nm == 'count' and obj is not None:
                return self.resolve(obj, env, tu)
            return 'call(%s)' % nm
        if k in ('CXXConstructExpr', 'CXXTemporaryObjectExpr', 'InitListExpr'):
            c = [x for x in children(n) if x.get('kind') != 'CXXDefaultArgExpr']
            if len(c) == 1:
                return self.resolve(c[0], env, tu)
            return 'ctor'
        if k == 'ConditionalOperator':
            c = children(n)
            return 'cond(%s?%s:%s)' % tuple(self.resolve(x, env, tu) for x in c)
        if k == 'BinaryOperator':
            c = children(n)
            return 'expr(%s%s%s)' % (self.resolve(c[0], env, tu), n.get('opcode'), self.resolve(c[1], env, tu))
        if k == 'CallExpr':
            d, nm = self.callee(n, tu)
            args = children(n)[1:]
            if nm in ('move', 'forward') and args:
                return self.resolve(args[0], env, tu)
            if nm in ('to_integer',) and args:
                return self.resolve(args[0], env, tu)
            return 'call(%s)' % nm
        return 'expr:%s' % k

    def callee(self, n, tu):
        c = children(n)
        callee = strip(c[0]) if c else {}
        ref = callee.get('referencedDecl') or {}
        if callee.get('kind') == 'MemberExpr':
            return tu.ids.get(callee.get('referencedMemberDecl')), callee.get('name')
        return tu.ids.get(ref.get('id')), ref.get('name')

    def repo_function(self, d, tu):
        if d is None:
            return None
        defs = self.prog.definitions_for(tu, d)
        return defs[0] if len(defs) == 1 else None

    # ---- encoders --------------------------------------------------------------
    def encoder(self, f):
        g = Grammar(f, 'enc')
        env = {}
        self._enc_block(children(f.body), env, f, g, g.items, 0)
        # allocation: std::vector<std::byte> uncompressed(N)
        for n in walk(f.body):
            if n.get('kind') == 'VarDecl' and 'vector<std::byte>' in (n.get('type') or '').replace(' ', '') \
                    or n.get('kind') == 'VarDecl' and 'std::vector<std::byte>' in (n.get('type') or ''):
                init = [x for x in children(n) if not x['kind'].endswith('Attr')]
                if init and strip(init[-1]).get('kind') == 'CXXConstructExpr':
                    args = [a for a in children(strip(init[-1])) if a.get('kind') != 'CXXDefaultArgExpr']
                    if len(args) == 1:
                        g.alloc = args[0]
                        g.alloc_var = n
                break
        self._framing(f, g, 'zlib_compress')
        g.items = normalise(g.items)
        return g

    def _framing(self, f, g, zname):
        fr = None
        for n in walk(f.body):
            if n.get('kind') == 'CallExpr':
                d, nm = self.callee(n, f.tu)
                if nm == zname:
                    fr = 'z'
        g.framing = fr or 'raw'

    def _assigned(self, f):
        """ids of the locals of f that are written after their declaration."""
        key = id(f.body)
        cache = self.__dict__.setdefault('_assigned_cache', {})
        if key not in cache:
            ids = set()
            for n in walk(f.body):
                k = n.get('kind')
                tgt = None
                if k in ('BinaryOperator', 'CompoundAssignOperator') and (n.get('opcode') or '').endswith('=') \
                        and n.get('opcode') not in ('==', '!=', '<=', '>='):
                    tgt = children(n)[0]
                elif k == 'UnaryOperator' and n.get('opcode') in ('++', '--'):
                    tgt = children(n)[0]
                elif k == 'CXXOperatorCallExpr':
                    c = children(n)
                    nm = (strip(c[0]).get('referencedDecl') or {}).get('name') if c else None
                    if nm in ('operator=', 'operator+=', 'operator-=', 'operator++', 'operator--') and len(c) > 1:
                        tgt = c[1]
                if tgt is not None:
                    t = strip(tgt, explicit=True)
                    if t.get('kind') == 'DeclRefExpr':
                        ids.add((t.get('referencedDecl') or {}).get('id'))
            cache[key] = ids
        return cache[key]

    def _phi(self, d, f, env):
        """Name of a local that is assigned after its declaration: every value it can hold."""
        vals = []
        env2 = dict(env)
        env2[d['id']] = 'local:%s' % d.get('name')
        init = [x for x in children(d) if not x['kind'].endswith('Attr')]
        if init:
            vals.append(self.resolve(init[-1], env2, f.tu))
        for n in walk(f.body):
            if n.get('kind') == 'BinaryOperator' and n.get('opcode') == '=':
                l = strip(children(n)[0], explicit=True)
                if l.get('kind') == 'DeclRefExpr' and (l.get('referencedDecl') or {}).get('id') == d['id']:
                    v = self.resolve(children(n)[1], env2, f.tu)
                    if v not in vals:
                        vals.append(v)
        return 'phi(%s)' % '|'.join(vals)

    def _alt(self, cond, t, e, env, tu):
        """alt item; `if (!X) A else B` is `if (X) B else A`."""
        c = strip(cond, explicit=True)
        if c.get('kind') == 'UnaryOperator' and c.get('opcode') == '!':
            return ('alt', self.resolve(children(c)[0], env, tu), e, t)
        return ('alt', self.resolve(cond, env, tu), t, e)

    def _enc_block(self, stmts, env, f, g, out, depth):
        for i, s in enumerate(stmts):
            if s.get('kind') == 'IfStmt':
                c = children(s)
                if len(c) == 2 and _leaves_block(c[1]) and self._has_encode(c[1], f.tu):
                    # the then-branch leaves the block: the rest of the block is the else arm
                    t, e = [], []
                    self._enc_stmt(c[1], dict(env), f, g, t, depth)
                    self._enc_block(stmts[i + 1:], env, f, g, e, depth)
                    out.append(self._alt(c[0], t, e, env, f.tu))
                    return
            self._enc_stmt(s, env, f, g, out, depth)

    def _enc_stmt(self, s, env, f, g, out, depth):
        k = s.get('kind')
        tu = f.tu
        if k == 'CompoundStmt':
            self._enc_block(children(s), env, f, g, out, depth)
            return
        if k == 'DeclStmt':
            for d in children(s):
                if d.get('kind') == 'VarDecl':
                    init = [x for x in children(d) if not x['kind'].endswith('Attr')]
                    t = d.get('type') or ''
                    if '*' in t or 'vector' in t:
                        if init and self._has_encode(init[-1], tu):
                            for n in self._encode_calls(init[-1], tu):
                                self._enc_call(n, env, f, g, out, depth)
                        continue
                    if d['id'] in self._assigned(f):
                        env[d['id']] = self._phi(d, f, env)
                    elif init and not self._has_encode(init[-1], tu):
                        env[d['id']] = self.resolve(init[-1], env, tu)
            return
        if k == 'CXXForRangeStmt':
            inner = s.get('inner', [])
            body = inner[-1]
            lv = children(inner[-2])[0] if inner[-2].get('kind') == 'DeclStmt' else None
            rng = inner[1]
            cont = None
            if rng.get('kind') == 'DeclStmt':
                vd = children(rng)[0]
                init = children(vd)
                cont = self.resolve(init[-1], env, tu) if init else None
            if not self._has_encode(body, tu):
                return
            env2 = dict(env)
            if lv is not None:
                env2[lv['id']] = '%s[]' % cont
            sub = []
            self._enc_stmt(body, env2, f, g, sub, depth)
            out.append(('repeat', 'size(%s)' % cont, sub))
            return
        if k == 'ForStmt':
            inner = s.get('inner', []) + [{}] * 5
            init, _, cond, inc, body = inner[:5]
            if not self._has_encode(body, tu):
                return
            env2 = dict(env)
            cnt = '?'
            cn = strip(cond) if cond.get('kind') else {}
            if cn.get('kind') == 'BinaryOperator' and cn.get('opcode') in ('<', '!='):
                cc = children(cn)
                cnt = self.resolve(cc[1], env, tu)
                iv = strip(cc[0], explicit=True)
                if iv.get('kind') == 'DeclRefExpr':
                    env2[iv['referencedDecl']['id']] = 'index'
            sub = []
            self._enc_stmt(body, env2, f, g, sub, depth)
            out.append(('repeat', cnt, sub))
            return
        if k == 'IfStmt':
            c = children(s)
            if not any(self._has_encode(x, tu) for x in c[1:]):
                return
            t, e = [], []
            self._enc_stmt(c[1], dict(env), f, g, t, depth)
            if len(c) > 2:
                self._enc_stmt(c[2], dict(env), f, g, e, depth)
            out.append(self._alt(c[0], t, e, env, tu))
            return
        if k in ('WhileStmt', 'DoStmt', 'SwitchStmt', 'CXXTryStmt'):
            if self._has_encode(s, tu):
                g.unknown.append('encode call inside %s at %s' % (k, locstr(s)))
            return
        # expression statements: ptr = encode_X(v, ptr) / return encode_X(v, ptr)
        for n in self._encode_calls(s, tu):
            self._enc_call(n, env, f, g, out, depth)

    def _has_encode(self, n, tu):
        return any(True for _ in self._encode_calls(n, tu))

    def _emit_kind(self, n, tu):
        """What a call does with an output cursor it is given: 'prim' (one of the fixed-width primitives
        L1 checks, or encode_extra), 'fill' / 'copy' (std algorithm writing through the cursor), 'helper'
        (repository function that takes the cursor and returns the advanced one), 'opaque' (takes and
        returns a cursor but its body is not available); None = not an emitting call."""
        if n.get('kind') != 'CallExpr':
            return None
        args = children(n)[1:]
        if not is_cursor_type(n.get('type')) or 'const std::byte' in (n.get('type') or '') or \
                not any(is_cursor_type(a.get('type')) for a in args):
            return None
        d, nm = self.callee(n, tu)
        nm = nm or ''
        if nm.startswith('encode_') and (nm[7:] in PRIMS or nm[7:] == 'extra'):
            return 'prim'
        qn = tu.qn.get(d['id'], '') if d is not None else ''
        if nm in STD_FILL and (qn.startswith('std::') or not qn):
            return 'fill'
        if nm in STD_COPY and (qn.startswith('std::') or not qn):
            return 'copy'
        cf = self.repo_function(d, tu)
        if cf is not None and cf.body is not None:
            return 'helper'
        return 'opaque'

    def _encode_calls(self, n, tu):
        """Outermost emitting calls in n (document order)."""
        k = n.get('kind')
        if k == 'CallExpr' and self._emit_kind(n, tu):
            # nested emitting calls in arguments come first (evaluation order of
            # `encode(a, encode(b, ptr))` is inner first)
            for a in children(n)[1:]:
                for x in self._encode_calls(a, tu):
                    yield x
            yield n
            return
        if k == 'LambdaExpr':
            return
        for c in children(n):
            for x in self._encode_calls(c, tu):
                yield x

    def _range_container(self, first, last, env, tu):
        """X for the iterator pair (X.begin(), X.end()) / (begin(X), end(X)); None otherwise."""
        names = []
        for it_, want in ((first, ('begin', 'cbegin')), (last, ('end', 'cend'))):
            e = strip(it_, explicit=True)
            while e.get('kind') == 'CXXConstructExpr' and len(children(e)) == 1:
                e = strip(children(e)[0], explicit=True)
            if e.get('kind') == 'CXXMemberCallExpr':
                callee = strip(children(e)[0])
                if callee.get('name') in want and children(callee):
                    names.append(self.resolve(children(callee)[0], env, tu))
                    continue
            if e.get('kind') == 'CallExpr' and self.callee(e, tu)[1] in want and len(children(e)) == 2:
                names.append(self.resolve(children(e)[1], env, tu))
                continue
            return None
        return names[0] if names[0] == names[1] else None

    @staticmethod
    def _is_identity_lambda(lam):
        """The lambda returns its single parameter, converted by casts only."""
        lam = strip(lam, explicit=True)
        while lam.get('kind') == 'CXXConstructExpr' and len(children(lam)) == 1:
            lam = strip(children(lam)[0], explicit=True)
        if lam.get('kind') != 'LambdaExpr':
            return False
        body = [c for c in children(lam) if c.get('kind') == 'CompoundStmt']
        if not body:
            return False
        st = children(body[-1])
        if len(st) != 1 or st[0].get('kind') != 'ReturnStmt' or not children(st[0]):
            return False
        e = strip(children(st[0])[0], explicit=True)
        while e.get('kind') in ('CXXConstructExpr', 'InitListExpr') and len(children(e)) == 1:
            e = strip(children(e)[0], explicit=True)
        return e.get('kind') == 'DeclRefExpr' and (e.get('referencedDecl') or {}).get('kind') == 'ParmVarDecl'

    def _enc_call(self, n, env, f, g, out, depth):
        tu = f.tu
        d, nm = self.callee(n, tu)
        args = children(n)[1:]
        kind = self._emit_kind(n, tu)
        vals = [a for a in args if not is_cursor_type(a.get('type'))]
        if kind == 'prim':
            p = nm[len('encode_'):]
            if p in PRIMS:
                out.append(('prim', p, self.resolve(vals[0], env, tu)))
                g.locs[len(g.locs)] = locstr(n)
                return
            fld = self.resolve(vals[0], env, tu)
            out.append(('bytes', 'size(%s)' % fld, fld))
            return
        if kind == 'fill':
            # std::fill_n(cursor, N, byte): N bytes of one value
            if len(args) == 3 and is_cursor_type(args[0].get('type')):
                cnt = self.resolve(args[1], env, tu)
                if cnt.startswith('const:'):
                    out.append(('repeat', cnt, [('prim', 'uint8', self.resolve(args[2], env, tu))]))
                    return
            g.unknown.append('std::%s at %s writes a run the extractor cannot size' % (nm, locstr(n)))
            return
        if kind == 'copy':
            # std::copy(first, last, cursor) / std::transform(first, last, cursor, cast-only lambda):
            # one byte per element of the source range
            if len(args) >= 3 and is_cursor_type(args[2].get('type')):
                cont = self._range_container(args[0], args[1], env, tu)
                if cont is not None and (len(args) == 3 or (len(args) == 4 and self._is_identity_lambda(args[3]))):
                    out.append(('repeat', 'size(%s)' % cont, [('prim', 'uint8', '%s[]' % cont)]))
                    return
            g.unknown.append('std::%s at %s writes a run the extractor cannot describe' % (nm, locstr(n)))
            return
        cf = self.repo_function(d, tu)
        if kind != 'helper' or depth > 3:
            g.unknown.append('call to %s at %s cannot be inlined' % (nm, locstr(n)))
            return
        env2 = {}
        for prm, a in zip(cf.params, args):
            t = prm.get('type') or ''
            if t.strip().endswith('*'):
                continue
            env2[prm['id']] = self.resolve(a, env, tu)
        self._enc_block(children(cf.body), env2, cf, g, out, depth + 1)

    # ---- decoders --------------------------------------------------------------
    def decoder(self, f):
        g = Grammar(f, 'dec')
        env = {}
        # the local of the returned struct type is the root
        ret = (f.ret or '').replace('const ', '').strip()
        for n in walk(f.body):
            if n.get('kind') == 'VarDecl':
                t = (n.get('type') or '').replace('const ', '').strip()
                if t and (t == ret or ret.endswith('::' + t) or t.endswith('::' + ret)):
                    env[n['id']] = ''
        self._late_locals(f, env)
        self._dec_block(children(f.body), env, f, g, g.items, 0)
        self._framing(f, g, 'zlib_uncompress')
        g.items = normalise(g.items)
        return g

    def _late_locals(self, f, env):
        """A local that is later stored into a member of the result (possibly
        through a conversion, possibly through further locals) is named after that member."""
        cand = {}

        def feed(rhs, name):
            for y in walk(rhs):
                if y.get('kind') == 'DeclRefExpr' and (y.get('referencedDecl') or {}).get('kind') in ('VarDecl', 'BindingDecl'):
                    vid = y['referencedDecl']['id']
                    vd = f.tu.ids.get(vid)
                    if vd is None or vid in env:
                        continue
                    t = vd.get('type') or ''
                    if '*' in t:
                        continue
                    cand.setdefault(vid, set()).add(name)
        for n in walk(f.body):
            lhs = rhs = None
            if n.get('kind') == 'BinaryOperator' and n.get('opcode') == '=':
                lhs, rhs = children(n)[0], children(n)[1]
            elif n.get('kind') == 'CXXOperatorCallExpr':
                c = children(n)
                if (strip(c[0]).get('referencedDecl') or {}).get('name') == 'operator=' and len(c) == 3:
                    lhs, rhs = c[1], c[2]
            if lhs is None:
                continue
            l = strip(lhs)
            if l.get('kind') == 'CallExpr':
                continue
            name = self.resolve(lhs, env, f.tu)
            if name.startswith(('local:', 'expr', 'call', 'const', 'cond', 'ctor', 'phi(')) or name in ('', 'ignored'):
                continue
            feed(rhs, name)
        # a local initialised from other locals and stored into one member: the locals it is computed
        # from carry that member's value (`const auto key_num = raw_key == 0 ? nullopt : raw_key;`)
        for _ in range(3):
            grew = False
            for n in walk(f.body):
                if n.get('kind') == 'VarDecl' and len(cand.get(n.get('id'), ())) == 1:
                    init = [x for x in children(n) if not x['kind'].endswith('Attr')]
                    if init:
                        before = sum(len(v) for v in cand.values())
                        feed(init[-1], next(iter(cand[n['id']])))
                        grew = grew or sum(len(v) for v in cand.values()) != before
            if not grew:
                break
        for vid, names in cand.items():
            if len(names) == 1:
                env[vid] = next(iter(names))

    def _dec_block(self, stmts, env, f, g, out, depth):
        for i, s in enumerate(stmts):
            if s.get('kind') == 'IfStmt':
                c = children(s)
                if len(c) == 2 and _leaves_block(c[1]) and self._consumes(c[1], f.tu):
                    # the then-branch leaves the block: the rest of the block is the else arm
                    t, e = [], []
                    self._dec_stmt(c[1], dict(env), f, g, t, depth)
                    self._dec_block(stmts[i + 1:], env, f, g, e, depth)
                    out.append(self._alt(c[0], t, e, env, f.tu))
                    return
            self._dec_stmt(s, env, f, g, out, depth)

    def _dec_stmt(self, s, env, f, g, out, depth):
        tu = f.tu
        k = s.get('kind')
        if k == 'CompoundStmt':
            self._dec_block(children(s), env, f, g, out, depth)
            return
        if k == 'DeclStmt':
            for d in children(s):
                if d.get('kind') == 'DecompositionDecl':
                    # auto [value, next] = decode_X(cursor);
                    init = [x for x in children(d) if x.get('kind') != 'BindingDecl' and not x['kind'].endswith('Attr')]
                    binds = [x for x in children(d) if x.get('kind') == 'BindingDecl']
                    calls = [y for y in (walk(init[-1]) if init else ()) if self._consume_kind(y, tu)]
                    if calls and binds:
                        self._dec_call(calls[0], [{'kind': 'DeclRefExpr', 'referencedDecl': {
                            'id': binds[0]['id'], 'name': binds[0].get('name'), 'kind': 'BindingDecl'}}], env, f, g, out, depth)
                    elif init and self._consumes(init[-1], tu):
                        g.unknown.append('unrecognised consuming declaration at %s' % locstr(s))
                    continue
                if d.get('kind') != 'VarDecl':
                    continue
                t = d.get('type') or ''
                init = [x for x in children(d) if not x['kind'].endswith('Attr')]
                # std::vector<T> result(count): container sized by a wire count
                if init and 'vector' in t:
                    e = strip(init[-1])
                    if e.get('kind') == 'CXXConstructExpr':
                        args = [a for a in children(e) if a.get('kind') != 'CXXDefaultArgExpr']
                        if len(args) == 1:
                            src = self.resolve(args[0], env, tu)
                            g.notes.append(('sized', env.get(d['id'], 'local:%s%s' % (d.get('name'), env.get('__tag', ''))), src))
                if not init:
                    continue
                # T& x = <place>: another name of that place
                if t.strip().endswith('&') and d['id'] not in env and not self._consumes(init[-1], tu):
                    env[d['id']] = self.resolve(init[-1], env, tu)
                    continue
                if self._scans_rest(init[-1], tu):
                    out.append(('bytes', 'rest', 'trailing'))
                    continue
                if self._consumes(init[-1], tu):
                    calls = [y for y in walk(init[-1]) if self._consume_kind(y, tu)]
                    e = strip(init[-1], explicit=True)
                    if is_cursor_type(t) and len(calls) == 1 and e is calls[0] and self._consume_kind(e, tu) == 'helper':
                        self._dec_call(e, [], env, f, g, out, depth)     # const std::byte* next = helper(cursor, ...)
                    else:
                        g.unknown.append('unrecognised consuming declaration at %s' % locstr(s))
            return
        if k == 'CXXForRangeStmt':
            inner = s.get('inner', [])
            body = inner[-1]
            lv = children(inner[-2])[0] if inner[-2].get('kind') == 'DeclStmt' else None
            rng = inner[1]
            cont = None
            if rng.get('kind') == 'DeclStmt':
                vd = children(rng)[0]
                init = children(vd)
                cont = self.resolve(init[-1], env, tu) if init else None
            if not self._has_decode(body, tu):
                return
            env2 = dict(env)
            if lv is not None:
                env2[lv['id']] = '%s[]' % cont
            sub = []
            self._dec_stmt(body, env2, f, g, sub, depth)
            out.append(('repeat', 'size(%s)' % cont, sub))
            return
        if k == 'ForStmt':
            inner = s.get('inner', []) + [{}] * 5
            init, _, cond, inc, body = inner[:5]
            if not self._has_decode(body, tu):
                return
            env2 = dict(env)
            cnt = '?'
            cn = strip(cond) if cond.get('kind') else {}
            if cn.get('kind') == 'BinaryOperator' and cn.get('opcode') in ('<', '!='):
                cc = children(cn)
                cnt = self.resolve(cc[1], env, tu)
            # locals pushed into a container inside the body name its element
            for x in walk(body):
                if x.get('kind') == 'CXXMemberCallExpr':
                    callee = strip(children(x)[0])
                    if callee.get('name') in ('push_back', 'emplace_back') and children(callee):
                        cont = self.resolve(children(callee)[0], env, tu)
                        for a in children(x)[1:]:
                            for y in walk(a):
                                if y.get('kind') == 'DeclRefExpr' and (y.get('referencedDecl') or {}).get('kind') == 'VarDecl':
                                    env2[y['referencedDecl']['id']] = '%s[]' % cont
                                    g.notes.append(('sized', cont, cnt))
            sub = []
            self._dec_stmt(body, env2, f, g, sub, depth)
            out.append(('repeat', cnt, sub))
            return
        if k == 'WhileStmt':
            # trailing-bytes scan (v1 beat data): while (ptr != end) { check; ptr++ }
            c = children(s)
            if any(x.get('kind') == 'UnaryOperator' and x.get('opcode') == '++' for x in walk(c[-1])):
                out.append(('bytes', 'rest', 'trailing'))
            elif self._consumes(s, tu):
                g.unknown.append('consumption inside %s at %s' % (k, locstr(s)))
            return
        if k == 'IfStmt':
            c = children(s)
            cn = strip(c[0])
            if self._scans_rest(c[0], tu):
                out.append(('bytes', 'rest', 'trailing'))
            if cn.get('kind') == 'BinaryOperator' and cn.get('opcode') == '!=' and len(c) > 1 and \
                    any(x.get('kind') == 'CXXThrowExpr' for x in walk(c[1])):
                cc = children(cn)
                g.notes.append(('equal', self.resolve(cc[0], env, tu), self.resolve(cc[1], env, tu)))
            if not any(self._consumes(x, tu) for x in c[1:]):
                return
            t, e = [], []
            self._dec_stmt(c[1], dict(env), f, g, t, depth)
            if len(c) > 2:
                self._dec_stmt(c[2], dict(env), f, g, e, depth)
            out.append(self._alt(c[0], t, e, env, tu))
            return
        if k == 'CXXTryStmt':
            c = children(s)
            self._dec_stmt(c[0], env, f, g, out, depth)
            return
        if k in ('DoStmt', 'SwitchStmt'):
            if self._consumes(s, tu):
                g.unknown.append('consumption inside %s at %s' % (k, locstr(s)))
            return
        self._dec_expr(s, env, f, g, out, depth)

    def _has_decode(self, n, tu):
        return self._consumes(n, tu)

    def _consume_kind(self, n, tu):
        """What a call does with an input cursor it is given: 'prim' (fixed-width primitive of L1 or
        decode_extra), 'helper' (repository function that takes the cursor and returns the advanced one,
        alone or in a pair with the value read), 'opaque' (the same without a body); None otherwise."""
        if n.get('kind') != 'CallExpr':
            return None
        args = children(n)[1:]
        if not carries_cursor(n.get('type')) or not any(is_cursor_type(a.get('type')) for a in args):
            return None
        d, nm = self.callee(n, tu)
        nm = nm or ''
        if nm.startswith('decode_') and (nm[7:] in PRIMS or nm[7:] == 'extra'):
            return 'prim'
        cf = self.repo_function(d, tu)
        if cf is not None and cf.body is not None:
            return 'helper'
        return 'opaque'

    def _scans_rest(self, n, tu):
        """n contains a std algorithm that visits every byte of [cursor, end)."""
        for x in walk(n):
            if x.get('kind') == 'CallExpr':
                d, nm = self.callee(x, tu)
                args = children(x)[1:]
                if nm in STD_SCAN and len(args) >= 2 and is_cursor_type(args[0].get('type')) \
                        and is_cursor_type(args[1].get('type')):
                    return True
        return False

    def _consumes(self, n, tu):
        for x in walk(n):
            if x.get('kind') == 'CallExpr':
                if self._consume_kind(x, tu):
                    return True
                d, nm = self.callee(x, tu)
                if nm and nm.startswith('decode_'):
                    return True
            if x.get('kind') == 'CompoundAssignOperator' and x.get('opcode') == '+=':
                l = strip(children(x)[0], explicit=True)
                if (l.get('type') or '').strip().endswith('*'):
                    return True
        return self._scans_rest(n, tu)

    def _dec_expr(self, s, env, f, g, out, depth):
        tu = f.tu
        x = strip(s)
        k = x.get('kind')
        if k == 'CXXOperatorCallExpr':
            c = children(x)
            op = (strip(c[0]).get('referencedDecl') or {}).get('name')
            if op == 'operator=' and len(c) == 3:
                l = strip(c[1])
                if l.get('kind') == 'CallExpr' and self.callee(l, tu)[1] == 'tie':
                    targets = children(l)[1:]
                    calls = [y for y in walk(c[2]) if self._consume_kind(y, tu)]
                    if calls:
                        self._dec_call(calls[0], targets, env, f, g, out, depth)
                        return
        if k == 'BinaryOperator' and x.get('opcode') == '=':
            # cursor = helper(cursor, ...): the helper consumes and hands back the advanced cursor
            c = children(x)
            l = strip(c[0], explicit=True)
            r = strip(c[1], explicit=True)
            if is_cursor_type(l.get('type')) and self._consume_kind(r, tu) in ('helper', 'opaque'):
                self._dec_call(r, [], env, f, g, out, depth)
                return
        if k == 'CompoundAssignOperator' and x.get('opcode') == '+=':
            c = children(x)
            l = strip(c[0], explicit=True)
            if (l.get('type') or '').strip().endswith('*'):
                v = self.resolve(c[1], env, tu)
                if v.startswith('const:'):
                    out.append(('skip', int(v[6:])))
                else:
                    # label bytes: preceded by X.assign(ptr, n)
                    out.append(('bytes', v, '?'))
                return
        if k == 'CXXMemberCallExpr':
            callee = strip(children(x)[0])
            if callee.get('name') == 'assign' and children(callee):
                args = children(x)[1:]
                if len(args) == 2:
                    fld = self.resolve(children(callee)[0], env, tu)
                    ln = self.resolve(args[1], env, tu)
                    out.append(('assign', ln, fld))
                    return
            if callee.get('name') == 'resize' and children(callee):
                cont = self.resolve(children(callee)[0], env, tu)
                args = children(x)[1:]
                if args:
                    g.notes.append(('sized', cont, self.resolve(args[0], env, tu)))
                return
        if self._scans_rest(s, tu) and not any(self._consume_kind(y, tu) for y in walk(s)):
            out.append(('bytes', 'rest', 'trailing'))
            return
        if k == 'ReturnStmt' or s.get('kind') == 'ReturnStmt':
            if any(self._consume_kind(y, tu) for y in walk(s)):
                g.unknown.append('consuming call in a return statement at %s' % locstr(s))
            return
        # any other statement that contains a decode call is outside the subset
        if s.get('kind') not in ('ReturnStmt',) and self._consumes(s, tu) and k not in ('CXXThrowExpr',):
            g.unknown.append('unrecognised consuming statement at %s' % locstr(s))

    def _dec_call(self, n, targets, env, f, g, out, depth):
        tu = f.tu
        d, nm = self.callee(n, tu)
        kind = self._consume_kind(n, tu)
        tgt = self.resolve(targets[0], env, tu) if targets else 'ignored'
        if kind == 'prim':
            p = nm[len('decode_'):]
            if p in PRIMS:
                out.append(('prim', p, tgt))
                return
            out.append(('bytes', 'rest', tgt))
            return
        cf = self.repo_function(d, tu)
        if kind != 'helper' or depth > 3:
            g.unknown.append('call to %s at %s cannot be inlined' % (nm, locstr(n)))
            return
        self.inl = getattr(self, 'inl', 0) + 1
        env2 = {'__tag': '#%d' % self.inl}
        # value and reference parameters stand for the caller's arguments
        for prm, a in zip(cf.params, children(n)[1:]):
            if is_cursor_type(prm.get('type')):
                continue
            env2[prm['id']] = self.resolve(a, env, tu)
        # the object the callee returns (next to the cursor) is the caller's target
        if targets:
            for r in walk(cf.body):
                if r.get('kind') == 'ReturnStmt':
                    for y in walk(r):
                        if y.get('kind') == 'DeclRefExpr' and (y.get('referencedDecl') or {}).get('kind') == 'VarDecl':
                            vd = cf.tu.ids.get(y['referencedDecl']['id'])
                            if vd is not None and '*' not in (vd.get('type') or ''):
                                env2[vd['id']] = tgt
                                break
        self._dec_block(children(cf.body), env2, cf, g, out, depth + 1)


# ---- normalisation ----------------------------------------------------------------
def normalise(items):
    items = [_norm_item(i) for i in items]
    out = []
    i = 0
    while i < len(items):
        it = items[i]
        # encoder label idiom: u8 size(X) ; repeat size(X) { u8 X[] }  ->  u8 size(X) ; bytes size(X) X
        if it[0] == 'repeat' and len(it[2]) == 1 and it[2][0][0] == 'prim' and it[2][0][1] == 'uint8' \
                and it[2][0][2].endswith('[]') and it[1] == 'size(%s)' % it[2][0][2][:-2]:
            out.append(('bytes', it[1], it[2][0][2][:-2]))
            i += 1
            continue
        # decoder label idiom: assign(n, X) ; bytes n ?   (possibly inside `if (n > 0)`)
        if it[0] == 'assign' and i + 1 < len(items) and items[i + 1][0] == 'bytes' and items[i + 1][2] == '?' \
                and items[i + 1][1] == it[1]:
            out.append(('bytes', it[1], it[2]))
            i += 2
            continue
        if it[0] == 'alt' and not it[3] and len(it[2]) == 1 and it[2][0][0] == 'bytes' and \
                _mentions(it[1], it[2][0][1]):
            out.append(it[2][0])
            i += 1
            continue
        out.append(it)
        i += 1
    return out


def _mentions(cond, ln):
    return ln.replace('local:', '') in cond


def _norm_item(it):
    if it[0] == 'repeat':
        return ('repeat', it[1], normalise(it[2]))
    if it[0] == 'alt':
        return ('alt', it[1], normalise(it[2]), normalise(it[3]))
    return it


def rename_locals(g):
    """Decoder post-pass: a local that sizes a container / label is named
    after what it sizes: local:n -> size(X)."""
    ren = {}
    for kind, cont, src in g.notes:
        if kind == 'sized' and src.startswith('local:'):
            ren.setdefault(src, 'size(%s)' % cont)

    def scan(items):
        for it in items:
            if it[0] == 'bytes' and it[1].startswith('local:') and it[2] not in ('?',):
                ren.setdefault(it[1], 'size(%s)' % it[2])
            elif it[0] == 'repeat':
                scan(it[2])
            elif it[0] == 'alt':
                scan(it[2])
                scan(it[3])
    scan(g.items)
    # a local that must equal another (if (a != b) throw) carries the same value
    for kind, a, b in g.notes:
        if kind == 'equal':
            if a in ren and b.startswith('local:') and b not in ren:
                ren[b] = ren[a]
            elif b in ren and a.startswith('local:') and a not in ren:
                ren[a] = ren[b]

    def ap(items):
        out = []
        for it in items:
            if it[0] == 'prim':
                out.append(('prim', it[1], ren.get(it[2], it[2])))
            elif it[0] == 'bytes':
                out.append(('bytes', ren.get(it[1], it[1]), it[2]))
            elif it[0] == 'repeat':
                out.append(('repeat', ren.get(it[1], it[1]), ap(it[2])))
            elif it[0] == 'alt':
                out.append(('alt', it[1], ap(it[2]), ap(it[3])))
            else:
                out.append(it)
        return out
    g.items = ap(g.items)
    g.renames = ren
    return g


PAIRS = [
    ('v1 beat_data', ENG + 'v1::beat_data::encode', ENG + 'v1::beat_data::decode'),
    ('v1 high_res_waveform_data', ENG + 'v1::high_res_waveform_data::encode', ENG + 'v1::high_res_waveform_data::decode'),
    ('v1 loops_data', ENG + 'v1::loops_data::encode', ENG + 'v1::loops_data::decode'),
    ('v1 overview_waveform_data', ENG + 'v1::overview_waveform_data::encode', ENG + 'v1::overview_waveform_data::decode'),
    ('v1 quick_cues_data', ENG + 'v1::quick_cues_data::encode', ENG + 'v1::quick_cues_data::decode'),
    ('v1 track_data', ENG + 'v1::track_data::encode', ENG + 'v1::track_data::decode'),
    ('v2 beat_data_blob', ENG + 'v2::beat_data_blob::to_blob', ENG + 'v2::beat_data_blob::from_blob'),
    ('v2 loops_blob', ENG + 'v2::loops_blob::to_blob', ENG + 'v2::loops_blob::from_blob'),
    ('v2 overview_waveform_data_blob', ENG + 'v2::overview_waveform_data_blob::to_blob', ENG + 'v2::overview_waveform_data_blob::from_blob'),
    ('v2 quick_cues_blob', ENG + 'v2::quick_cues_blob::to_blob', ENG + 'v2::quick_cues_blob::from_blob'),
    ('v2 track_data_blob', ENG + 'v2::track_data_blob::to_blob', ENG + 'v2::track_data_blob::from_blob'),
]


def all_grammars(prog):
    ex = Extractor(prog)
    out = []
    for name, e, d in PAIRS:
        ge = ex.encoder(prog.func(e))
        gd = rename_locals(ex.decoder(prog.func(d)))
        out.append((name, ge, gd))
    return out


# ---- primitives (L1) ------------------------------------------------------------------
def _ex(n):
    return strip(n, explicit=True)


def _int(n):
    n = _ex(n)
    if n.get('kind') == 'IntegerLiteral':
        return int(n['value'])
    return None


def _refid(n):
    n = _ex(n)
    if n.get('kind') == 'DeclRefExpr':
        return (n.get('referencedDecl') or {}).get('id')
    return None


def _value_shift(e, vid):
    """e is `v`, `v & 0xFF`, `(v >> s) & 0xFF`, `v >> s` -> s; else None."""
    e = _ex(e)
    if e.get('kind') == 'BinaryOperator' and e.get('opcode') == '&':
        c = children(e)
        if _int(c[1]) == 0xFF:
            return _value_shift(c[0], vid)
        return None
    if e.get('kind') == 'BinaryOperator' and e.get('opcode') == '>>':
        c = children(e)
        if _refid(c[0]) == vid and _int(c[1]) is not None:
            return _int(c[1])
        return None
    if _refid(e) == vid:
        return 0
    return None


def _byte_terms(e, pid, out):
    """Collect (index, shift) from an |-tree of casts of (uint8(ptr[i]) << s)."""
    e = _ex(e)
    if e.get('kind') == 'BinaryOperator' and e.get('opcode') == '|':
        c = children(e)
        return _byte_terms(c[0], pid, out) and _byte_terms(c[1], pid, out)
    sh = 0
    if e.get('kind') == 'BinaryOperator' and e.get('opcode') == '<<':
        c = children(e)
        sh = _int(c[1])
        if sh is None:
            return False
        e = _ex(c[0])
    if e.get('kind') == 'CallExpr' and len(children(e)) == 2 and \
            (strip(children(e)[0]).get('referencedDecl') or {}).get('name') == 'to_integer':
        e = _ex(children(e)[1])       # std::to_integer<T>(ptr[i]) is the byte, zero-extended
    if e.get('kind') == 'ArraySubscriptExpr':
        c = children(e)
        if _refid(c[0]) == pid and _int(c[1]) is not None:
            out.append((_int(c[1]), sh))
            return True
    return False


def _var_terms(e, out):
    """|-tree of casts of (var << s): collect (var id, shift)."""
    e = _ex(e)
    if e.get('kind') == 'BinaryOperator' and e.get('opcode') == '|':
        c = children(e)
        return _var_terms(c[0], out) and _var_terms(c[1], out)
    sh = 0
    if e.get('kind') == 'BinaryOperator' and e.get('opcode') == '<<':
        c = children(e)
        sh = _int(c[1])
        if sh is None:
            return False
        e = _ex(c[0])
    r = _refid(e)
    if r is not None:
        out.append((r, sh))
        return True
    return False


def _unshifted_sign_extended(e):
    """In an |-tree that combines 32-bit halves into a 64-bit value: is a half that is not shifted (the low
    half) widened from a signed 32-bit variable without passing through an unsigned 32-bit type?  Then its
    sign bit is copied into the upper 32 bits and overwrites the other half.  -> name of the variable or None."""
    e0 = e
    e = _ex(e)
    if e.get('kind') == 'BinaryOperator' and e.get('opcode') == '|':
        for c in children(e):
            r = _unshifted_sign_extended(c)
            if r:
                return r
        return None
    if e.get('kind') == 'BinaryOperator' and e.get('opcode') == '<<':
        return None
    if e.get('kind') != 'DeclRefExpr':
        return None
    vt = (e.get('type') or '')
    if 'unsigned' in vt or vt.lstrip('std::').startswith('uint'):
        return None
    # the wrappers between the |-operand and the variable, outermost first
    n = e0
    types = []
    while isinstance(n, dict) and n is not e and len(children(n)) == 1:
        types.append(n.get('type') or '')
        n = children(n)[0]
    for t in types:
        t2 = t.replace('std::', '').strip()
        if t2 in ('uint32_t', 'unsigned int', 'uint_least32_t', '__uint32_t'):
            return None
    if any(('64' in t or 'long' in t) for t in types):
        return (e.get('referencedDecl') or {}).get('name') or '?'
    return None


def _ret_advance(f, pid):
    """Return statements: the pointer component is ptr (+ k)."""
    ks = []
    for n in walk(f.body):
        if n.get('kind') != 'ReturnStmt':
            continue
        found = None
        for x in walk(n):
            if x.get('kind') == 'BinaryOperator' and x.get('opcode') == '+':
                c = children(x)
                if _refid(c[0]) == pid and _int(c[1]) is not None:
                    found = _int(c[1])
        if found is None:
            # plain `ptr`
            if any(_refid(x) == pid for x in walk(n) if x.get('kind') == 'DeclRefExpr'):
                found = 0
        ks.append(found)
    return ks


def _calls(f, prefix):
    out = []
    for n in walk(f.body):
        if n.get('kind') == 'CallExpr':
            nm = (strip(children(n)[0]).get('referencedDecl') or {}).get('name') or ''
            if nm.startswith(prefix):
                out.append((nm, n))
    return out


def primitive_facts(prog):
    """-> {funcname: (ok, description)} for the 14 encode_/decode_ primitives."""
    res = {}
    for p in PRIMS:
        for side in ('encode', 'decode'):
            name = '%s_%s' % (side, p)
            fs = [f for f in prog.by_name(ENG + name) if f.body is not None]
            if len(fs) != 1:
                res[name] = (None, 'definition not found (%d)' % len(fs))
                continue
            f = fs[0]
            try:
                res[name] = _prim_check(f, p, side, prog)
            except (IndexError, KeyError, TypeError) as e:
                res[name] = (None, 'construct outside the recognised forms: %r' % e)
            res[name] = res[name] + (f,)
    return res


def _prim_check(f, p, side, prog=None):
    params = {x.get('name'): x['id'] for x in f.params}
    pid = [x['id'] for x in f.params if (x.get('type') or '').strip().endswith('*')]
    if len(pid) != 1:
        return (None, 'no unique pointer parameter')
    pid = pid[0]
    vid = [x['id'] for x in f.params if not (x.get('type') or '').strip().endswith('*')]
    vid = vid[0] if vid else None
    width = WIDTH[p]
    endian = 'le' if p.endswith('_le') else ('be' if p.endswith('_be') else None)
    if p == 'uint8':
        adv = _ret_advance(f, pid)
        if adv != [1]:
            return (False, 'returns ptr + %s, expected ptr + 1' % adv)
        derefs = [n for n in walk(f.body) if n.get('kind') == 'UnaryOperator' and n.get('opcode') == '*'
                  and _refid(children(n)[0]) == pid]
        if len(derefs) != 1:
            return (False, 'expected exactly one access to *ptr')
        if side == 'encode':
            asg = [n for n in walk(f.body) if n.get('kind') == 'BinaryOperator' and n.get('opcode') == '=']
            if len(asg) != 1 or _refid(children(asg[0])[1]) != vid:
                return (False, '*ptr is not assigned from the value parameter')
        return (True, 'byte at offset 0, advance 1')
    if p.startswith('int32'):
        want = {(i, 8 * i if endian == 'le' else 8 * (3 - i)) for i in range(4)}
        if side == 'encode':
            got = set()
            for n in walk(f.body):
                if n.get('kind') == 'BinaryOperator' and n.get('opcode') == '=':
                    c = children(n)
                    l = _ex(c[0])
                    if l.get('kind') == 'ArraySubscriptExpr' and _refid(children(l)[0]) == pid:
                        i = _int(children(l)[1])
                        s = _value_shift(c[1], vid)
                        if i is None or s is None:
                            return (None, 'unrecognised byte store at %s' % locstr(n))
                        got.add((i, s))
        else:
            terms = []
            vds = [n for n in walk(f.body) if n.get('kind') == 'VarDecl']
            ok = False
            for vd in vds:
                init = [x for x in children(vd) if not x['kind'].endswith('Attr')]
                if init:
                    terms = []
                    if _byte_terms(init[-1], pid, terms):
                        ok = True
                        break
            if not ok:
                # maybe directly in the return
                for n in walk(f.body):
                    if n.get('kind') == 'ReturnStmt':
                        for x in walk(n):
                            if x.get('kind') == 'BinaryOperator' and x.get('opcode') == '|':
                                terms = []
                                if _byte_terms(x, pid, terms):
                                    ok = True
                                    break
            if not ok:
                return (None, 'value is not an |-combination of shifted bytes')
            got = set(terms)
        adv = _ret_advance(f, pid)
        if got != want:
            return (False, 'byte/shift map %s, expected %s (%s-endian)' % (sorted(got), sorted(want), endian))
        if adv != [4]:
            return (False, 'returns ptr + %s, expected ptr + 4' % adv)
        return (True, 'bytes %s, advance 4' % sorted(got))
    if p.startswith('int64'):
        sub = '%s_int32_%s' % (side, endian)
        calls = _calls(f, side + '_')
        if [c[0] for c in calls] != [sub, sub]:
            return (False, 'expected two calls to %s, found %s' % (sub, [c[0] for c in calls]))
        want = [0, 32] if endian == 'le' else [32, 0]
        if side == 'encode':
            shifts = [_value_shift(children(c[1])[1], vid) for c in calls]
            if shifts != want:
                return (False, 'halves are written with shifts %s, expected %s (%s-endian)' % (shifts, want, endian))
            # each call threads ptr: ptr = encode(.., ptr)
            return (True, 'two int32 halves, shifts %s' % shifts)
        # decode: targets of the two tie-assignments in order, then combination
        targets = []
        chain = []      # (cursor read, cursor produced) per structured binding
        for n in walk(f.body):
            if n.get('kind') == 'CallExpr' and (strip(children(n)[0]).get('referencedDecl') or {}).get('name') == 'tie':
                targets.append(_refid(children(n)[1]))
            elif n.get('kind') == 'DecompositionDecl':
                # auto [half, next] = decode_int32_xx(cursor);
                b = [x for x in children(n) if x.get('kind') == 'BindingDecl']
                mine = [c for c in calls if any(c[1] is y for y in walk(n))]
                if len(b) == 2 and mine:
                    targets.append(b[0].get('id'))
                    chain.append((_refid(children(mine[0][1])[1]), b[1].get('id')))
        terms = []
        ok = False
        for vd in [n for n in walk(f.body) if n.get('kind') == 'VarDecl']:
            init = [x for x in children(vd) if not x['kind'].endswith('Attr')]
            if init:
                terms = []
                if _var_terms(init[-1], terms) and len(terms) == 2:
                    ok = True
                    break
        if not ok or len(targets) != 2:
            return (None, 'combination of the two halves not recognised')
        sx = _unshifted_sign_extended(init[-1])
        if sx:
            return (False, 'the unshifted half `%s` (a signed 32-bit value) is widened to 64 bits without passing '
                           'through an unsigned 32-bit type: its sign bit is copied into the upper half and '
                           'overwrites the other word' % sx)
        if chain:
            # each half is read where the previous read ended, and the cursor after the second is returned
            rets = [_refid(y) for n in walk(f.body) if n.get('kind') == 'ReturnStmt' for y in walk(n)
                    if y.get('kind') == 'DeclRefExpr']
            if len(chain) != 2 or chain[0][0] != pid or chain[1][0] != chain[0][1] or chain[1][1] not in rets:
                return (False, 'the two halves are not read one after the other from the cursor that is returned')
        m = dict(terms)
        got = [m.get(targets[0]), m.get(targets[1])]
        if got != want:
            return (False, 'halves are combined with shifts %s (in read order), expected %s (%s-endian)' % (got, want, endian))
        return (True, 'two int32 halves, shifts %s' % got)
    if p.startswith('double'):
        sub = '%s_int64_%s' % (side, endian)
        calls = _calls(f, side + '_')
        if [c[0] for c in calls] != [sub]:
            return (False, 'expected one call to %s, found %s' % (sub, [c[0] for c in calls]))
        # the bit pattern is carried over by one memcpy of 8 bytes, in the primitive itself or in a
        # repository helper it calls for the conversion
        bodies = [f.body]
        if prog is not None:
            for n in walk(f.body):
                if n.get('kind') == 'CallExpr' and not any(n is c[1] for c in calls):
                    ref = strip(children(n)[0]).get('referencedDecl') or {}
                    d = f.tu.ids.get(ref.get('id'))
                    for t in (prog.definitions_for(f.tu, d) if d is not None else []):
                        if t.body is not None and prog.in_repo(t.file):
                            bodies.append(t.body)
        mem = [n for b in bodies for n in walk(b) if n.get('kind') == 'CallExpr'
               and (strip(children(n)[0]).get('referencedDecl') or {}).get('name') == 'memcpy']
        if len(mem) != 1 or _int(children(mem[0])[3]) != 8:
            return (False, 'expected one memcpy of 8 bytes between the double and the int64')
        types = sorted(re.sub(r'\s*\*$', '', (strip(a, explicit=True).get('type') or '').replace('const ', '')).strip()
                       for a in children(mem[0])[1:3])
        if not (types[0] == 'double' and types[1] in ('int64_t', 'long', 'long long')):
            return (False, 'the memcpy is not between a double and an int64 (%s)' % types)
        return (True, 'bit pattern via memcpy(8) and %s' % sub)
    return (None, 'unknown primitive')


# ---- matching grammars -----------------------------------------------------------------
def linearise(items):
    """All alternatives of a grammar with `alt` resolved and constant repeats
    expanded -> list of item lists (repeat items keep a list of linearised bodies)."""
    outs = [[]]
    for it in items:
        if it[0] == 'alt':
            new = []
            for arm in (it[2], it[3]):
                for la in linearise(arm):
                    for o in outs:
                        new.append(o + la)
            outs = new
        elif it[0] == 'repeat' and it[1].startswith('const:'):
            k = int(it[1][6:])
            bodies = linearise(it[2])
            new = []
            for b in bodies:
                for o in outs:
                    new.append(o + b * k)
            outs = new
        elif it[0] == 'repeat':
            bodies = linearise(it[2])
            outs = [o + [('repeat', it[1], bodies)] for o in outs]
        else:
            outs = [o + [it] for o in outs]
    return outs


def is_plain(field):
    return field is not None and not field.startswith(('local:', 'const:', 'expr', 'cond(', 'call(', 'ctor', 'phi(')) \
        and field not in ('ignored', '?', 'index')


def match_spec(spec_items, lin, strict_fields, side):
    """Compare one linearisation with the layout table.  -> list of messages."""
    msgs = []
    i = j = 0
    S = spec_items
    while i < len(S) or j < len(lin):
        s = S[i] if i < len(S) else None
        g = lin[j] if j < len(lin) else None
        if s is not None and s[0] == 'trailing_zeros':
            if g is not None and g[0] == 'bytes' and g[2] == 'trailing':
                j += 1
            i += 1
            continue
        if g is not None and g[0] == 'bytes' and g[2] == 'trailing':
            msgs.append('consumes trailing bytes where the layout has none')
            j += 1
            continue
        if s is None:
            msgs.append('emits/consumes %s beyond the end of the layout' % (g,))
            break
        if g is None:
            msgs.append('ends before layout item #%d %s' % (i, s))
            break
        if g[0] == 'skip':
            n = g[1]
            while n > 0 and i < len(S) and S[i][0] == 'prim':
                n -= WIDTH[S[i][1]]
                i += 1
            if n != 0:
                msgs.append('skips %d byte(s), which does not cover whole layout items' % g[1])
            j += 1
            continue
        if s[0] == 'prim':
            if g[0] != 'prim':
                msgs.append('layout item #%d is %s %s but the code has %s' % (i, s[1], s[2], g))
                break
            if g[1] != s[1]:
                msgs.append('layout item #%d (%s) is %s but the code uses %s' % (i, s[2] or 'unnamed', s[1], g[1]))
            elif s[2] is not None and g[2] != s[2]:
                if is_plain(g[2]) or strict_fields:
                    msgs.append('layout item #%d carries %s but the code %s %s there' % (
                        i, s[2], 'writes' if side == 'enc' else 'reads into', g[2]))
            elif s[2] is None and is_plain(g[2]) and side == 'enc' and False:
                pass
            i += 1
            j += 1
            continue
        if s[0] == 'bytes':
            if g[0] != 'bytes' and s[1] != 'rest' and j > 0 and lin[j - 1][0] == 'prim' and \
                    lin[j - 1][2] == 'const:0' and i > 0 and S[i - 1][0] == 'prim' and S[i - 1][2] == s[1]:
                i += 1      # length written as literal 0: the byte run is empty
                continue
            if g[0] != 'bytes':
                msgs.append('layout item #%d is a byte run (%s) but the code has %s' % (i, s[2], g))
                break
            if g[2] != s[2]:
                msgs.append('byte run #%d carries %s but the code uses %s' % (i, s[2], g[2]))
            if s[1] != 'rest' and g[1] != s[1]:
                msgs.append('byte run %s has length %s, layout says %s' % (s[2], g[1], s[1]))
            i += 1
            j += 1
            continue
        if s[0] == 'repeat':
            if g[0] != 'repeat':
                msgs.append('layout item #%d is a repeat group over %s but the code has %s' % (i, s[1], g))
                break
            if g[1] != 'size(%s)' % s[1]:
                msgs.append('repeat group over %s is counted by %s' % (s[1], g[1]))
            for body in g[2]:
                for m in match_spec(s[2], body, strict_fields, side):
                    msgs.append('in group %s: %s' % (s[1], m))
            i += 1
            j += 1
            continue
        msgs.append('unknown layout item %r' % (s,))
        break
    return msgs


def to_spec(lin):
    """Turn an encoder linearisation into layout-table form (for S1)."""
    out = []
    for it in lin:
        if it[0] == 'prim':
            out.append(['prim', it[1], it[2] if is_plain(it[2]) else None])
        elif it[0] == 'bytes':
            out.append(['bytes', 'rest' if it[2] == 'extra_data' else it[1], it[2]])
        elif it[0] == 'repeat':
            cont = it[1][5:-1] if it[1].startswith('size(') else it[1]
            # bodies of an encoder repeat: use the first (alts inside repeats are
            # compared arm by arm by the caller)
            out.append(['repeat', cont, [to_spec(b) for b in it[2]]])
        else:
            out.append(list(it))
    return out
