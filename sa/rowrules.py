"""Shared statement-level rules over rowmap.SiteMap (used by C18, C01, C06):

  shape      number of '?' == number of binds, INSERT widths, SELECT width == sink arity
  agreement  all statements on one table map each column to the same C++ source
  resolve    every table / column named in a statement exists in the DDL of every schema
             version the statement can run under
"""
from . import rowmap, schemas, sql, effects
from .frontend import AnalysisBroken
from .program import children, strip, walk, locstr, literal_value


def expand_sites(prog, cg, eff, funcs):
    """SiteMaps for funcs; a helper whose SQL has a hole fed by a string parameter is expanded
    once per literal passed at its call sites (callers recorded)."""
    out = []
    seen = set()
    for f in funcs:
        if f.is_pattern or f.body is None:
            continue
        raw = eff.sites(f)
        if not raw:
            continue
        holes = set()
        for s in raw:
            for p in s.sql_parts:
                if not isinstance(p, str):
                    holes.add(p.desc)
        if holes:
            hv = rowmap.hole_values(prog, cg, f)
            usable = [h for h in holes if h in hv]
            if len(usable) == 1 and len(holes) == 1:
                h = usable[0]
                for lit, callnode, caller in hv[h]:
                    key = (f.qualname, s.loc if False else None, lit, caller.qualname)
                    for sm in rowmap.site_maps(prog, cg, eff, f, {h: lit}):
                        k = (sm.loc, lit, caller.qualname, f.type)
                        if k in seen:
                            continue
                        seen.add(k)
                        sm.hole = (h, lit)
                        sm.caller = caller
                        sm.callnode = callnode
                        out.append(sm)
                continue
        for sm in rowmap.site_maps(prog, cg, eff, f):
            k = (sm.loc, sm.text)
            if k in seen:
                continue
            seen.add(k)
            sm.hole = None
            sm.caller = None
            sm.callnode = None
            out.append(sm)
    return out


def enum_order(prog):
    e = prog.enums.get(schemas.ENUM)
    if not e:
        raise AnalysisBroken('engine_schema enum not found')
    return [k for k, v in sorted(e.items(), key=lambda kv: kv[1])]


def version_catalogs(prog):
    """{enumerator name: {alias: Catalog}} from the creators' DDL (same source as C12)."""
    out = {}
    fm = schemas.factory_map(prog)
    for en, cls in fm.items():
        gen = 2 if _gen2(en) else 1
        trace = schemas.creation_trace(prog, cls)
        out[en] = schemas.split_catalogs(trace, gen)
    return out


def _gen2(en):
    import re
    m = re.match(r'schema_(\d+)_', en)
    return int(m.group(1)) >= 2


def lookup_table(cats, table):
    """cats: {alias: Catalog} -> (kind, object) for a table or view named `table`."""
    t = table.lower()
    for alias, cat in cats.items():
        for name, td in cat.tables.items():
            if name.lower() == t:
                return 'table', td, cat
        for name, v in cat.views.items():
            if name.lower() == t:
                return 'view', v, cat
    return None, None, None


def columns_of(kind, obj, cat):
    if kind == 'table':
        return [c.name.lower() for c in obj.columns]
    if kind == 'view':
        try:
            vi = cat.view_info(obj)
            return [r[0].lower() for r in vi] if vi is not None else None
        except Exception:
            return None
    return None


def stmt_columns(sm):
    """Column identifiers a statement names for its main table (insert list, set list,
    select list, where columns of '?' comparisons)."""
    st = sm.stmt
    cols = []
    if st.kind == 'insert':
        cols += list(st.columns)
    if st.kind == 'update':
        cols += [c for c, _ in st.sets]
    if st.kind == 'select' and st.select is not None and len(st.select.tables) == 1:
        for e, alias in st.select.items:
            cr = e.column_ref()
            if cr:
                cols.append(cr[1])
    for p in st.params:
        if p.column and (st.kind != 'select' or (st.select is not None and len(st.select.tables) == 1)):
            cols.append(p.column)
    return [c for c in cols if c and not c.startswith(effects.HOLE)]
