"""Shared statement-level rules over rowmap.SiteMap (used by C18, C01, C06):

  shape      number of '?' == number of binds, INSERT widths, SELECT width == sink arity
  agreement  all statements on one table map each column to the same C++ source
  resolve    every table / column named in a statement exists in the DDL of every schema
             version the statement can run under
"""
from . import rowmap, schemas, sql, effects
from .frontend import AnalysisBroken
from .program import children, strip, walk, locstr, literal_value


def expand_sites(prog, cg, eff, funcs):
    """SiteMaps for funcs; a helper whose SQL has a hole fed by a string parameter is expanded
    once per literal passed at its call sites (callers recorded)."""
    out = []
    seen = set()
    for f in funcs:
        if f.is_pattern or f.body is None:
            continue
        raw = eff.sites(f)
        if not raw:
            continue
        holes = set()
        for s in raw:
            for p in s.sql_parts:
                if not isinstance(p, str):
                    holes.add(p.desc)
        if holes:
            hv = rowmap.hole_values(prog, cg, f)
            usable = [h for h in holes if h in hv]
            if len(usable) == 1 and len(holes) == 1:
                h = usable[0]
                for lit, callnode, caller in hv[h]:
                    key = (f.qualname, s.loc if False else None, lit, caller.qualname)
                    for sm in rowmap.site_maps(prog, cg, eff, f, {h: lit}):
                        k = (sm.loc, lit, caller.qualname, f.type)
                        if k in seen:
                            continue
                        seen.add(k)
                        sm.hole = (h, lit)
                        sm.caller = caller
                        sm.callnode = callnode
                        out.append(sm)
                continue
        for sm in rowmap.site_maps(prog, cg, eff, f):
            k = (sm.loc, sm.text)
            if k in seen:
                continue
            seen.add(k)
            sm.hole = None
            sm.caller = None
            sm.callnode = None
            out.append(sm)
    return out


def enum_order(prog):
    e = prog.enums.get(schemas.ENUM)
    if not e:
        raise AnalysisBroken('engine_schema enum not found')
    return [k for k, v in sorted(e.items(), key=lambda kv: kv[1])]


def version_catalogs(prog):
    """{enumerator name: {alias: Catalog}} from the creators' DDL (same source as C12)."""
    out = {}
    fm = schemas.factory_map(prog)
    for en, cls in fm.items():
        gen = 2 if _gen2(en) else 1
        trace = schemas.creation_trace(prog, cls)
        out[en] = schemas.split_catalogs(trace, gen)
    return out


def _gen2(en):
    import re
    m = re.match(r'schema_(\d+)_', en)
    return int(m.group(1)) >= 2


def lookup_table(cats, table):
    """cats: {alias: Catalog} -> (kind, object) for a table or view named `table`."""
    t = table.lower()
    for alias, cat in cats.items():
        for name, td in cat.tables.items():
            if name.lower() == t:
                return 'table', td, cat
        for name, v in cat.views.items():
            if name.lower() == t:
                return 'view', v, cat
    return None, None, None


def columns_of(kind, obj, cat):
    if kind == 'table':
        return [c.name.lower() for c in obj.columns]
    if kind == 'view':
        try:
            vi = cat.view_info(obj)
            return [r[0].lower() for r in vi] if vi is not None else None
        except Exception:
            return None
    return None


def stmt_columns(sm):
    """Column identifiers a statement names for its main table (insert list, set list,
    select list, where columns of '?' comparisons)."""
    st = sm.stmt
    cols = []
    if st.kind == 'insert':
        cols += list(st.columns)
    if st.kind == 'update':
        cols += [c for c, _ in st.sets]
    if st.kind == 'select' and st.select is not None and len(st.select.tables) == 1:
        for e, alias in st.select.items:
            cr = e.column_ref()
            if cr:
                cols.append(cr[1])
    for p in st.params:
        if p.column and (st.kind != 'select' or (st.select is not None and len(st.select.tables) == 1)):
            cols.append(p.column)
    return [c for c in cols if c and not c.startswith(effects.HOLE)]


def _is_engagement_test(cond, pid):
    """cond tests only whether the optional parameter `pid` holds a value: `p`, `!p`,
    `p.has_value()`, `p == nullopt`, `p != nullopt` (any of these wrapped in casts/parens)."""
    x = cond
    while x is not None and x.get('kind') in ('ImplicitCastExpr', 'ParenExpr', 'ExprWithCleanups',
                                              'CXXFunctionalCastExpr', 'CStyleCastExpr'):
        c = children(x)
        x = c[0] if c else None
    if x is None:
        return False
    k = x.get('kind')
    if k == 'UnaryOperator' and x.get('opcode') == '!':
        return _is_engagement_test(children(x)[0], pid)
    if k == 'DeclRefExpr':
        return (x.get('referencedDecl') or {}).get('id') == pid
    if k == 'CXXMemberCallExpr':
        callee = strip(children(x)[0])
        if callee.get('kind') == 'MemberExpr' and callee.get('name') in ('operator bool', 'has_value'):
            return _is_engagement_test(children(callee)[0], pid)
        return False
    if k in ('CXXOperatorCallExpr', 'BinaryOperator', 'CXXRewrittenBinaryOperator'):
        c = children(x)
        ops = c[1:] if k == 'CXXOperatorCallExpr' else c
        if k == 'CXXRewrittenBinaryOperator' and c:
            return _is_engagement_test(c[0], pid)
        if len(ops) == 2:
            def is_nullopt(n):
                return 'nullopt' in (strip(n, explicit=True).get('type') or '') or \
                    (strip(n, explicit=True).get('referencedDecl') or {}).get('name') == 'nullopt'
            a, b = ops
            if is_nullopt(b):
                return _is_engagement_test(a, pid)
            if is_nullopt(a):
                return _is_engagement_test(b, pid)
    return False


def optional_lifts(prog, chk, rid, min_instances=4):
    """The util helpers that lift a conversion over std::optional (optional<A> -> optional<B>) sit
    between nullable columns and optional fields on both the write and the read side.  They
    round-trip every stored value only if the result is engaged exactly when the argument is:
    every branch condition in their body must be an engagement test of the parameter, never a
    test of the value (`*p != 0` turns a stored 0 into 'not set')."""
    n = 0
    for f in prog.functions.values():
        if f.body is None or f.is_pattern or not prog.in_repo(f.file) or len(f.params) != 1:
            continue
        if not (f.qualname or '').startswith('djinterop::util::'):
            continue
        pt = (f.params[0].get('type') or '')
        if 'optional<' not in pt or 'optional<' not in (f.ret or ''):
            continue
        n += 1
        pid = f.params[0].get('id')
        conds = []
        for x in walk(f.body):
            k = x.get('kind')
            c = children(x)
            if k == 'IfStmt' and c:
                cs = [y for y in c if y.get('kind') not in ('DeclStmt',)]
                conds.append(cs[0])
            elif k == 'ConditionalOperator' and c:
                conds.append(c[0])
            elif k in ('WhileStmt', 'DoStmt', 'ForStmt', 'SwitchStmt'):
                conds.append(None)
        short = '%s %s' % ((f.qualname or '').replace('djinterop::', ''), f.type)
        bad = [c for c in conds if c is None or not _is_engagement_test(c, pid)]
        if conds and not bad:
            chk.ok(rid, '%s: engaged result iff engaged argument (%d engagement test(s), no test of the value)' % (
                short, len(conds)), locstr(f.node))
        elif not conds:
            chk.unknown(rid, short, 'no branch found in an optional-lifting helper: its shape is not the one modelled')
        else:
            chk.violation(rid, '%s|value-dependent engagement' % short, locstr(bad[0]) if bad[0] is not None else locstr(f.node),
                          '%s decides whether its result holds a value by something other than whether its '
                          'argument does: some stored values are read back as "not set" (or the reverse), so a '
                          'column written through the inverse helper does not come back as written' % short)
    if n < min_instances:
        chk.fail_broken('%s: only %d optional-lifting util helper(s) found (expected >= %d)' % (rid, n, min_instances))


def lost_updates(prog, chk, rid, min_instances=20):
    """A local object (not a reference) whose members are assigned and which is then never read
    again - except inside those assignments themselves - receives an update that is lost: typically
    `auto x = container.back(); x.field = ...;` where a reference was meant.  One instance per local
    with member assignments, over every library function."""
    def base_var(n):
        n = strip(n)
        while n.get('kind') in ('MemberExpr', 'ArraySubscriptExpr', 'ParenExpr', 'ImplicitCastExpr'):
            c = children(n)
            if not c:
                return None, None
            n = strip(c[0])
        if n.get('kind') == 'DeclRefExpr':
            return (n.get('referencedDecl') or {}).get('id'), n
        return None, None
    total = 0
    for f in prog.functions.values():
        if f.body is None or f.is_pattern or not prog.in_repo(f.file):
            continue
        locals_ = {}
        for x in walk(f.body):
            if x.get('kind') == 'VarDecl':
                t = x.get('type') or ''
                if '&' in t or '*' in t:
                    continue
                locals_[x.get('id')] = x
        if not locals_:
            continue
        writes = {}
        for x in walk(f.body):
            lhs = None
            if x.get('kind') in ('BinaryOperator', 'CompoundAssignOperator') and \
                    (x.get('opcode') or '') in ('=', '+=', '-=', '*=', '/=', '|=', '&=', '^=', '<<=', '>>=', '%='):
                lhs = strip(children(x)[0])
            elif x.get('kind') == 'CXXOperatorCallExpr':
                c = children(x)
                if (strip(c[0]).get('referencedDecl') or {}).get('name') == 'operator=' and len(c) > 2:
                    lhs = strip(c[1])
            if lhs is not None and lhs.get('kind') == 'MemberExpr':
                vid, node = base_var(lhs)
                if vid in locals_:
                    writes.setdefault(vid, []).append(x)
        for vid, ws in writes.items():
            inside = set()
            for w in ws:
                for y in walk(w):
                    inside.add(id(y))
            reads = [x for x in walk(f.body) if x.get('kind') == 'DeclRefExpr' and
                     (x.get('referencedDecl') or {}).get('id') == vid and id(x) not in inside]
            total += 1
            d = locals_[vid]
            short = '::'.join((f.qualname or '').split('::')[-2:])
            inst = '%s: local %s (%s) has %d member assignment(s) and is used afterwards' % (
                short, d.get('name'), (d.get('type') or '')[:40], len(ws))
            if reads:
                chk.ok(rid, inst, locstr(d))
            else:
                chk.violation(rid, '%s|%s|update lost on a local copy' % (short, d.get('name')), locstr(ws[0]),
                              '%s: local %s is a copy (type %s, not a reference); its members are assigned at %s and '
                              'the object is never read again, so the update never reaches the object it was '
                              'copied from' % (short, d.get('name'), d.get('type'), locstr(ws[0])))
    if total < min_instances:
        chk.fail_broken('%s: only %d local(s) with member assignments found (expected >= %d)' % (rid, total, min_instances))


def fetch_widths(prog, chk, rid, maps, min_instances=100):
    """A SELECT sink that builds a row aggregate from its lambda parameters fetches each column
    into a C++ type at least as wide as the row field it initialises (an `int32_t` parameter for an
    `int64_t` field truncates in sqlite3_column_int and widens the damaged value again)."""
    from .domains import _int_width_ok
    n = 0
    for sm in maps:
        if sm.stmt.kind != 'select' or sm.site.sink is None:
            continue
        sink = strip(sm.site.sink)
        params = []
        for x in walk(sink):
            if x.get('kind') == 'CXXMethodDecl' and x.get('name') == 'operator()':
                params = [p for p in children(x) if p.get('kind') == 'ParmVarDecl']
                break
        pid = {p.get('id'): p for p in params}
        if not pid:
            continue
        from . import program as _pg
        for x in walk(sink):
            if x.get('kind') not in ('InitListExpr', 'CXXConstructExpr', 'CXXTemporaryObjectExpr'):
                continue
            rec = prog.records.get(_pg.norm_type_name(x.get('type') or ''))
            if rec is None or not rec.fields:
                continue
            args = [a for a in children(x) if a.get('kind') != 'CXXDefaultArgExpr']
            if len(args) != len(rec.fields):
                continue
            for a, fd in zip(args, rec.fields):
                r = strip(a, explicit=True)
                while r.get('kind') in ('CXXConstructExpr', 'MaterializeTemporaryExpr', 'CXXBindTemporaryExpr',
                                        'ImplicitCastExpr', 'CXXFunctionalCastExpr') and \
                        len([c_ for c_ in children(r) if c_.get('kind') != 'CXXDefaultArgExpr']) == 1:
                    r = strip([c_ for c_ in children(r) if c_.get('kind') != 'CXXDefaultArgExpr'][0], explicit=True)
                if r.get('kind') != 'DeclRefExpr' or (r.get('referencedDecl') or {}).get('id') not in pid:
                    continue
                p = pid[r['referencedDecl']['id']]
                pt, ft = p.get('type') or '', fd.get('type') or ''
                wp, wf = _int_width_ok(pt), _int_width_ok(ft)
                if wp is None or wf is None:
                    continue
                n += 1
                short = '::'.join((sm.site.func.qualname or '').split('::')[-2:])
                inst = '%s: %s fetched as %s into field %s (%s)' % (short, p.get('name'), pt, fd.get('name'), ft)
                if wp is False and wf is True:
                    chk.violation(rid, '%s|%s fetched narrower than %s' % (short, p.get('name'), fd.get('name')),
                                  locstr(sm.site.node), inst + ': the column value is truncated to 32 bits before it '
                                  'reaches the 64-bit field, so large stored values do not read back as written')
                else:
                    chk.ok(rid, inst, locstr(sm.site.node))
    if n < min_instances:
        chk.fail_broken('%s: only %d parameter-to-field pairs found (expected >= %d)' % (rid, n, min_instances))
