"""Structured abstract interpreter: cursor / interval domain (DESIGN 3.3).

Path-enumerating over the structured AST (states are split at branches and
joined only at loop heads).  Integers are linear forms over symbols with
intervals; a pointer into a byte buffer carries an optional exact linear form
of the bytes remaining to the end of its buffer and a set of linear lower
bounds of it.  Every dereference, indexed access, pointer advance and bulk copy
is an obligation `remaining >= n`, reported through the issue callback when it
cannot be proved.  In-repo callees are inlined (bounded depth).
"""
from .frontend import AnalysisBroken
from .lin import LF, Sym, lo_of, hi_of, nonneg, type_range
from .program import children, strip, walk, locstr, FUNC_KINDS

MAX_DEPTH = 9      # frames on the inlining stack, the entry function included; exceeding it is reported, never silent
MAX_STATES = 400
BUF_MAX = 2 ** 31 - 1


# ---- values -----------------------------------------------------------------
class VTopT:
    def __repr__(self):
        return 'TOP'


VTop = VTopT()


class VInt:
    __slots__ = ('lf',)

    def __init__(self, lf):
        self.lf = lf if isinstance(lf, LF) else LF(lf)

    def __repr__(self):
        return 'int(%r)' % self.lf


class VPtr:
    """Pointer into buffer buf; exact / lbs describe (end_of_buffer - p)."""
    __slots__ = ('buf', 'exact', 'lbs', 'writable')

    def __init__(self, buf, exact=None, lbs=(), writable=False):
        self.buf = buf
        self.exact = exact
        self.lbs = tuple(lbs)
        self.writable = writable

    def bounds(self):
        return ((self.exact,) if self.exact is not None else ()) + self.lbs

    def advance(self, n):
        return VPtr(self.buf, self.exact - n if self.exact is not None else None,
                    tuple(l - n for l in self.lbs), self.writable)

    def __repr__(self):
        return 'ptr(%s exact=%r lbs=%r)' % (self.buf, self.exact, self.lbs)


class VTuple:
    __slots__ = ('items',)

    def __init__(self, items):
        self.items = list(items)

    def __repr__(self):
        return 'tuple%r' % (self.items,)


class VObj:
    __slots__ = ('path',)

    def __init__(self, path):
        self.path = path

    def __repr__(self):
        return 'obj%r' % (self.path,)


class VTie:
    """std::tie(a, b, ...): list of lvalue nodes."""
    __slots__ = ('targets',)

    def __init__(self, targets):
        self.targets = targets


class State:
    __slots__ = ('iv', 'vars', 'sizes', 'alias', 'facts', 'assumed')

    def __init__(self):
        self.iv = {}
        self.vars = {}
        self.sizes = {}
        self.alias = {}
        self.facts = []
        self.assumed = []

    def copy(self):
        s = State()
        s.iv = dict(self.iv)
        s.vars = dict(self.vars)
        s.sizes = dict(self.sizes)
        s.alias = dict(self.alias)
        s.facts = list(self.facts)
        s.assumed = list(self.assumed)
        return s

    def fresh(self, name, lo=None, hi=None, wire=False):
        s = Sym(name, wire)
        self.iv[s] = (lo, hi)
        return s

    def refine(self, s, lo=None, hi=None):
        """Intersect interval; returns False when it becomes empty."""
        l, h = self.iv.get(s, (None, None))
        if lo is not None and (l is None or lo > l):
            l = lo
        if hi is not None and (h is None or hi < h):
            h = hi
        self.iv[s] = (l, h)
        return not (l is not None and h is not None and l > h)

    def lo(self, lf):
        return lo_of(lf, self.iv)

    def hi(self, lf):
        return hi_of(lf, self.iv)

    def nonneg(self, lf):
        return nonneg(lf, self.iv, self.facts)

    def size_of(self, path, name='size'):
        if path not in self.sizes:
            s = self.fresh('%s(%s)' % (name, _pname(path)), 0, BUF_MAX)
            self.sizes[path] = LF.sym(s)
        return self.sizes[path]


def _pname(path):
    return '.'.join(str(p) for p in path[1:]) if len(path) > 1 else str(path[0])


class Outcome:
    __slots__ = ('status', 'state', 'value', 'exc', 'at')

    def __init__(self, status, state, value=None, exc=None, at=None):
        self.status = status    # None / 'return' / 'break' / 'continue' / 'throw'
        self.state = state
        self.value = value
        self.exc = exc
        self.at = at


class Issue:
    __slots__ = ('kind', 'node', 'msg', 'func', 'stack', 'detail', 'root')

    def __init__(self, kind, node, msg, func, stack, detail=None):
        self.kind = kind
        self.node = node
        self.msg = msg
        self.func = func
        self.stack = stack
        self.detail = detail


CONTAINER_HINTS = ('std::vector', 'std::basic_string', 'std::string', 'std::array',
                   'vector<', 'basic_string<', 'array<')


def is_container_type(t):
    return bool(t) and any(h in t for h in CONTAINER_HINTS)


def is_pointer_type(t):
    if not t:
        return False
    t = t.replace('const', '').strip()
    return t.endswith('*') or t.endswith('*&')


class Interp:
    def __init__(self, prog, on_issue=None, inline=None, max_depth=MAX_DEPTH):
        self.prog = prog
        self.issues = []
        self.on_issue = on_issue
        self.inline = inline          # predicate(Function) -> bool
        self.max_depth = max_depth
        self.stack = []               # Function objects being interpreted
        self.abn = []                 # abnormal outcomes collector stack
        self.unsupported = []
        self.obligations = 0
        self.discharged = 0
        self.analysed = set()
        self.loop_notes = []
        self.sites = []               # call-site chain of the inlined frames
        self._seen_issue = set()

    # ---- bookkeeping --------------------------------------------------------
    @property
    def func(self):
        return self.stack[-1]

    @property
    def tu(self):
        return self.stack[-1].tu

    def issue(self, kind, node, msg, detail=None):
        root = self.sites[0] if self.sites else node
        key = (kind, locstr(root), self.stack[0].key if self.stack else None)
        if key in self._seen_issue:
            return
        self._seen_issue.add(key)
        i = Issue(kind, node, msg, self.func, [f.qualname for f in self.stack], detail)
        i.root = root
        self.issues.append(i)
        if self.on_issue:
            self.on_issue(i)

    def unsup(self, node, why):
        self.unsupported.append('%s at %s in %s' % (why, locstr(node), self.func.qualname))

    # ---- paths / lvalues ----------------------------------------------------
    def path_of(self, n, st):
        """Access path of an lvalue / object expression, or None."""
        n = strip(n, explicit=True)
        k = n.get('kind')
        if k == 'DeclRefExpr':
            rid = (n.get('referencedDecl') or {}).get('id')
            if rid in st.alias:
                return st.alias[rid]
            return (rid,)
        if k == 'MemberExpr':
            c = children(n)
            if not c:
                return None
            b = self.path_of(c[0], st)
            if b is None:
                return None
            return b + (n.get('name'),)
        if k == 'CXXThisExpr':
            return st.alias.get('this', ('this',))
        if k == 'CXXOperatorCallExpr':
            c = children(n)
            op = (strip(c[0]).get('referencedDecl') or {}).get('name')
            if op in ('operator->', 'operator*') and len(c) >= 2:
                b = self.path_of(c[1], st)
                return b + ('*',) if b else None
            if op == 'operator[]' and len(c) >= 3:
                b = self.path_of(c[1], st)
                return b + ('[]',) if b else None
        if k == 'UnaryOperator' and n.get('opcode') == '*':
            b = self.path_of(children(n)[0], st)
            return b + ('*',) if b else None
        if k == 'ArraySubscriptExpr':
            b = self.path_of(children(n)[0], st)
            return b + ('[]',) if b else None
        if k == 'CXXMemberCallExpr':
            callee = strip(children(n)[0])
            nm = callee.get('name')
            if nm in ('value', 'front', 'back', 'at', 'get') and children(callee):
                b = self.path_of(children(callee)[0], st)
                return b + ('*' if nm in ('value', 'get') else '[]',) if b else None
        return None

    def typed_unknown(self, n, st, wire=False, name=None):
        t = n.get('dtype') or n.get('type')
        r = type_range(n.get('type')) or type_range(n.get('dtype'))
        if r is not None:
            s = st.fresh(name or ('v@%s' % locstr(n)), r[0], r[1], wire)
            return VInt(LF.sym(s))
        return VTop

    def load(self, path, n, st):
        if path in st.vars:
            v = st.vars[path]
            # a path through '[]' names every element of a container at once: two loads may see
            # different elements, so each load yields a fresh value of the same range and taint
            # (otherwise result[i].x - result[i-1].x would evaluate to 0)
            if '[]' in path and isinstance(v, VInt):
                lo, hi = st.lo(v.lf), st.hi(v.lf)
                r = type_range(n.get('type')) or type_range(n.get('dtype'))
                if r is not None:
                    lo = r[0] if lo is None else max(lo, r[0])
                    hi = r[1] if hi is None else min(hi, r[1])
                    s_ = st.fresh('elem@%s' % locstr(n), lo, hi, v.lf.has_wire())
                    return VInt(LF.sym(s_))
            return v
        t = n.get('dtype') or n.get('type') or ''
        r = type_range(n.get('type')) or type_range(n.get('dtype'))
        if r is not None:
            v = self.typed_unknown(n, st, name=_pname(path) if len(path) > 1 else (n.get('referencedDecl') or {}).get('name'))
            st.vars[path] = v
            return v
        if is_pointer_type(t):
            return VTop
        return VObj(path)

    def store(self, target, val, st):
        """Assign val to lvalue node target."""
        t = strip(target, explicit=True)
        if t.get('kind') == 'DeclRefExpr' and (t.get('referencedDecl') or {}).get('name') == 'ignore':
            return
        p = self.path_of(t, st)
        if p is None:
            # e.g. ptr[i] = x handled by caller
            return
        if isinstance(val, VObj):
            # object copy: copy known size
            if val.path in st.sizes:
                st.sizes[p] = st.sizes[val.path]
            else:
                st.sizes.pop(p, None)
            # forget fields below p
            for k in [k for k in st.vars if k[:len(p)] == p and k != p]:
                del st.vars[k]
            st.vars.pop(p, None)
            return
        if isinstance(val, VInt):
            r = type_range(t.get('type')) or type_range(t.get('dtype'))
            if r is not None:
                val = self.fit(val, r, st, t)
        if '[]' in p and isinstance(val, VInt) and isinstance(st.vars.get(p), VInt):
            old = st.vars[p]
            lo1, hi1, lo2, hi2 = st.lo(old.lf), st.hi(old.lf), st.lo(val.lf), st.hi(val.lf)
            if (lo1, hi1) != (lo2, hi2) or old.lf.has_wire() != val.lf.has_wire():
                lo = None if lo1 is None or lo2 is None else min(lo1, lo2)
                hi = None if hi1 is None or hi2 is None else max(hi1, hi2)
                r_ = type_range(t.get('type')) or type_range(t.get('dtype'))
                if r_ is not None:
                    lo = r_[0] if lo is None else lo
                    hi = r_[1] if hi is None else hi
                s_ = st.fresh('join@%s' % locstr(t), lo, hi, old.lf.has_wire() or val.lf.has_wire())
                val = VInt(LF.sym(s_))
        st.vars[p] = val
        if p in st.sizes and not isinstance(val, VObj):
            st.sizes.pop(p, None)

    def fit(self, v, r, st, n):
        """Value after conversion to integer type range r (lo, hi, signed)."""
        lo, hi = st.lo(v.lf), st.hi(v.lf)
        if lo is not None and hi is not None and lo >= r[0] and hi <= r[1]:
            return v
        s = st.fresh('conv@%s' % locstr(n), r[0], r[1], v.lf.has_wire())
        return VInt(LF.sym(s))

    # ---- obligations --------------------------------------------------------
    def need(self, p, n, st, node, what, kind):
        """Obligation: at least n bytes remain at pointer p."""
        self.obligations += 1
        if not isinstance(p, VPtr):
            self.issue(kind, node, '%s through a pointer whose buffer is unknown' % what)
            return False
        for b in p.bounds():
            if st.nonneg(b - n):
                self.discharged += 1
                return True
        self.issue(kind, node,
                   '%s needs %r byte(s) but the bytes remaining in %s are only known to be >= %s' % (
                       what, n, _pname(p.buf) if isinstance(p.buf, tuple) else p.buf,
                       self.describe_bounds(p, st)),
                   detail={'bounds': [repr(b) for b in p.bounds()], 'need': repr(n),
                           'intervals': {repr(s): st.iv.get(s) for b in list(p.bounds()) + [n] for s in b.syms()}})
        return False

    def describe_bounds(self, p, st):
        bs = p.bounds()
        if not bs:
            return '0 (nothing known)'
        out = []
        for b in bs:
            l = st.lo(b)
            out.append('%r (numerically >= %s)' % (b, l if l is not None else '-inf'))
        return ' / '.join(out)

    # ---- expressions --------------------------------------------------------
    def ev(self, n, st):
        """-> list of (value, state); abnormal outcomes go to self.abn[-1]."""
        n = strip(n)
        k = n.get('kind')
        m = getattr(self, 'ev_' + k, None)
        if m is not None:
            return m(n, st)
        if k in ('IntegerLiteral',):
            return [(VInt(int(n['value'])), st)]
        if k == 'CXXBoolLiteralExpr':
            return [(VInt(1 if n.get('value') else 0), st)]
        if k == 'CharacterLiteral':
            return [(VInt(int(n.get('value', 0))), st)]
        if k in ('FloatingLiteral', 'StringLiteral', 'CXXNullPtrLiteralExpr', 'LambdaExpr',
                 'GNUNullExpr', 'CXXScalarValueInitExpr', 'ImplicitValueInitExpr',
                 'CXXDefaultArgExpr', 'CXXDefaultInitExpr', 'UnaryExprOrTypeTraitExpr',
                 'CXXStdInitializerListExpr', 'CXXNewExpr', 'CXXDeleteExpr', 'PredefinedExpr',
                 'CXXTypeidExpr', 'RecoveryExpr', 'CXXInheritedCtorInitExpr', 'OpaqueValueExpr',
                 'SubstNonTypeTemplateParmExpr', 'CXXNoexceptExpr'):
            if k == 'CXXScalarValueInitExpr' and type_range(n.get('type')):
                return [(VInt(0), st)]
            if k == 'UnaryExprOrTypeTraitExpr':
                return [(self.typed_unknown(n, st), st)]
            return [(VTop, st)]
        if k in ('CXXStaticCastExpr', 'CStyleCastExpr', 'CXXFunctionalCastExpr',
                 'CXXReinterpretCastExpr', 'CXXConstCastExpr', 'BuiltinBitCastExpr'):
            c = children(n)
            if not c:
                return [(VTop, st)]
            out = []
            for v, s in self.ev(c[-1], st):
                out.append((self.cast(n, v, s), s))
            return out
        if k == 'CXXThrowExpr':
            c = children(n)
            t = None
            if c:
                t = strip(c[0]).get('type') or c[0].get('type')
                for v, s in self.ev(c[0], st):
                    self.abn[-1].append(Outcome('throw', s, exc=t, at=locstr(n)))
            else:
                self.abn[-1].append(Outcome('throw', st, exc='(rethrow)', at=locstr(n)))
            return []
        if k in ('PackExpansionExpr', 'CXXFoldExpr') or k in ('UnresolvedLookupExpr',):
            return [(VTop, st)]
        self.unsup(n, 'expression kind %s' % k)
        return [(VTop, st)]

    def cast(self, n, v, st):
        r = type_range(n.get('type')) or type_range(n.get('dtype'))
        if isinstance(v, VInt) and r is not None:
            return self.fit(v, r, st, n)
        if r is not None and not isinstance(v, VInt):
            return self.typed_unknown(n, st)
        return v

    def ev_ImplicitCastExpr(self, n, st):   # not reached (stripped); kept for safety
        return self.ev(children(n)[0], st)

    def ev_DeclRefExpr(self, n, st):
        ref = n.get('referencedDecl') or {}
        if ref.get('kind') == 'EnumConstantDecl':
            d = self.tu.ids.get(ref.get('id'))
            qn = self.tu.qn.get(ref.get('id')) or ''
            v = self.prog.enums.get(qn.rsplit('::', 1)[0], {}).get(ref.get('name'))
            if v is not None:
                return [(VInt(v), st)]
            return [(self.typed_unknown(n, st), st)]
        if ref.get('kind') in ('FunctionDecl', 'CXXMethodDecl'):
            return [(VTop, st)]
        rid = ref.get('id')
        p = st.alias.get(rid, (rid,))
        if p in st.vars:
            return [(st.vars[p], st)]
        # namespace-scope constants
        # the declaration this translation unit sees comes first: constants of unnamed namespaces have the same
        # qualified name in every file (`(anon)::fixed_length`), so the program-wide table must not decide them
        d = self.tu.ids.get(rid)
        if d is not None and d.get('kind') == 'VarDecl' and (d.get('constexpr') or (d.get('type') or '').startswith('const ')):
            from .program import literal_value
            lv = literal_value(d)
            if isinstance(lv, int) and not isinstance(lv, bool):
                return [(VInt(lv), st)]
        qn = self.tu.qn.get(rid)
        if qn in self.prog.consts and isinstance(self.prog.consts[qn], int) and '(anon)' not in (qn or ''):
            return [(VInt(self.prog.consts[qn]), st)]
        return [(self.load(p, n, st), st)]

    def ev_MemberExpr(self, n, st):
        p = self.path_of(n, st)
        c = children(n)
        if p is None:
            # member of a temporary: evaluate base for effects
            out = []
            for v, s in (self.ev(c[0], st) if c else [(VTop, st)]):
                if isinstance(v, VTuple) and n.get('name') in ('first', 'second'):
                    out.append((v.items[0 if n['name'] == 'first' else 1], s))
                else:
                    out.append((self.typed_unknown(n, s), s))
            return out
        if p in st.vars:
            return [(self.load(p, n, st), st)]      # load(): element paths ('[]') yield a fresh value
        # pair.first / .second of a tuple value held in a variable
        bp = p[:-1]
        if bp in st.vars and isinstance(st.vars[bp], VTuple) and n.get('name') in ('first', 'second'):
            return [(st.vars[bp].items[0 if n['name'] == 'first' else 1], st)]
        return [(self.load(p, n, st), st)]

    def ev_CXXThisExpr(self, n, st):
        return [(VObj(st.alias.get('this', ('this',))), st)]

    def ev_InitListExpr(self, n, st):
        out = []
        if (type_range(n.get('type')) or type_range(n.get('dtype'))) is not None and len(children(n)) <= 1:
            # braced scalar `std::ptrdiff_t{x}` / `int{}`: the value itself (no narrowing is allowed) / zero
            if not children(n):
                return [(VInt(0), st)]
            return self.ev(children(n)[0], st)
        for vals, s in self.evs(children(n), st):
            out.append((VTuple(vals), s))
        return out

    def evs(self, nodes, st):
        """Evaluate nodes left to right -> list of (values, state)."""
        acc = [([], st)]
        for x in nodes:
            nxt = []
            for vals, s in acc:
                for v, s2 in self.ev(x, s):
                    nxt.append((vals + [v], s2))
            acc = nxt
            if len(acc) > MAX_STATES:
                raise AnalysisBroken('state explosion in expression at ' + locstr(x))
        return acc

    def ev_UnaryOperator(self, n, st):
        op = n.get('opcode')
        c = children(n)
        if op in ('++', '--'):
            out = []
            for v, s in self.ev(c[0], st):
                d = 1 if op == '++' else -1
                if isinstance(v, VInt):
                    nv = VInt(v.lf + d)
                    r = type_range(n.get('type'))
                    self.store(c[0], nv, s)
                    out.append((v if n.get('isPostfix') else nv, s))
                elif isinstance(v, VPtr):
                    if d > 0:
                        self.need(v, LF(1), s, n, 'advancing the pointer by 1', 'advance')
                    nv = v.advance(LF(d))
                    self.store(c[0], nv, s)
                    out.append((v if n.get('isPostfix') else nv, s))
                else:
                    out.append((VTop, s))
            return out
        if op == '*':
            out = []
            for v, s in self.ev(c[0], st):
                if isinstance(v, VPtr):
                    self.need(v, LF(1), s, n, 'reading *ptr', 'read')
                    sy = s.fresh('byte@%s' % locstr(n), 0, 255, True)
                    out.append((VInt(LF.sym(sy)), s))
                else:
                    p = self.path_of(n, s)
                    out.append((self.load(p, n, s) if p else self.typed_unknown(n, s), s))
            return out
        if op == '&':
            x = strip(c[0])
            if x.get('kind') == 'CXXOperatorCallExpr':
                cc = children(x)
                opn = (strip(cc[0]).get('referencedDecl') or {}).get('name')
                if opn == 'operator[]' and len(cc) == 3 and is_container_type(strip(cc[1]).get('type')):
                    out = []
                    bp = self.path_of(cc[1], st)
                    for iv, s in self.ev(cc[2], st):
                        if bp is not None and isinstance(iv, VInt):
                            size = s.size_of(bp)
                            self.index_check(bp, iv, s, x, addr=True)
                            out.append((VPtr(bp, size - iv.lf, (), not _is_const(strip(cc[1]).get('type'))), s))
                        else:
                            out.append((VTop, s))
                    return out
            return [(VTop, s) for v, s in self.ev(c[0], st)]
        out = []
        for v, s in self.ev(c[0], st):
            if isinstance(v, VInt):
                if op == '-':
                    out.append((VInt(-v.lf), s))
                    continue
                if op == '+':
                    out.append((v, s))
                    continue
                if op == '!':
                    lo, hi = s.lo(v.lf), s.hi(v.lf)
                    if lo is not None and hi is not None and lo == hi:
                        out.append((VInt(0 if lo else 1), s))
                        continue
            out.append((self.typed_unknown(n, s), s))
        return out

    def index_check(self, path, iv, st, node, addr=False):
        """container[i]: 0 <= i < size (i <= size is tolerated nowhere: the
        operator[] precondition is i < size)."""
        self.obligations += 1
        size = st.size_of(path)
        ok_lo = st.nonneg(iv.lf)
        ok_hi = st.nonneg(size - iv.lf - 1)
        if ok_lo and ok_hi:
            self.discharged += 1
            return True
        self.issue('index', node,
                   'index %r into %s is not proved to be within [0, size) (size %r, numerically >= %s)' % (
                       iv.lf, _pname(path), size, st.lo(size)),
                   detail={'index': repr(iv.lf), 'size': repr(size), 'addr_only': addr})
        return False

    def ev_ArraySubscriptExpr(self, n, st):
        c = children(n)
        out = []
        for (b, i), s in self.evs(c[:2], st):
            if isinstance(b, VPtr) and isinstance(i, VInt):
                self.need(b, i.lf + 1, s, n, 'reading ptr[%r]' % i.lf, 'read')
                if s.lo(i.lf) is None or s.lo(i.lf) < 0:
                    self.issue('read', n, 'negative index %r' % i.lf)
                sy = s.fresh('byte@%s' % locstr(n), 0, 255, True)
                out.append((VInt(LF.sym(sy)), s))
            else:
                out.append((self.typed_unknown(n, s), s))
        return out

    def ev_ConditionalOperator(self, n, st):
        c = children(n)
        out = []
        ts, fs = self.branch(c[0], st)
        for s in ts:
            out.extend(self.ev(c[1], s))
        for s in fs:
            out.extend(self.ev(c[2], s))
        return out

    def ev_BinaryOperator(self, n, st):
        op = n.get('opcode')
        c = children(n)
        if op == '=':
            return self.assign(n, c[0], c[1], st)
        if op == ',':
            out = []
            for v, s in self.ev(c[0], st):
                out.extend(self.ev(c[1], s))
            return out
        if op in ('&&', '||', '==', '!=', '<', '>', '<=', '>='):
            ts, fs = self.branch(n, st)
            return [(VInt(1), s) for s in ts] + [(VInt(0), s) for s in fs]
        out = []
        for (a, b), s in self.evs(c[:2], st):
            out.append((self.arith(n, op, a, b, s, c), s))
        return out

    def ev_CompoundAssignOperator(self, n, st):
        op = (n.get('opcode') or '')[:-1]
        c = children(n)
        out = []
        for (a, b), s in self.evs(c[:2], st):
            if isinstance(a, VPtr) and isinstance(b, VInt) and op in ('+', '-'):
                d = b.lf if op == '+' else -b.lf
                if op == '+':
                    self.need(a, d, s, n, 'advancing the pointer by %r' % d, 'advance')
                    if s.lo(d) is None or s.lo(d) < 0:
                        self.issue('advance', n, 'pointer advanced by possibly negative %r' % d)
                v = a.advance(d)
            else:
                v = self.arith(n, op, a, b, s, c)
            self.store(c[0], v, s)
            out.append((v, s))
        return out

    def arith(self, n, op, a, b, st, c):
        if isinstance(a, VPtr) and isinstance(b, VInt) and op in ('+', '-'):
            return a.advance(b.lf if op == '+' else -b.lf)
        if isinstance(b, VPtr) and isinstance(a, VInt) and op == '+':
            return b.advance(a.lf)
        if isinstance(a, VPtr) and isinstance(b, VPtr) and op == '-':
            return self.ptrdiff(a, b, st, n, c)
        if isinstance(a, VInt) and isinstance(b, VInt):
            res = None
            if op == '+':
                res = a.lf + b.lf
            elif op == '-':
                res = a.lf - b.lf
            elif op == '*':
                if a.lf.is_const():
                    res = b.lf.scale(a.lf.c)
                elif b.lf.is_const():
                    res = a.lf.scale(b.lf.c)
            elif op in ('/', '%'):
                self.div_check(n, a, b, st)
                if op == '/' and b.lf.is_const() and b.lf.c > 0 and a.lf.is_const():
                    res = LF(a.lf.c // b.lf.c)
            if res is not None:
                return self.range_check(n, VInt(res), st, a, b, op)
            v = self.typed_unknown(n, st, wire=a.lf.has_wire() or b.lf.has_wire())
            # crude interval for * of two bounded values
            if op == '*' and isinstance(v, VInt):
                self.mul_overflow_check(n, a, b, st)
            if op == '%' and isinstance(v, VInt) and b.lf.is_const() and b.lf.c > 0 and st.lo(a.lf) is not None and st.lo(a.lf) >= 0:
                st.refine(next(iter(v.lf.t)), 0, b.lf.c - 1)
            if op == '/' and isinstance(v, VInt) and b.lf.is_const() and b.lf.c > 0:
                lo, hi = st.lo(a.lf), st.hi(a.lf)
                if lo is not None and lo >= 0:
                    k = b.lf.c
                    st.refine(next(iter(v.lf.t)), lo // k, hi // k if hi is not None else None)
                    # q = a / k  (a >= 0):  a - k*q >= 0  and  k*q + (k-1) - a >= 0
                    self.assume(st, a.lf - v.lf.scale(k))
                    self.assume(st, v.lf.scale(k) + (k - 1) - a.lf)
            return v
        return self.typed_unknown(n, st)

    def range_check(self, n, v, st, a, b, op):
        """Signed overflow of wire-derived arithmetic (D2)."""
        r = type_range(n.get('type')) or type_range(n.get('dtype'))
        if r is None:
            return v
        lo, hi = st.lo(v.lf), st.hi(v.lf)
        if lo is not None and hi is not None and lo >= r[0] and hi <= r[1]:
            return v
        if r[2] and (a.lf.has_wire() or b.lf.has_wire()):
            self.obligations += 1
            self.issue('overflow', n,
                       'signed %s arithmetic `%s` on a value read from the buffer can overflow: result range '
                       '[%s, %s] exceeds %s' % (n.get('type'), op, lo if lo is not None else '-inf',
                                                 hi if hi is not None else '+inf', n.get('type')),
                       detail={'result': repr(v.lf)})
            return v        # reported; continue as if it did not overflow
        elif r[2]:
            return v        # signed arithmetic on trusted values: overflow would be UB, not modelled here
        # unsigned wrap: fresh value of the type
        s = st.fresh('arith@%s' % locstr(n), r[0], r[1], v.lf.has_wire())
        return VInt(LF.sym(s))

    def mul_overflow_check(self, n, a, b, st):
        r = type_range(n.get('type'))
        if r is None or not r[2]:
            return
        if a.lf.has_wire() or b.lf.has_wire():
            self.obligations += 1
            self.issue('overflow', n, 'signed multiplication of buffer-derived values can overflow')

    def div_check(self, n, a, b, st):
        self.obligations += 1
        lo, hi = st.lo(b.lf), st.hi(b.lf)
        if (lo is not None and lo > 0) or (hi is not None and hi < 0):
            self.discharged += 1
            return
        self.issue('divzero', n, 'divisor %r is not proved non-zero (range [%s, %s])' % (b.lf, lo, hi))

    def ptrdiff(self, a, b, st, n, c):
        """a - b for pointers into the same buffer: rem(b) - rem(a)."""
        if a.buf != b.buf:
            return self.typed_unknown(n, st)
        if a.exact is not None and b.exact is not None:
            res = VInt(b.exact - a.exact)
            self._note_extra(res, st, n)
            return res
        # make the unknown side exact through a fresh symbol and write it back
        # to the variable it came from
        if a.exact is not None and b.exact is None:
            lo = 0
            for l in b.lbs:
                x = st.lo(l)
                if x is not None and x > lo:
                    lo = x
            R = st.fresh('rem@%s' % locstr(n), lo, BUF_MAX)
            nb = VPtr(b.buf, LF.sym(R), b.lbs, b.writable)
            bn = strip(c[1], explicit=True)
            p = self.path_of(bn, st)
            if p is not None and p in st.vars:
                st.vars[p] = nb
            res = VInt(LF.sym(R) - a.exact)
            self._note_extra(res, st, n)
            return res
        return self.typed_unknown(n, st)

    def _note_extra(self, res, st, n):
        """Remember the range of `end - ptr` inside decode_extra (how many trailing bytes a decoder
        can ever hand to its extra_data member): used by C03-S8."""
        if self.stack and self.stack[-1].name == 'decode_extra':
            if not hasattr(self, 'extra_rem'):
                self.extra_rem = []
            lo, hi = st.lo(res.lf), st.hi(res.lf)
            try:
                if st.nonneg(res.lf) and st.nonneg(LF(0) - res.lf):
                    lo = hi = 0
            except Exception:
                pass
            self.extra_rem.append((lo, hi, locstr(n)))

    # ---- assignment -----------------------------------------------------------
    def assign(self, n, lhs, rhs, st):
        out = []
        l = strip(lhs)
        if l.get('kind') == 'ArraySubscriptExpr':
            c = children(l)
            for (b, i, v), s in self.evs([c[0], c[1], rhs], st):
                if isinstance(b, VPtr) and isinstance(i, VInt):
                    self.need(b, i.lf + 1, s, n, 'writing ptr[%r]' % i.lf, 'write')
                out.append((v, s))
            return out
        if l.get('kind') == 'UnaryOperator' and l.get('opcode') == '*':
            for (b, v), s in self.evs([children(l)[0], rhs], st):
                if isinstance(b, VPtr):
                    self.need(b, LF(1), s, n, 'writing *ptr', 'write')
                else:
                    self.store(lhs, v, s)
                out.append((v, s))
            return out
        for v, s in self.ev(rhs, st):
            self.store(lhs, v, s)
            out.append((v, s))
        return out

    # ---- conditions -----------------------------------------------------------
    def branch(self, n, st):
        """-> (states where n is true, states where n is false)."""
        n = strip(n)
        k = n.get('kind')
        if k == 'UnaryOperator' and n.get('opcode') == '!':
            t, f = self.branch(children(n)[0], st)
            return f, t
        if k == 'BinaryOperator' and n.get('opcode') == '&&':
            c = children(n)
            t1, f1 = self.branch(c[0], st)
            ts, fs = [], list(f1)
            for s in t1:
                t2, f2 = self.branch(c[1], s)
                ts += t2
                fs += f2
            return ts, fs
        if k == 'BinaryOperator' and n.get('opcode') == '||':
            c = children(n)
            t1, f1 = self.branch(c[0], st)
            ts, fs = list(t1), []
            for s in f1:
                t2, f2 = self.branch(c[1], s)
                ts += t2
                fs += f2
            return ts, fs
        if k == 'BinaryOperator' and n.get('opcode') in ('==', '!=', '<', '>', '<=', '>='):
            c = children(n)
            ts, fs = [], []
            for (a, b), s in self.evs(c[:2], st):
                t, f = self.compare(n.get('opcode'), a, b, s, c)
                ts += t
                fs += f
            return ts, fs
        if k == 'CXXOperatorCallExpr':
            c = children(n)
            op = (strip(c[0]).get('referencedDecl') or {}).get('name', '')
            if op in ('operator==', 'operator!=', 'operator<', 'operator>', 'operator<=', 'operator>=') and len(c) == 3:
                ts, fs = [], []
                for (a, b), s in self.evs(c[1:3], st):
                    t, f = self.compare(op[8:], a, b, s, c[1:3])
                    ts += t
                    fs += f
                return ts, fs
        if k == 'CXXMemberCallExpr':
            callee = strip(children(n)[0])
            if callee.get('kind') == 'MemberExpr' and callee.get('name') == 'empty' and children(callee):
                recv = children(callee)[0]
                if is_container_type(strip(recv).get('type')):
                    p = self.path_of(recv, st)
                    if p is not None:
                        size = st.size_of(p)
                        return self.compare('==', VInt(size), VInt(0), st, None)
        # generic: evaluate as integer
        ts, fs = [], []
        for v, s in self.ev(n, st):
            if isinstance(v, VInt):
                t, f = self.compare('!=', v, VInt(0), s, None)
                ts += t
                fs += f
            else:
                ts.append(s)
                fs.append(s.copy())
        return ts, fs

    def compare(self, op, a, b, st, nodes):
        """Split st by `a op b`, refining intervals / pointer bounds."""
        if isinstance(a, VPtr) and isinstance(b, VPtr) and a.buf == b.buf:
            # compare remaining: a op b  <=>  rem(a) inverse-op rem(b)
            ra, rb = self._rem_lf(a, st), self._rem_lf(b, st)
            if ra is not None and rb is not None:
                inv = {'<': '>', '>': '<', '<=': '>=', '>=': '<=', '==': '==', '!=': '!='}[op]
                t, f = self.compare(inv, VInt(ra), VInt(rb), st, None)
                return t, f
            # one side without exact remaining: refine its lower bounds
            if op in ('==', '!=') and nodes is not None:
                known, unk, unk_node = (b, a, nodes[0]) if a.exact is None else (a, b, nodes[1])
                if known.exact is not None:
                    st_eq = st.copy()
                    st_ne = st.copy()
                    p = self.path_of(unk_node, st)
                    if p is not None and p in st.vars:
                        st_eq.vars[p] = VPtr(unk.buf, known.exact, unk.lbs, unk.writable)
                        st_ne.vars[p] = VPtr(unk.buf, None, unk.lbs + (known.exact + 1,), unk.writable) \
                            if self._is_end(known, st) else unk
                    return ([st_eq], [st_ne]) if op == '==' else ([st_ne], [st_eq])
            if op in ('<', '>', '<=', '>=') and nodes is not None:
                r = self._ptr_order(op, a, b, st, nodes)
                if r is not None:
                    return r
            return [st], [st.copy()]
        if not (isinstance(a, VInt) and isinstance(b, VInt)):
            return [st], [st.copy()]
        d = a.lf - b.lf          # a - b
        lo, hi = st.lo(d), st.hi(d)

        def decided(val):
            return ([st], []) if val else ([], [st])
        if op == '<':
            if hi is not None and hi < 0:
                return decided(True)
            if lo is not None and lo >= 0:
                return decided(False)
            sf = st.copy()
            return [self.assume(st, -d - 1)], [self.assume(sf, d)]
        if op == '<=':
            if hi is not None and hi <= 0:
                return decided(True)
            if lo is not None and lo > 0:
                return decided(False)
            sf = st.copy()
            return [self.assume(st, -d)], [self.assume(sf, d - 1)]
        if op == '>':
            return self.compare('<', b, a, st, None)
        if op == '>=':
            return self.compare('<=', b, a, st, None)
        if op == '==':
            if lo is not None and hi is not None and lo == hi == 0:
                return decided(True)
            if (lo is not None and lo > 0) or (hi is not None and hi < 0):
                return decided(False)
            sn = st.copy()
            se = self.assume(self.assume(st, d), -d)
            # a != b with a at an interval edge
            if lo == 0:
                sn = self.assume(sn, d - 1)
            elif hi == 0:
                sn = self.assume(sn, -d - 1)
            return [se], [sn]
        if op == '!=':
            t, f = self.compare('==', a, b, st, None)
            return f, t
        return [st], [st.copy()]

    def ptr_origin(self, node, st):
        """(variable path, offset LF) when node is `var` or `var + k`."""
        x = strip(node, explicit=True)
        if x.get('kind') == 'DeclRefExpr':
            p = self.path_of(x, st)
            if p is not None and isinstance(st.vars.get(p), VPtr):
                return p, LF(0)
            return None
        if x.get('kind') == 'BinaryOperator' and x.get('opcode') == '+':
            c = children(x)
            o = self.ptr_origin(c[0], st)
            if o is None:
                return None
            tmp = st.copy()
            vals = self.ev(c[1], tmp)
            if len(vals) == 1 and isinstance(vals[0][0], VInt) and vals[0][0].lf.is_const():
                return o[0], o[1] + vals[0][0].lf
        return None

    def _ptr_order(self, op, a, b, st, nodes):
        """a op b where one side has an exact remaining (typically `end`) and
        the other is `var + k` without one: refine var's lower bounds."""
        if op in ('>', '>='):
            return self._ptr_order({'>': '<', '>=': '<='}[op], b, a, st, [nodes[1], nodes[0]])
        # a < b  <=>  rem(a) > rem(b)
        strict = 1 if op == '<' else 0
        st_t, st_f = st, st.copy()
        if b.exact is not None and a.exact is None:
            o = self.ptr_origin(nodes[0], st)
            if o is None:
                return None
            path, off = o
            v = st_t.vars[path]
            # rem(var) - off = rem(a) >= rem(b) + strict
            st_t.vars[path] = VPtr(v.buf, v.exact, v.lbs + (b.exact + off + strict,), v.writable)
            return [st_t], [st_f]
        if a.exact is not None and b.exact is None:
            o = self.ptr_origin(nodes[1], st)
            if o is None:
                return None
            path, off = o
            v = st_f.vars[path]
            # false branch: a >= b (or a > b): rem(a) <= rem(b) - ... => rem(b) >= rem(a) + (1 - strict)
            st_f.vars[path] = VPtr(v.buf, v.exact, v.lbs + (a.exact + off + (1 - strict),), v.writable)
            return [st_t], [st_f]
        return None

    def _rem_lf(self, p, st):
        return p.exact

    def _is_end(self, p, st):
        return p.exact is not None and p.exact.is_const() and p.exact.c == 0

    def assume(self, st, lf):
        """Record lf >= 0: tighten the intervals of the symbols in lf, keep lf
        as a fact when it relates several symbols, and derive pointer lower
        bounds from it."""
        if lf.is_const():
            return st
        # interval propagation: k_j*s_j >= -(c + sum_{i != j} k_i*s_i)
        for s, k in lf.t.items():
            rest = LF(lf.c, {x: y for x, y in lf.t.items() if x is not s})
            h = st.hi(rest)
            if h is None:
                continue
            if k > 0:
                st.refine(s, lo=-(h // k))         # s >= ceil(-h/k)
            else:
                st.refine(s, hi=h // (-k))
        if len(lf.t) == 1:
            return st
        st.facts.append(lf)
        for p, v in list(st.vars.items()):
            if not isinstance(v, VPtr):
                continue
            new = list(v.lbs)
            # exact - lf is a lower bound of exact whenever lf >= 0
            if v.exact is not None and (v.exact.syms() & lf.syms()):
                cand = v.exact - lf
                if cand != v.exact and cand not in new:
                    new.append(cand)
            # x - m*lf is a lower bound too (m > 0); choose m to cancel a symbol
            for x in list(v.lbs):
                for sy, kx in x.t.items():
                    kf = lf.t.get(sy, 0)
                    if kx > 0 and kf > 0 and kx % kf == 0:
                        cand = x - lf.scale(kx // kf)
                        if cand not in new:
                            new.append(cand)
            if len(new) != len(v.lbs) and len(new) <= 8:
                st.vars[p] = VPtr(v.buf, v.exact, tuple(new), v.writable)
        return st

    # ---- calls ------------------------------------------------------------------
    def callee_info(self, n):
        c = children(n)
        if not c:
            return None, None, None
        callee = strip(c[0])
        if callee.get('kind') == 'MemberExpr':
            d = self.tu.ids.get(callee.get('referencedMemberDecl'))
            return d, callee.get('name'), callee
        ref = callee.get('referencedDecl') or {}
        return self.tu.ids.get(ref.get('id')), ref.get('name'), callee

    def ev_CallExpr(self, n, st):
        d, name, callee = self.callee_info(n)
        args = children(n)[1:]
        if d is None:
            return self.std_call(n, name, args, st)
        defs = self.prog.definitions_for(self.tu, d)
        f = defs[0] if len(defs) == 1 else None
        if f is not None and f.body is not None and not f.is_pattern and self.want_inline(f):
            return self.call_function(f, args, st, n)
        out = []
        for vals, s in self.evs(args, st):
            out.append((self.result_unknown(n, s), s))
        return out

    def want_inline(self, f):
        if f in self.stack:
            return False
        if len(self.stack) >= self.max_depth:
            # the callee's reads would go unchecked and its result would be unknown: never silently
            if self.inline is None or self.inline(f):
                self.unsup(f.node, 'call chain deeper than %d frames, %s not analysed at this site'
                           % (self.max_depth, f.qualname))
            return False
        if self.inline is not None:
            return self.inline(f)
        return True

    def result_unknown(self, n, st):
        t = n.get('type') or ''
        v = self.typed_unknown(n, st)
        return v

    def std_call(self, n, name, args, st):
        if name == 'tie':
            return [(VTie(args), st)]
        if name in ('move', 'forward', 'as_const', 'addressof') and len(args) == 1:
            return self.ev(args[0], st)
        if name in ('memcpy', 'memmove') and len(args) == 3:
            out = []
            for (dst, src, cnt), s in self.evs(args, st):
                if isinstance(cnt, VInt):
                    if isinstance(src, VPtr):
                        self.need(src, cnt.lf, s, n, '%s reading %r byte(s)' % (name, cnt.lf), 'read')
                    if isinstance(dst, VPtr):
                        self.need(dst, cnt.lf, s, n, '%s writing %r byte(s)' % (name, cnt.lf), 'write')
                out.append((VTop, s))
            return out
        if name in ('min', 'max') and len(args) == 2:
            # min(a, b) is a when a <= b and b otherwise (max: the other way round): the two cases
            # are separate paths, each with the comparison as a fact, exactly like the ternary
            # `a <= b ? a : b` it abbreviates
            out = []
            for (a, b), s in self.evs(args, st):
                if isinstance(a, VInt) and isinstance(b, VInt):
                    ts, fs = self.compare('<=', a, b, s, None)
                    first, second = (a, b) if name == 'min' else (b, a)
                    out += [(first, t) for t in ts] + [(second, f) for f in fs]
                else:
                    out.append((self.result_unknown(n, s), s))
            return out
        out = []
        for vals, s in self.evs(args, st):
            out.append((self.result_unknown(n, s), s))
        return out

    def ev_CXXMemberCallExpr(self, n, st):
        d, name, callee = self.callee_info(n)
        args = children(n)[1:]
        recv = children(callee)[0] if callee is not None and callee.get('kind') == 'MemberExpr' and children(callee) else None
        rt = (strip(recv).get('type') or '') if recv is not None else ''
        if recv is not None and is_container_type(rt) and 'optional' not in rt.split('<')[0]:
            return self.container_call(n, name, recv, args, st)
        if d is not None:
            defs = self.prog.definitions_for(self.tu, d)
            f = defs[0] if len(defs) == 1 else None
            if f is not None and f.body is not None and not f.is_pattern and not f.virtual \
                    and self.want_inline(f):
                return self.call_function(f, args, st, n, recv=recv)
        out = []
        nodes = ([recv] if recv is not None else []) + list(args)
        for vals, s in self.evs(nodes, st):
            out.append((self.result_unknown(n, s), s))
        return out

    def container_call(self, n, name, recv, args, st):
        p = self.path_of(recv, st)
        out = []
        if p is None:
            for vals, s in self.evs(args, st):
                out.append((self.result_unknown(n, s), s))
            return out
        const = _is_const(strip(recv).get('type'))
        if name in ('size', 'length'):
            return [(VInt(st.size_of(p)), st)]
        if name == 'empty':
            ts, fs = self.compare('==', VInt(st.size_of(p)), VInt(0), st, None)
            return [(VInt(1), s) for s in ts] + [(VInt(0), s) for s in fs]
        if name in ('data', 'c_str'):
            return [(VPtr(p, st.size_of(p), (), not const), st)]
        if name in ('begin', 'end', 'cbegin', 'cend', 'rbegin', 'rend'):
            return [(VTop, st)]
        if name in ('resize', 'reserve'):
            for vals, s in self.evs(args, st):
                v = vals[0] if vals else None
                if isinstance(v, VInt):
                    # a negative / huge count throws std::length_error
                    lo = s.lo(v.lf)
                    if lo is None or lo < 0:
                        s2 = self.assume(s, v.lf)
                        s = s2
                        self.abn[-1].append(Outcome('throw', s.copy(), exc='std::length_error', at=locstr(n)))
                    if name == 'resize':
                        s.sizes[p] = v.lf
                elif name == 'resize':
                    s.sizes.pop(p, None)
                out.append((VTop, s))
            return out
        if name in ('push_back', 'emplace_back'):
            for vals, s in self.evs(args, st):
                s.sizes[p] = s.size_of(p) + 1
                out.append((VTop, s))
            return out
        if name == 'pop_back':
            self.obligations += 1
            if st.nonneg(st.size_of(p) - 1):
                self.discharged += 1
            else:
                self.issue('index', n, 'pop_back on %s not proved non-empty' % _pname(p))
            st.sizes[p] = st.size_of(p) - 1
            return [(VTop, st)]
        if name == 'clear':
            st.sizes[p] = LF(0)
            return [(VTop, st)]
        if name == 'assign' and len(args) == 2:
            for (a, b), s in self.evs(args, st):
                if isinstance(a, VPtr) and isinstance(b, VInt):
                    self.need(a, b.lf, s, n, 'assign() reading %r byte(s)' % b.lf, 'read')
                    s.sizes[p] = b.lf
                else:
                    s.sizes.pop(p, None)
                out.append((VTop, s))
            return out
        if name in ('at',):
            for vals, s in self.evs(args, st):
                out.append((self.load(p + ('[]',), n, s), s))
            return out
        if name in ('front', 'back'):
            self.obligations += 1
            if st.nonneg(st.size_of(p) - 1):
                self.discharged += 1
            else:
                self.issue('index', n, '%s() on %s not proved non-empty' % (name, _pname(p)))
            return [(self.load(p + ('[]',), n, st), st)]
        if name in ('insert', 'erase', 'append', 'swap', 'emplace', 'shrink_to_fit'):
            for vals, s in self.evs(args, st):
                s.sizes.pop(p, None)
                out.append((VTop, s))
            return out
        for vals, s in self.evs(args, st):
            out.append((self.result_unknown(n, s), s))
        return out

    def ev_CXXOperatorCallExpr(self, n, st):
        c = children(n)
        callee = strip(c[0])
        ref = callee.get('referencedDecl') or {}
        op = ref.get('name', '')
        args = c[1:]
        if op == 'operator=' and len(args) == 2:
            lhs = strip(args[0])
            out = []
            if lhs.get('kind') == 'CallExpr' and self.callee_info(lhs)[1] == 'tie':
                targets = children(lhs)[1:]
                for v, s in self.ev(args[1], st):
                    items = v.items if isinstance(v, VTuple) else None
                    for i, t in enumerate(targets):
                        if items is not None and i < len(items):
                            self.store(t, items[i], s)
                        else:
                            tv = self.typed_unknown(strip(t), s)
                            self.store(t, tv, s)
                    out.append((VTop, s))
                return out
            for v, s in self.ev(args[1], st):
                self.store(args[0], v if not isinstance(v, VTopT) else self._fresh_for(strip(args[0]), s), s)
                out.append((v, s))
            return out
        if op == 'operator[]' and len(args) == 2 and is_container_type(strip(args[0]).get('type')) \
                and 'map' not in (strip(args[0]).get('type') or ''):
            p = self.path_of(args[0], st)
            out = []
            for iv, s in self.ev(args[1], st):
                if p is not None and isinstance(iv, VInt):
                    self.index_check(p, iv, s, n)
                out.append((self.load(p + ('[]',), n, s) if p else self.typed_unknown(n, s), s))
            return out
        if op in ('operator*', 'operator->') and len(args) == 1:
            p = self.path_of(n, st)
            return [(self.load(p, n, st) if p else self.typed_unknown(n, st), st)]
        if op in ('operator==', 'operator!=', 'operator<', 'operator>', 'operator<=', 'operator>='):
            ts, fs = self.branch(n, st)
            return [(VInt(1), s) for s in ts] + [(VInt(0), s) for s in fs]
        if op == 'operator()':
            # lambda / functor call: not inlined
            out = []
            for vals, s in self.evs(args, st):
                out.append((self.result_unknown(n, s), s))
            return out
        d = self.tu.ids.get(ref.get('id'))
        out = []
        for vals, s in self.evs(args, st):
            if op in ('operator++', 'operator--', 'operator+=', 'operator-=') and vals:
                pth = self.path_of(args[0], s)
                if pth is not None:
                    s.vars.pop(pth, None)
            out.append((self.result_unknown(n, s), s))
        return out

    def _fresh_for(self, n, st):
        v = self.typed_unknown(n, st)
        return v

    def ev_CXXConstructExpr(self, n, st):
        t = n.get('type') or ''
        args = [a for a in children(n) if a.get('kind') != 'CXXDefaultArgExpr']
        base = t.replace('const ', '')
        if base.startswith('std::pair<') or base.startswith('pair<') or base.startswith('std::tuple<'):
            out = []
            if len(args) >= 2:
                for vals, s in self.evs(args, st):
                    out.append((VTuple(vals), s))
                return out
        if len(args) == 1:
            a0 = strip(args[0])
            if (a0.get('type') or '').replace('const ', '') == base or n.get('elidable'):
                return self.ev(args[0], st)      # copy / move / elided
        out = []
        for vals, s in self.evs(args, st):
            if is_container_type(base) and len(vals) == 1 and isinstance(vals[0], VInt) \
                    and type_range(strip(args[0]).get('type')) is not None and 'string' not in base:
                out.append((('ctor_size', vals[0]), s))
            elif len(vals) == 1 and isinstance(vals[0], VInt) and type_range(t):
                out.append((vals[0], s))
            else:
                out.append((VTop, s))
        return out

    ev_CXXTemporaryObjectExpr = ev_CXXConstructExpr

    def call_function(self, f, args, st, node, recv=None):
        """Inline f at this call site."""
        out = []
        nodes = list(args)
        for vals, s in self.evs(nodes, st):
            s = s
            saved_alias = dict(s.alias)
            params = f.params
            for i, p in enumerate(params):
                pid = p['id']
                s.alias.pop(pid, None)
                if i >= len(vals):
                    s.vars.pop((pid,), None)
                    continue
                v = vals[i]
                pt = p.get('type') or ''
                if '&' in pt and not is_pointer_type(pt.replace('&', '')) or (isinstance(v, VObj)):
                    ap = self.path_of(args[i], s) if isinstance(v, (VObj, VTopT)) or '&' in pt else None
                    if ap is not None and not isinstance(v, (VInt, VPtr)):
                        s.alias[pid] = ap
                        continue
                s.vars[(pid,)] = v
            if recv is not None:
                rp = self.path_of(recv, s)
                if rp is not None:
                    s.alias['this'] = rp
            self.sites.append(node)
            try:
                res = self.run_body(f, s)
            finally:
                self.sites.pop()
            for o in res:
                o.state.alias = dict(saved_alias)
                if o.status == 'throw':
                    self.abn[-1].append(o)
                elif o.status in (None, 'return'):
                    v = o.value if o.value is not None else VTop
                    out.append((v, o.state))
        return out

    # ---- function bodies ----------------------------------------------------------
    def run_body(self, f, st):
        """Interpret f's body from state st -> list of Outcome (return / throw
        / fallthrough)."""
        if f.has_recovery:
            self.unsup(f.node, 'function has a clang recovery expression')
        self.stack.append(f)
        self.analysed.add(f.key)
        self.abn.append([])
        try:
            outs = self.exec(f.body, st)
            outs = outs + self.abn[-1]
        finally:
            self.abn.pop()
            self.stack.pop()
        return outs

    # ---- statements ---------------------------------------------------------------
    def exec(self, n, st):
        """-> list of Outcome with status in (None, 'return', 'break', 'continue');
        throws are deposited in self.abn[-1]."""
        k = n.get('kind')
        m = getattr(self, 'ex_' + k, None)
        if m is not None:
            return m(n, st)
        if k in ('NullStmt',):
            return [Outcome(None, st)]
        # expression statement
        return [Outcome(None, s) for v, s in self.ev(n, st)]

    def seq(self, stmts, st):
        live = [st]
        done = []
        for x in stmts:
            nxt = []
            for s in live:
                for o in self.exec(x, s):
                    if o.status is None:
                        nxt.append(o.state)
                    else:
                        done.append(o)
            live = self.dedupe(nxt)
            if len(live) > MAX_STATES:
                raise AnalysisBroken('state explosion at %s in %s' % (locstr(x), self.func.qualname))
            if not live:
                break
        return [Outcome(None, s) for s in live] + done

    def dedupe(self, states):
        return states

    def ex_CompoundStmt(self, n, st):
        return self.seq(children(n), st)

    def ex_DeclStmt(self, n, st):
        live = [st]
        for d in children(n):
            if d.get('kind') == 'DecompositionDecl':
                nxt = []
                for s in live:
                    nxt += self.decompose(d, s)
                live = nxt
                continue
            if d.get('kind') != 'VarDecl':
                continue
            init = [x for x in children(d) if not x['kind'].endswith('Attr')]
            nxt = []
            for s in live:
                path = (d['id'],)
                s.alias.pop(d['id'], None)
                t = d.get('type') or ''
                if not init:
                    s.vars.pop(path, None)
                    s.sizes.pop(path, None)
                    if is_container_type(d.get('dtype') or t):
                        s.sizes[path] = LF(0)
                    for key in [key for key in s.vars if key[:1] == path and key != path]:
                        del s.vars[key]
                    nxt.append(s)
                    continue
                e = init[-1]
                # reference binding to an object: alias
                if ('&' in t) and not is_pointer_type(t.replace('&', '')):
                    ap = self.path_of(e, s)
                    if ap is not None and type_range(t) is None:
                        s.alias[d['id']] = ap
                        nxt.append(s)
                        continue
                for v, s2 in self.ev(e, s):
                    s2.sizes.pop(path, None)
                    for key in [key for key in s2.vars if key[:1] == path and key != path]:
                        del s2.vars[key]
                    if isinstance(v, tuple) and v and v[0] == 'ctor_size':
                        cnt = v[1]
                        lo = s2.lo(cnt.lf)
                        if lo is None or lo < 0:
                            self.abn[-1].append(Outcome('throw', s2.copy(), exc='std::length_error', at=locstr(n)))
                            s2 = self.assume(s2, cnt.lf)
                        s2.sizes[path] = cnt.lf
                        s2.vars.pop(path, None)
                    elif isinstance(v, VObj):
                        if v.path in s2.sizes:
                            s2.sizes[path] = s2.sizes[v.path]
                        s2.vars.pop(path, None)
                    elif isinstance(v, VTopT):
                        s2.vars.pop(path, None)
                        if is_container_type(d.get('dtype') or t) and strip(e).get('kind') in ('CXXConstructExpr', 'InitListExpr') \
                                and not [a for a in children(strip(e)) if a.get('kind') != 'CXXDefaultArgExpr']:
                            s2.sizes[path] = LF(0)
                    else:
                        if isinstance(v, VInt):
                            r = type_range(t) or type_range(d.get('dtype'))
                            if r is not None:
                                v = self.fit(v, r, s2, d)
                        s2.vars[path] = v
                    nxt.append(s2)
            live = nxt
        return [Outcome(None, s) for s in live]

    def decompose(self, d, st):
        """`auto [a, b] = init;` - the bindings name the components of the initialiser: the items
        of a pair / tuple value positionally, the fields of an aggregate by name.  A component that
        is not known gets the unconstrained value of its type (a pointer: unknown buffer)."""
        binds = [b for b in children(d) if b.get('kind') == 'BindingDecl']
        init = [x for x in children(d) if x.get('kind') != 'BindingDecl' and not x['kind'].endswith('Attr')]
        is_ref = '&' in (d.get('type') or '')
        out = []
        for v, s in (self.ev(init[-1], st) if init else [(VTop, st)]):
            for i, b in enumerate(binds):
                ids = [b['id']]
                bc = children(b)
                be = strip(bc[0], explicit=True) if bc else {}
                if be.get('kind') == 'DeclRefExpr':       # tuple-like: the hidden variable holding get<i>()
                    ids.append((be.get('referencedDecl') or {}).get('id'))
                item = None
                if isinstance(v, VTuple) and len(v.items) == len(binds):
                    item = v.items[i]
                elif isinstance(v, VObj) and be.get('kind') == 'MemberExpr':
                    fp = v.path + (be.get('name'),)
                    if is_ref:
                        for j in ids:
                            s.vars.pop((j,), None)
                            s.alias[j] = fp
                        continue
                    item = s.vars.get(fp)
                for j in ids:
                    s.alias.pop(j, None)
                    for key in [key for key in s.vars if key[:1] == (j,)]:
                        del s.vars[key]
                    s.sizes.pop((j,), None)
                    if item is not None and not isinstance(item, VTopT):
                        s.vars[(j,)] = item
            out.append(s)
        return out

    def ex_ReturnStmt(self, n, st):
        c = children(n)
        if not c:
            return [Outcome('return', st)]
        return [Outcome('return', s, value=v) for v, s in self.ev(c[0], st)]

    def ex_BreakStmt(self, n, st):
        return [Outcome('break', st)]

    def ex_ContinueStmt(self, n, st):
        return [Outcome('continue', st)]

    def ex_IfStmt(self, n, st):
        c = children(n)
        pre = [st]
        if n.get('hasInit'):
            pre = [o.state for o in self.exec(c[0], st) if o.status is None]
            c = c[1:]
        if n.get('hasVar'):
            nxt = []
            for s in pre:
                nxt += [o.state for o in self.exec(c[0], s) if o.status is None]
            pre = nxt
            c = c[1:]
        out = []
        for s in pre:
            ts, fs = self.branch(c[0], s.copy())
            for t in ts:
                out += self.exec(c[1], t)
            for f in fs:
                if len(c) > 2:
                    out += self.exec(c[2], f)
                else:
                    out.append(Outcome(None, f))
        return out

    def ex_CXXTryStmt(self, n, st):
        c = children(n)
        self.abn.append([])
        try:
            outs = self.exec(c[0], st)
            thrown = self.abn[-1]
        finally:
            self.abn.pop()
        handlers = [h for h in c[1:] if h.get('kind') == 'CXXCatchStmt']
        for o in thrown:
            caught = False
            for h in handlers:
                hc = children(h)
                var = hc[0] if hc and hc[0].get('kind') == 'VarDecl' else None
                if self.catches(var.get('type') if var else None, o.exc):
                    caught = True
                    outs += self.exec(hc[-1], o.state)
                    break
            if not caught:
                self.abn[-1].append(o)
        return outs

    def catches(self, htype, thrown):
        if htype is None:
            return True
        h = htype.replace('const', '').replace('&', '').strip().split('::')[-1]
        t = (thrown or '').replace('const', '').replace('&', '').strip().split('::')[-1]
        if h == t or h == 'exception':
            return True
        std_bases = {'invalid_argument': ['logic_error'], 'length_error': ['logic_error'],
                     'out_of_range': ['logic_error'], 'domain_error': ['logic_error'],
                     'system_error': ['runtime_error'], 'overflow_error': ['runtime_error'],
                     'range_error': ['runtime_error']}
        if h in std_bases.get(t, ()):
            return True
        for q in self.prog.records:
            if q.split('::')[-1] == t:
                if any(b.split('::')[-1] == h for b in self.prog.all_bases(q)):
                    return True
        return False

    def ex_SwitchStmt(self, n, st):
        # switch: every case entry is explored from the incoming state; used
        # only outside the cursor functions (zlib status handling has its own rule)
        c = children(n)
        outs = []
        body = c[-1]
        items = children(body) if body.get('kind') == 'CompoundStmt' else [body]
        for v, s in self.ev(c[0], st):
            entries = []
            for i, x in enumerate(items):
                if x.get('kind') in ('CaseStmt', 'DefaultStmt'):
                    entries.append(i)
            has_default = any(self._has_default(x) for x in items)
            for ent in entries:
                s2 = s.copy()
                stmts = [self._unlabel(x) for x in items[ent:]]
                for o in self.seq(stmts, s2):
                    if o.status == 'break':
                        outs.append(Outcome(None, o.state))
                    else:
                        outs.append(o)
            if not has_default:
                outs.append(Outcome(None, s.copy()))
        return outs

    def _has_default(self, x):
        while x.get('kind') in ('CaseStmt', 'DefaultStmt'):
            if x['kind'] == 'DefaultStmt':
                return True
            x = children(x)[-1]
        return False

    def _unlabel(self, x):
        while x.get('kind') in ('CaseStmt', 'DefaultStmt'):
            x = children(x)[-1]
        return x

    # ---- loops ------------------------------------------------------------------------
    def modified_in(self, nodes, st):
        """Access paths (root decl ids) assigned inside nodes, and container
        paths mutated."""
        mod = set()
        muts = set()
        for root in nodes:
            if not root or not root.get('kind'):
                continue
            for x in walk(root):
                k = x.get('kind')
                tgt = None
                if k in ('BinaryOperator', 'CompoundAssignOperator') and (x.get('opcode') or '').endswith('=') \
                        and x.get('opcode') not in ('==', '!=', '<=', '>='):
                    tgt = children(x)[0]
                elif k == 'UnaryOperator' and x.get('opcode') in ('++', '--'):
                    tgt = children(x)[0]
                elif k == 'CXXOperatorCallExpr':
                    c = children(x)
                    op = (strip(c[0]).get('referencedDecl') or {}).get('name', '')
                    if op in ('operator=', 'operator+=', 'operator-=', 'operator++', 'operator--') and len(c) > 1:
                        l = strip(c[1])
                        if l.get('kind') == 'CallExpr' and self.callee_info(l)[1] == 'tie':
                            for t in children(l)[1:]:
                                p = self.path_of(t, st)
                                if p:
                                    mod.add(p)
                            continue
                        tgt = c[1]
                elif k == 'CXXMemberCallExpr':
                    callee = strip(children(x)[0])
                    if callee.get('kind') == 'MemberExpr' and callee.get('name') in (
                            'push_back', 'emplace_back', 'resize', 'clear', 'insert', 'erase', 'assign',
                            'pop_back', 'append', 'reserve', 'swap') and children(callee):
                        p = self.path_of(children(callee)[0], st)
                        if p:
                            muts.add(p)
                elif k in ('VarDecl', 'BindingDecl'):
                    mod.add((x['id'],))
                if tgt is not None:
                    p = self.path_of(tgt, st)
                    if p:
                        mod.add(p)
        return mod, muts

    def havoc(self, st, mod, muts, entry):
        for p in mod:
            v = entry.vars.get(p)
            if isinstance(v, VInt):
                d = self.tu.ids.get(p[0]) if len(p) == 1 else None
                r = type_range((d or {}).get('type')) if d else None
                lo, hi = (r[0], r[1]) if r else (None, None)
                s = st.fresh('loop:%s' % _pname(p), lo, hi, v.lf.has_wire())
                st.vars[p] = VInt(LF.sym(s))
            elif isinstance(v, VPtr):
                pass    # handled by the invariant inference
            else:
                st.vars.pop(p, None)
            for key in [key for key in st.vars if key[:len(p)] == p and key != p]:
                del st.vars[key]
        for p in muts:
            old = entry.sizes.get(p)
            lo = entry.lo(old) if old is not None else 0
            s = st.fresh('loopsize(%s)' % _pname(p), lo if lo is not None else 0, BUF_MAX)
            st.sizes[p] = LF.sym(s)

    def run_loop(self, n, entry_states, cond, inc, body, trip_fn=None, pre_body=None, do_first=False):
        outs = []
        for st0 in entry_states:
            outs += self.loop_one(n, st0, cond, inc, body, trip_fn, pre_body, do_first)
        return outs

    def loop_one(self, n, st0, cond, inc, body, trip_fn, pre_body, do_first):
        mod, muts = self.modified_in([cond, inc, body], st0)
        ptrs = [p for p in mod if isinstance(st0.vars.get(p), VPtr)]
        trip = trip_fn(st0, mod, muts) if trip_fn else None

        def iteration(head):
            """One abstract iteration from head -> (end states, other outcomes, exit states)."""
            exits = []
            if cond is not None and cond.get('kind') and not do_first:
                ts, fs = self.branch(cond, head)
                exits += fs
            else:
                ts = [head]
            ends, others = [], []
            for s in ts:
                if pre_body:
                    s = pre_body(s)
                for o in self.exec(body, s):
                    if o.status in (None, 'continue'):
                        s2 = o.state
                        if inc is not None and inc.get('kind'):
                            for v, s3 in self.ev(inc, s2):
                                ends.append(s3)
                        else:
                            ends.append(s2)
                    elif o.status == 'break':
                        exits.append(o.state)
                    else:
                        others.append(o)
            if do_first and cond is not None and cond.get('kind'):
                cont = []
                for s in ends:
                    ts2, fs2 = self.branch(cond, s)
                    cont += ts2
                    exits += fs2
                ends = cont
            return ends, others, exits

        def make_head(H):
            h = st0.copy()
            self.havoc(h, mod, muts, st0)
            for p in ptrs:
                e = st0.vars[p]
                h.vars[p] = VPtr(e.buf, None, tuple(H[p]), e.writable)
            return h

        # candidate invariants
        H = {}
        for p in ptrs:
            e = st0.vars[p]
            cands = []
            for b in e.bounds():
                if b not in cands:
                    cands.append(b)
                l = st0.lo(b)
                if l is not None and LF(l) not in cands:
                    cands.append(LF(l))
            H[p] = cands
        snap = (len(self.issues), self.obligations, self.discharged, len(self.abn[-1]), len(self.unsupported))

        seen_snap = set(self._seen_issue)

        def rollback():
            del self.issues[snap[0]:]
            self._seen_issue = set(seen_snap)
            self.obligations, self.discharged = snap[1], snap[2]
            del self.abn[-1][snap[3]:]
            del self.unsupported[snap[4]:]

        # -- relational rule for counted loops ---------------------------------------
        if trip is not None and len(ptrs) == 1 and not do_first:
            p = ptrs[0]
            e = st0.vars[p]
            rel = self.relational(e, trip, st0)
            passing = []
            for (c, r, b) in rel:
                head = make_head({p: [r + c]})
                ends, others, exits = iteration(head)
                ok = bool(ends) and not [o for o in others if o.status == 'break']
                for s in ends:
                    pe = s.vars.get(p)
                    if not (isinstance(pe, VPtr) and any(s.nonneg(x - r) for x in pe.bounds())):
                        ok = False
                rollback()
                if ok and (c, r) not in passing:
                    passing.append((c, r))
            if passing:
                # final pass with all proven invariants remaining >= c*(n-i) + r
                head = make_head({p: [r + c for c, r in passing]})
                ends, others, exits_f = iteration(head)
                for c, r in passing:
                    self.loop_notes.append('%s: counted-loop invariant remaining >= %r*(n-i) + %r for %s' % (
                        locstr(n), c, r, _pname(p)))
                outs = list(others)
                nlo = st0.lo(trip)
                ex = make_head({p: []})
                lbs = []
                if nlo is not None and nlo >= 0:
                    lbs = [r for c, r in passing]
                ex.vars[p] = VPtr(e.buf, None, tuple(lbs), e.writable)
                if cond is not None and cond.get('kind'):
                    ts, fs = self.branch(cond, ex)
                    for s in fs:
                        outs.append(Outcome(None, s))
                    if not fs:
                        outs.append(Outcome(None, ex))
                else:
                    outs.append(Outcome(None, ex))
                return outs
        # -- generic descending fix-point ----------------------------------------------
        for rnd in range(8):
            head = make_head(H)
            ends, others, exits = iteration(head)
            changed = False
            for p in ptrs:
                keep = []
                for h in H[p]:
                    good = True
                    for s in ends:
                        pe = s.vars.get(p)
                        if not (isinstance(pe, VPtr) and any(s.nonneg(x - h) for x in pe.bounds())):
                            good = False
                            break
                    if good:
                        keep.append(h)
                    else:
                        changed = True
                        # descend: the weakest numeric bound seen at the back edge
                        # is the next candidate
                        if ends:
                            cand = None
                            for s in ends:
                                pe = s.vars.get(p)
                                best = 0
                                if isinstance(pe, VPtr):
                                    for x in pe.bounds():
                                        l = s.lo(x)
                                        if l is not None and l > best:
                                            best = l
                                cand = best if cand is None else min(cand, best)
                            hl = st0.lo(h)
                            if cand and (hl is None or cand < hl) and LF(cand) not in keep and LF(cand) not in H[p]:
                                keep.append(LF(cand))
                H[p] = keep
            rollback()
            if not changed:
                break
        else:
            for p in ptrs:
                H[p] = []
        head = make_head(H)
        ends, others, exits = iteration(head)
        for p in ptrs:
            self.loop_notes.append('%s: loop invariant for %s: remaining >= %s' % (
                locstr(n), _pname(p), [repr(h) for h in H[p]] or '0'))
        outs = list(others)
        for s in exits:
            outs.append(Outcome(None, s))
        return outs

    def relational(self, e, trip, st):
        """Decompose an entry bound b of pointer e as c*trip + r (c > 0)."""
        out = []
        syms = list(trip.t.items())
        if len(syms) != 1:
            return out
        s, kn = syms[0]
        for b in e.bounds():
            kb = b.t.get(s, 0)
            if kb <= 0 or kn <= 0 or kb % kn:
                continue
            c = kb // kn
            r = b - trip.scale(c)
            if s in r.t:
                continue
            out.append((c, r, b))
        return out

    def ex_ForStmt(self, n, st):
        c = n.get('inner', [])
        c = c + [{}] * (5 - len(c))
        init, condvar, cond, inc, body = c[0], c[1], c[2], c[3], c[4]
        entry = [st]
        if init.get('kind'):
            entry = [o.state for o in self.exec(init, st) if o.status is None]

        trip_fn = self.counted_trip(cond, inc, body)
        return self.run_loop(n, entry, cond if cond.get('kind') else None,
                             inc if inc.get('kind') else None, body, trip_fn)

    def ex_WhileStmt(self, n, st):
        c = children(n)
        return self.run_loop(n, [st], c[0], None, c[-1], self.counted_trip(c[0], {}, c[-1]))

    def _unit_step(self, x, ivar, st0):
        """x is `++i`, `i++`, `i += 1` or `i = i + 1` for the variable path ivar"""
        x = strip(x)
        k = x.get('kind')
        c = children(x)
        if k == 'UnaryOperator' and x.get('opcode') == '++':
            return self.path_of(c[0], st0) == ivar
        if k == 'CompoundAssignOperator' and x.get('opcode') == '+=' and self.path_of(c[0], st0) == ivar:
            r = strip(c[1])
            return r.get('kind') == 'IntegerLiteral' and int(r['value']) == 1
        if k == 'BinaryOperator' and x.get('opcode') == '=' and self.path_of(c[0], st0) == ivar:
            r = strip(c[1], explicit=True)
            if r.get('kind') == 'BinaryOperator' and r.get('opcode') == '+':
                rc = children(r)
                lit = strip(rc[1])
                return self.path_of(rc[0], st0) == ivar and lit.get('kind') == 'IntegerLiteral' and int(lit['value']) == 1
        return False

    def counted_trip(self, cond, inc, body):
        """Trip count `N - i` of a counted loop: the condition is `i < N` / `i != N` (or mirrored),
        i goes up by exactly one per round - in the increment expression of a `for` whose body leaves
        i alone, or by the one unconditional top-level step statement of a body that does not write
        i otherwise and has no `continue` - and N is not changed by the loop."""
        def trip_fn(st0, mod, muts):
            if not cond or not cond.get('kind'):
                return None
            cn = strip(cond)
            if cn.get('kind') != 'BinaryOperator' or cn.get('opcode') not in ('<', '!=', '>'):
                return None
            cc = children(cn)
            if cn['opcode'] == '>':
                cc = [cc[1], cc[0]]
            ivar = self.path_of(cc[0], st0)
            if ivar is None or not isinstance(st0.vars.get(ivar), VInt):
                return None
            body_mod, body_muts = self.modified_in([body], st0)
            if inc is not None and inc.get('kind'):
                if ivar in body_mod or not self._unit_step(inc, ivar, st0):
                    return None
            else:
                stmts = children(body) if body.get('kind') == 'CompoundStmt' else [body]
                steps = [x for x in stmts if self._unit_step(x, ivar, st0)]
                others, _ = self.modified_in([x for x in stmts if not any(x is y for y in steps)], st0)
                if len(steps) != 1 or ivar in others:
                    return None
                if any(x.get('kind') == 'ContinueStmt' for x in walk(body)):
                    return None
            tmp = st0.copy()
            vals = self.ev(cc[1], tmp)
            if len(vals) != 1 or not isinstance(vals[0][0], VInt):
                return None
            N = vals[0][0].lf
            # N must be loop invariant: no variable it was read from is modified
            for x in walk(cc[1]):
                if x.get('kind') in ('DeclRefExpr', 'MemberExpr'):
                    p = self.path_of(x, st0)
                    if p and (p in mod or p in muts):
                        return None
            st0.iv.update({k: v for k, v in tmp.iv.items() if k not in st0.iv})
            st0.sizes.update({k: v for k, v in tmp.sizes.items() if k not in st0.sizes})
            return N - st0.vars[ivar].lf
        return trip_fn

    def ex_DoStmt(self, n, st):
        c = children(n)
        return self.run_loop(n, [st], c[1], None, c[0], do_first=True)

    def ex_CXXForRangeStmt(self, n, st):
        c = n.get('inner', [])
        body = c[-1]
        loopvar = c[-2]
        rng = c[1] if len(c) >= 8 else None
        # the range expression
        cont_path = None
        if rng and rng.get('kind') == 'DeclStmt':
            vd = children(rng)[0]
            init = children(vd)
            if init:
                cont_path = self.path_of(init[-1], st)
        lv = children(loopvar)[0] if loopvar.get('kind') == 'DeclStmt' and children(loopvar) else None

        def trip_fn(st0, mod, muts):
            if cont_path is None or cont_path in muts or cont_path in mod:
                return None
            return st0.size_of(cont_path)

        def pre_body(s):
            if lv is not None:
                s.alias.pop(lv['id'], None)
                s.vars.pop((lv['id'],), None)
                for key in [key for key in s.vars if key[:1] == (lv['id'],)]:
                    del s.vars[key]
                if cont_path is not None and type_range(lv.get('type')) is None:
                    # element object: a fresh anonymous element each iteration
                    el = cont_path + ('[]',)
                    for key in [key for key in s.vars if key[:len(el)] == el]:
                        del s.vars[key]
                    for key in [key for key in s.sizes if key[:len(el)] == el]:
                        del s.sizes[key]
                    s.alias[lv['id']] = el
            return s
        # a synthetic condition: iterations remain (unknown) - both ways
        return self.run_loop(n, [st], None, None, body, trip_fn, pre_body=pre_body, do_first=False) \
            if False else self._range_loop(n, st, body, trip_fn, pre_body)

    def _range_loop(self, n, st, body, trip_fn, pre_body):
        # like run_loop with an opaque condition (may exit at every head)
        opaque = {'kind': 'OpaqueCond'}
        return self.run_loop(n, [st], opaque, None, body, trip_fn, pre_body)

    def ev_OpaqueCond(self, n, st):
        return [(VTop, st)]

    # ---- entry -------------------------------------------------------------------------
    def analyse(self, f, setup=None):
        """Interpret function f from an unconstrained entry state."""
        st = State()
        for p in f.params:
            pid = p['id']
            t = p.get('type') or ''
            r = type_range(t)
            if r is not None:
                st.vars[(pid,)] = VInt(LF.sym(st.fresh(p.get('name') or 'arg', r[0], r[1])))
        if setup:
            setup(self, f, st)
        self.abn.append([])
        try:
            outs = self.run_body(f, st)
        finally:
            self.abn.pop()
        return outs


def _is_const(t):
    return bool(t) and t.strip().startswith('const ')
