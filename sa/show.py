"""Exploration aid: python3 -m sa.show <qualname-substring> [--full]"""
import sys
import time

from . import program


def fmt(n, ind=0, out=None, full=False):
    out = out if out is not None else []
    k = n.get('kind')
    bits = [k]
    for key in ('name', 'opcode', 'value', 'castKind', 'isArrow', 'isPostfix'):
        if key in n:
            bits.append('%s=%r' % (key, n[key]) if key not in ('name',) else repr(n[key]))
    if 'referencedDecl' in n:
        r = n['referencedDecl']
        bits.append('-> %s %s %s' % (r.get('kind'), r.get('name'), r.get('id')))
    if 'referencedMemberDecl' in n:
        bits.append('.-> %s' % n['referencedMemberDecl'])
    if 'type' in n and n['type']:
        bits.append(': ' + n['type'][:100])
    if k and k.endswith('Decl') and 'id' in n:
        bits.append('#' + n['id'])
    l = n.get('loc')
    if l:
        bits.append('@%s' % l[1])
    out.append('  ' * ind + ' '.join(str(b) for b in bits))
    for c in program.children(n):
        if not full and c.get('kind') in ('CXXRecordDecl',) and k == 'LambdaExpr':
            continue
        fmt(c, ind + 1, out, full)
    return out


if __name__ == '__main__':
    t = time.time()
    p = program.load()
    print('loaded in %.1fs: %d functions, %d records, %d enums, %d consts' % (
        time.time() - t, len(p.functions), len(p.records), len(p.enums), len(p.consts)),
        file=sys.stderr)
    pat = sys.argv[1] if len(sys.argv) > 1 else None
    full = '--full' in sys.argv
    if pat == '--list':
        for k in sorted(p.functions):
            f = p.functions[k]
            print(k, program.rel(f.file), f.line, 'PATTERN' if f.is_pattern else '')
    elif pat:
        for k in sorted(p.functions):
            if pat in k:
                f = p.functions[k]
                print('=====', k, program.rel(f.file), f.line)
                print('\n'.join(fmt(f.node, full=full)))
