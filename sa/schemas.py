"""Shared model of the schema family: creator classes, their DDL, version
constants, reference dumps."""
import glob
import os
import re

from . import catalog, sites, sql
from .frontend import AnalysisBroken
from .program import children, strip, walk, locstr, literal_value, norm_type_name

BASE = 'djinterop::engine::schema::schema_creator_validator'
NS = 'djinterop::engine::schema::'
ENUM = 'djinterop::engine::engine_schema'


def creator_classes(prog):
    """All concrete classes derived from schema_creator_validator."""
    out = []
    for qn in sorted(prog.all_derived(BASE)):
        r = prog.records[qn]
        if re.match(r'^schema_\d+_\d+_\d+(_\w+)?$', r.name or ''):
            out.append(qn)
    return out


def final_overrider(prog, cls, name):
    """The definition of virtual `name` that an object of dynamic type cls
    runs (single inheritance chain)."""
    for c in [cls] + prog.all_bases(cls):
        fs = [f for f in prog.by_name(c + '::' + name) if f.body is not None]
        if fs:
            if len(fs) > 1:
                raise AnalysisBroken('%s::%s has %d definitions' % (c, name, len(fs)))
            return fs[0]
    return None


def declaring_class(prog, cls, name):
    """First class on the chain cls, bases... that declares a method `name`
    (what unqualified lookup from cls finds)."""
    for c in [cls] + prog.all_bases(cls):
        r = prog.records.get(c)
        if r and any(m.get('name') == name for m in r.methods):
            return c
    return None


def is_virtual_method(prog, cls, name):
    """A method is virtual when any declaration of that name in the class or
    its bases carries `virtual` or `override` (the out-of-line definition a
    MemberExpr may point to does not repeat the keyword)."""
    for c in [cls] + prog.all_bases(cls):
        r = prog.records.get(c)
        if not r:
            continue
        for m in r.methods:
            if m.get('name') == name and (m.get('virtual') or any(
                    x.get('kind') == 'OverrideAttr' for x in children(m))):
                return True
    return False


def resolve_this_call(prog, dyn_cls, func, member_expr):
    """Target definition of `this->name(...)` written in `func`, executed on an
    object of dynamic type dyn_cls.  A call qualified with a class name
    (base::name(...)) is non-virtual: recognised because the referenced
    declaration is not the one unqualified lookup from func's class finds."""
    name = member_expr.get('name')
    d = func.tu.ids.get(member_expr.get('referencedMemberDecl'))
    ref_cls = None
    if d is not None:
        pid = d.get('_semctx') or func.tu.parent_ctx.get(d['id'])
        ref_cls = func.tu.qn.get(pid)
    looked = declaring_class(prog, func.cls, name) if func.cls else None
    if ref_cls and looked and ref_cls != looked:
        fs = [f for f in prog.by_name(ref_cls + '::' + name) if f.body is not None]
        if len(fs) == 1:
            return fs[0]
        return None
    is_virtual = is_virtual_method(prog, ref_cls or func.cls, name)
    if d is not None and not is_virtual:
        # non-virtual member: static resolution
        fs = [f for f in prog.by_name((ref_cls or '') + '::' + name) if f.body is not None]
        if len(fs) == 1:
            return fs[0]
    return final_overrider(prog, dyn_cls, name)


class Exec:
    """One executed statement of a creator: site + parsed statement + the
    function (final overrider) that issued it."""
    __slots__ = ('site', 'stmt', 'func', 'frames')

    def __init__(self, site, stmt, func, frames=()):
        self.site = site
        self.stmt = stmt
        self.func = func
        self.frames = frames      # ((calling function, call node), ...) outermost first


_ALLOWED_STMT = {'CompoundStmt', 'DeclStmt', 'ExprWithCleanups', 'CXXOperatorCallExpr',
                 'CXXMemberCallExpr', 'CallExpr', 'NullStmt', 'ReturnStmt'}


def _clone_site(s, parts):
    c = sites.Site()
    for a in sites.Site.__slots__:
        try:
            setattr(c, a, getattr(s, a))
        except AttributeError:
            pass
    c.sql_parts = sites._merge(parts)
    return c


def _subst_parts(parts, binding):
    """Replace the holes of an SQL text that name a parameter of the helper being executed by
    the text the caller passed for it (already resolved in the caller's own frame)."""
    out = []
    changed = False
    for p in parts:
        if not isinstance(p, str):
            ref = (strip(p.node, explicit=True).get('referencedDecl') or {}).get('id')
            if ref is not None and ref in binding:
                out.extend(binding[ref])
                changed = True
                continue
        out.append(p)
    return out, changed


def _issues_sql(prog, func, memo, depth=0):
    """Does this repository function (or one it calls) contain a statement site?"""
    if func.key in memo:
        return memo[func.key]
    memo[func.key] = False
    r = bool(sites.find_sites(func))
    if not r and depth < 5 and func.body is not None:
        for n in walk(func.body):
            if n.get('kind') in ('CallExpr', 'CXXMemberCallExpr'):
                t = _repo_callee(prog, func, n)
                if t is not None and _issues_sql(prog, t, memo, depth + 1):
                    r = True
                    break
    memo[func.key] = r
    return r


def _repo_callee(prog, func, call):
    try:
        d, q, _, _ = prog.resolve_callee(func.tu, call)
    except Exception:
        return None
    if d is None or not q:
        return None
    fs = [f for f in prog.definitions_for(func.tu, d, q)
          if f.body is not None and not f.is_pattern and prog.in_repo(f.file)]
    return fs[0] if len(fs) == 1 else None


def creation_trace(prog, cls, entry='create'):
    """Straight-line interpretation of cls::create: ordered list of Exec.
    Any control flow in a creator is outside the modelled subset.  Calls are followed into
    the member functions of the class (virtual ones resolved for the dynamic type cls) and into
    every other repository function that issues SQL (a file-local or static helper that two
    sibling creators share); SQL text a helper assembles from a parameter is read with the
    argument of the call in its place."""
    out = []
    sql_memo = {}

    def emit(s, func, frames, binding):
        if binding:
            parts, changed = _subst_parts(s.sql_parts, binding)
            if changed:
                s = _clone_site(s, parts)
        try:
            st = sql.parse(s.text)
        except sql.SqlError as e:
            raise AnalysisBroken('cannot read SQL at %s: %s' % (locstr(s.node), e))
        st._site = s
        out.append(Exec(s, st, func, frames))

    def bind_args(func, target, call, binding):
        """parameter id of target -> SQL text pieces of the argument (string-typed parameters)"""
        env = sites._string_locals(func)
        args = children(call)[1:]
        b = {}
        for i, p_ in enumerate(target.params):
            t = (p_.get('dtype') or p_.get('type') or '')
            if i >= len(args) or not ('string' in t or 'char' in t):
                continue
            parts = sites._merge(sites.sql_parts(args[i], env))
            parts, _ = _subst_parts(parts, binding)
            b[p_.get('id')] = sites._merge(parts)
        return b

    def run(func, depth, frames=(), binding=None):
        if depth > 6:
            raise AnalysisBroken('creator call depth exceeded in ' + func.qualname)
        binding = binding or {}
        body = func.body
        site_by_node = {id(s.node): s for s in sites.find_sites(func)}
        for stmt in children(body):
            k = stmt['kind']
            if k not in _ALLOWED_STMT:
                raise AnalysisBroken('creator %s contains control flow (%s at %s): '
                                     'outside the modelled subset'
                                     % (func.qualname, k, locstr(stmt)))
            n = strip(stmt)
            if id(n) in site_by_node or id(stmt) in site_by_node:
                s = site_by_node.get(id(n)) or site_by_node.get(id(stmt))
                emit(s, func, frames, binding)
                continue
            # any site nested deeper (e.g. inside a DeclStmt)?
            nested = [s for s in site_by_node.values()
                      if _contains(stmt, s.node)]
            if nested:
                for s in nested:
                    emit(s, func, frames, binding)
                continue
            if n['kind'] == 'CXXMemberCallExpr':
                callee = strip(children(n)[0])
                if callee['kind'] == 'MemberExpr':
                    recv = strip(children(callee)[0]) if children(callee) else None
                    if recv is not None and recv['kind'] == 'CXXThisExpr':
                        name = callee.get('name')
                        target = resolve_this_call(prog, cls, func, callee)
                        if target is None:
                            raise AnalysisBroken('cannot resolve %s called from %s' % (name, func.qualname))
                        run(target, depth + 1, frames + ((func, n),), bind_args(func, target, n, binding))
                        continue
            # other calls: followed when the callee is a repository function that issues SQL
            # (uuid generation etc. has no SQL effect and is not entered)
            for call in walk(stmt):
                if call.get('kind') not in ('CallExpr', 'CXXMemberCallExpr'):
                    continue
                target = _repo_callee(prog, func, call)
                if target is None or target.key == func.key or not _issues_sql(prog, target, sql_memo):
                    continue
                run(target, depth + 1, frames + ((func, call),), bind_args(func, target, call, binding))
        return

    f = final_overrider(prog, cls, entry)
    if f is None:
        raise AnalysisBroken('no %s for %s' % (entry, cls))
    run(f, 0)
    return out


def _contains(root, node):
    for x in walk(root):
        if x is node:
            return True
    return False


def _is_qualified_call(member_expr):
    # clang's JSON does not print the nested-name-specifier; a qualified member
    # call on `this` shows as MemberExpr whose implicit this is cast to the base
    c = children(member_expr)
    if not c:
        return False
    return False


def split_catalogs(trace, generation):
    """-> {alias: Catalog}; alias in music/perfdata (1.x) or main (2.x)."""
    cats = {}

    def cat(alias):
        alias = (alias or 'main').lower()
        if alias not in cats:
            cats[alias] = catalog.Catalog(alias)
        return cats[alias]
    for e in trace:
        st = e.stmt
        alias = st.schema
        if st.kind == 'create_trigger' and alias is None:
            alias = None
        if st.kind == 'drop':
            c = cat(alias)
            key = st.name.lower()
            toks = st.toks
            if_exists = any(t.is_kw('IF') for t in toks[:4])
            what = st.extra['what']
            d = {'TABLE': c.tables, 'INDEX': c.indexes, 'VIEW': c.views,
                 'TRIGGER': c.triggers}.get(what, {})
            if key not in d and if_exists:
                continue
        cat(alias).apply(st)
    return cats


def version_of_class(prog, cls):
    v = prog.var_nodes.get(cls + '::schema_version')
    if v is None:
        return None
    nums = [int(x['value']) for x in walk(v) if x.get('kind') == 'IntegerLiteral']
    if len(nums) != 3:
        return None
    return tuple(nums)


def factory_map(prog):
    """enumerator name -> class qualname from make_schema_creator_validator."""
    f = prog.func(NS + 'make_schema_creator_validator')
    out = {}
    sw = [n for n in walk(f.body) if n.get('kind') == 'SwitchStmt']
    if len(sw) != 1:
        raise AnalysisBroken('make_schema_creator_validator: expected one switch')
    body = children(sw[0])[-1]
    cur = []
    for st in children(body):
        n = st
        labels = []
        while n.get('kind') in ('CaseStmt', 'DefaultStmt'):
            if n['kind'] == 'CaseStmt':
                cs = children(n)
                lab = [x for x in walk(cs[0]) if x.get('kind') == 'DeclRefExpr']
                labels.append(lab[0]['referencedDecl']['name'] if lab else None)
                n = cs[-1]
            else:
                labels.append('default')
                n = children(n)[-1]
        cur += labels
        if n.get('kind') == 'ReturnStmt':
            cls = None
            for x in walk(n):
                if x.get('kind') == 'CallExpr':
                    t = (x.get('dtype') or '') + ' ' + (x.get('type') or '')
                    m = re.search(r'unique_ptr(?:_t)?<\s*(?:class |struct )?([\w:]+)', t)
                    if m:
                        cls = m.group(1)
                        if cls not in prog.records and NS + cls in prog.records:
                            cls = NS + cls
                        break
            for l in cur:
                out[l] = cls
            cur = []
    return out


# --------------------------------------------------------------------------
# reference dumps

class Reference:
    __slots__ = ('path', 'label', 'version', 'catalogs', 'generation', 'variant',
                 'nstatements')


def _info_version(cat):
    for st in cat.inserts:
        if st.kind == 'insert' and (st.table or '').lower() == 'information' and st.rows:
            row = st.rows[0]
            vals = [e.literal() for e in row]
            if st.columns:
                m = {c.lower(): v for c, v in zip(st.columns, vals)}
                return (m.get('schemaversionmajor'), m.get('schemaversionminor'),
                        m.get('schemaversionpatch'))
            td = cat.tables.get('information')
            if td is None:
                return None
            m = {c.name.lower(): v for c, v in zip(td.columns, vals)}
            return (m.get('schemaversionmajor'), m.get('schemaversionminor'),
                    m.get('schemaversionpatch'))
    return None


def load_references(repo):
    root = os.path.join(repo, 'testdata', 'ref', 'engine')
    out = []
    dirs = sorted(set(os.path.dirname(p) for p in
                      glob.glob(os.path.join(root, '*', '*', '**', '*.sql'), recursive=True)))
    for d in dirs:
        r = Reference()
        r.path = d
        r.label = os.path.relpath(d, root)
        r.catalogs = {}
        r.nstatements = 0
        files = sorted(glob.glob(os.path.join(d, '*.sql')))
        for f in files:
            base = os.path.basename(f)
            with open(f) as fh:
                text = fh.read()
            cat = catalog.Catalog(base)
            try:
                for toks in sql.split_statements(text):
                    cat.apply(sql.parse(toks))
                    r.nstatements += 1
            except sql.SqlError as e:
                raise AnalysisBroken('cannot read reference dump %s: %s' % (f, e))
            if 'Database2' in d:
                alias = 'main'
            elif base == 'm.db.sql':
                alias = 'music'
            elif base == 'p.db.sql':
                alias = 'perfdata'
            else:
                continue
            r.catalogs[alias] = cat
        r.generation = 2 if 'main' in r.catalogs else 1
        first = r.catalogs.get('main') or r.catalogs.get('music')
        r.version = _info_version(first) if first else None
        r.variant = None
        if r.version == (1, 18, 0):
            t = first.tables.get('track')
            c = t.col('isExternalTrack') if t else None
            r.variant = 'desktop' if (c is not None and c.type.upper() == 'NUMERIC') else 'os'
        out.append(r)
    return out
