"""Value-flow interpreter: which storage locations a value is computed from, and which
values are written to which storage locations (C01, C06, C11).

A function is evaluated abstractly over the structured AST with every repository callee
inlined (class-hierarchy resolved, depth-bounded), branches merged with phi terms.  SQL
statement sites are the sources and sinks:

  read site   SELECT c1, c2 .. FROM T WHERE k = ? ...  >> sink
              each output column becomes a leaf  loc(T, c, {discriminators})  handed to the
              sink (lambda parameters / tie / scalar); the lambda body is evaluated in place
  write site  INSERT / REPLACE / UPDATE: for every assigned column a  Write(loc, value term)
              event; DELETE: Write(loc(T, *), absent)

Discriminators are the non-key columns a row is selected by with a constant (MetaData.type =
title); for multi-row VALUES they are read per tuple.  SQL text with holes ("SELECT " +
column_name + ...) is completed from the constant the caller passes.

Value terms (tuples):
  ('in', name, path)            parameter of the entry function
  ('loc', table, column, disc, path)   storage read (path = member path inside a decoded blob)
  ('const', v)   ('id',)   ('unk', why)
  ('call', fn, args, inlined)   repository / library call; `inlined` = term of the inlined body
  ('op', name, args)            operator, cast, std helper
  ('ite', cond, a, b)           conditional value
  ('phi', alts)                 merge of alternatives
  ('agg', type, ((field, term), ...))   aggregate
  ('upd', base, ((path, term), ...))    base object with members overwritten
  ('mem', base, name)           member of a term that is not an aggregate
  ('vec', elem)                 container holding elements like elem
  ('guard', cond, labels, term) value assigned under switch(cond) in case labels
"""
import re

from . import sql, effects, sites as sites_mod
from .frontend import AnalysisBroken
from .program import children, strip, walk, locstr, literal_value, norm_type_name

MAXDEPTH = 9
TRANSPARENT_CALLS = {'move', 'forward', 'make_optional', 'optional_static_cast', 'value', 'get',
                     'operator*', 'operator->', 'to_integer', 'ref', 'cref', 'as_const',
                     'operator bool', 'has_value'}
ID_COLUMNS = {'id', 'trackid'}


def T_const(v):
    return ('const', v)


UNK = ('unk', '')


def is_agg(t):
    return isinstance(t, tuple) and t and t[0] in ('agg', 'upd')


def phi(alts):
    """Merge of alternatives; constant alternatives (nullopt / default) are dropped when a
    non-constant alternative exists (an absent value is not a provenance)."""
    flat = []
    for a in alts:
        if a is None:
            continue
        if a[0] == 'phi':
            for x in a[1]:
                if x not in flat:
                    flat.append(x)
        elif a not in flat:
            flat.append(a)
    if not flat:
        return UNK
    if len(flat) == 1:
        return flat[0]
    return ('phi', tuple(flat))


def member(t, name):
    """Member `name` of term t."""
    if t is None:
        return UNK
    k = t[0]
    if k in ('const', 'unk'):
        return t
    if k == 'agg':
        for f, v in t[2]:
            if f == name:
                return v
        return ('mem', t, name)
    if k == 'upd':
        hit = None
        for p, v in t[2]:
            if p == name:
                hit = v
            elif p.startswith(name + '.'):
                # partial overwrite below this member
                sub = tuple((q[len(name) + 1:], w) for q, w in t[2] if q.startswith(name + '.'))
                return ('upd', member(t[1], name), sub)
        if hit is not None:
            return hit
        return member(t[1], name)
    if k == 'phi':
        return phi([member(a, name) for a in t[1]])
    if k == 'ite':
        return ('ite', t[1], member(t[2], name), member(t[3], name))
    if k == 'guard':
        return ('guard', t[1], t[2], member(t[3], name))
    if k == 'loc':
        return ('loc', t[1], t[2], t[3], (t[4] + '.' if t[4] else '') + name)
    if k == 'in':
        return ('in', t[1], (t[2] + '.' if t[2] else '') + name)
    if k == 'call' and t[3] is not None:
        return ('callm', t[1], t[2], member(t[3], name), name)
    if k == 'callm':
        return ('callm', t[1], t[2], member(t[3], name), t[4] + '.' + name)
    if k == 'vec':
        return ('mem', t, name)
    return ('mem', t, name)


def _has_member(t, name):
    if t is None:
        return False
    if t[0] == 'agg':
        return any(f == name for f, _ in t[2])
    if t[0] == 'upd':
        return any(p == name or p.startswith(name + '.') for p, _ in t[2]) or _has_member(t[1], name)
    if t[0] == 'phi':
        return any(_has_member(a, name) for a in t[1])
    if t[0] in ('loc', 'in'):
        return True
    if t[0] == 'ite':
        return _has_member(t[2], name) or _has_member(t[3], name)
    return False


def set_member(t, path, v):
    if not path:
        return v
    if t is not None and t[0] == 'upd':
        ovs = tuple((p, w) for p, w in t[2] if p != path and not p.startswith(path + '.'))
        return ('upd', t[1], ovs + ((path, v),))
    return ('upd', t if t is not None else UNK, ((path, v),))


def leaves(t, out=None, seen=None):
    """All 'in' and 'loc' leaves (and 'id') of a term; for inlined calls the inlined body is
    followed instead of the arguments.  Terms are DAGs: visited nodes are remembered."""
    if out is None:
        out = []
    if seen is None:
        seen = set()
    if t is None:
        return out
    if id(t) in seen:
        return out
    seen.add(id(t))
    k = t[0]
    if k in ('in', 'loc'):
        if t not in out:
            out.append(t)
    elif k in ('const', 'id', 'unk'):
        pass
    elif k == 'call':
        if t[3] is not None and t[3][0] not in ('unk', 'const'):
            leaves(t[3], out, seen)
        else:
            for a in t[2]:
                leaves(a, out, seen)
    elif k == 'callm':
        leaves(t[3], out, seen)
    elif k == 'op':
        for a in t[2]:
            leaves(a, out, seen)
    elif k == 'ite':
        leaves(t[1], out, seen)
        leaves(t[2], out, seen)
        leaves(t[3], out, seen)
    elif k == 'phi':
        for a in t[1]:
            leaves(a, out, seen)
    elif k == 'agg':
        for f, v in t[2]:
            leaves(v, out, seen)
    elif k == 'upd':
        leaves(t[1], out, seen)
        for p, v in t[2]:
            leaves(v, out, seen)
    elif k == 'mem':
        leaves(t[1], out, seen)
    elif k == 'vec':
        leaves(t[1], out, seen)
    elif k == 'guard':
        for x in _guarded(t):
            if x not in out:
                out.append(x)
    return out


def _guarded(t):
    """Leaves of a guarded value: loc leaves of the same table as the switch condition get the
    case labels as discriminator."""
    cond, labels, val = t[1], t[2], t[3]
    cl = [x for x in leaves(cond) if x[0] == 'loc']
    out = []
    for x in leaves(val):
        if x[0] == 'loc' and cl and x[1] == cl[0][1] and labels:
            for lab in labels:
                disc = tuple(sorted(set(x[3]) | {(cl[0][2], lab)}))
                out.append(('loc', x[1], x[2], disc, x[4]))
        else:
            out.append(x)
    return out


def shape(t, depth=0):
    """(bounded) role-sensitive canonical form, see _shape."""
    return _shape(t, depth)[:4000]


def _shape(t, depth=0):
    """Role-sensitive canonical form: calls keep their name and ordered arguments (not the
    inlined body); transparent wrappers vanish; phi alternatives are ordered as met."""
    if t is None or depth > 7:
        return '..'
    k = t[0]
    if k == 'in':
        return 'in'
    if k == 'loc':
        d = ','.join('%s=%s' % (a, b) for a, b in t[3])
        return '%s.%s%s%s' % (t[1], t[2], '[' + d + ']' if d else '', ('.' + t[4]) if t[4] else '')
    if k == 'const':
        return 'const(%r)' % (t[1],)
    if k == 'id':
        return 'id'
    if k in ('call', 'callm') and t[3] is not None and \
            not any(x[0] in ('in', 'loc') for a in t[2] for x in leaves(a)) and \
            any(x[0] == 'loc' for x in leaves(t[3])):
        # a storage accessor (arguments are the id / constants): show what it reads
        return _shape(t[3], depth + 1)
    if k in ('call', 'callm'):
        s = '%s(%s)' % (t[1].split('::')[-1], ', '.join(_shape(a, depth + 1) for a in t[2]))
        return s + ('.' + t[4] if k == 'callm' else '')
    if k == 'op':
        return '%s(%s)' % (t[1], ', '.join(_shape(a, depth + 1) for a in t[2]))
    if k == 'ite':
        return '(%s ? %s : %s)' % (_shape(t[1], depth + 1), _shape(t[2], depth + 1), _shape(t[3], depth + 1))
    if k == 'phi':
        return 'phi(%s)' % ' | '.join(_shape(a, depth + 1) for a in t[1])
    if k == 'agg':
        return '{%s}' % ', '.join('%s: %s' % (f, _shape(v, depth + 1)) for f, v in t[2])
    if k == 'upd':
        return '%s with {%s}' % (_shape(t[1], depth + 1), ', '.join('%s: %s' % (p, _shape(v, depth + 1)) for p, v in t[2]))
    if k == 'mem':
        return '%s.%s' % (_shape(t[1], depth + 1), t[2])
    if k == 'vec':
        return '[%s]' % _shape(t[1], depth + 1)
    if k == 'guard':
        return 'case %s: %s' % ('/'.join(str(l) for l in t[2]), _shape(t[3], depth + 1))
    return '?'


class Write:
    __slots__ = ('table', 'column', 'disc', 'value', 'loc', 'func', 'kind', 'where', 'seq', 'conds')

    def __init__(self, table, column, disc, value, loc, func, kind, where=None, seq=0):
        self.seq = seq
        self.conds = ()
        self.table = table
        self.column = column
        self.disc = disc
        self.value = value
        self.loc = loc
        self.func = func
        self.kind = kind
        self.where = where

    @property
    def location(self):
        return (self.table, self.column, self.disc)

    def __repr__(self):
        return '<Write %s.%s%s <- %s>' % (self.table, self.column, list(self.disc) or '', shape(self.value)[:60])


class Read:
    __slots__ = ('table', 'outs', 'loc', 'where', 'func', 'seq', 'stmt')

    def __init__(self, table, outs, loc, where, func, seq, stmt):
        self.table, self.outs, self.loc, self.where = table, outs, loc, where
        self.func, self.seq, self.stmt = func, seq, stmt

    @property
    def columns(self):
        return [o[2] for o in self.outs if o and o[0] == 'loc']

    def __repr__(self):
        return '<Read %s(%s) where %s>' % (self.table, ','.join(self.columns), sorted(self.where))


class Env:
    def __init__(self, vars_=None, this=None):
        self.vars = dict(vars_ or {})
        self.this = this          # term for *this (members via self.fields)
        self.fields = {}

    def copy(self):
        e = Env(self.vars, self.this)
        e.fields = dict(self.fields)
        return e


class Halt(Exception):
    pass


class Interp:
    def __init__(self, prog, cg, eff, assume_schema=None, enum_order=None):
        """assume_schema: index into enum_order; conditions comparing the library's schema
        with an enumerator are then decided and only the taken branch is evaluated."""
        self.assume_schema = assume_schema
        self.enum_order = enum_order
        self.prog = prog
        self.cg = cg
        self.eff = eff
        self.writes = []
        self.reads = []
        self.unknown = []
        self.stack = []
        self.seq = 0
        self.cond_path = []      # conditions (terms) of all enclosing ifs / loops, across frames
        self.calls = []          # (seq, callee qualname, arg terms, call node, caller Function)
        self.throws = []         # (seq, type, node, Function)
        self._sql_cache = {}
        self.stats = {'inlined': 0, 'sites': 0}

    # ------------------------------------------------------------------ entry
    def run(self, func, args=None, this_fields=None):
        """Evaluate func with parameters bound to ('in', name, '') (or given args).
        -> return term."""
        self.writes = []
        self.reads = []
        self.calls = []
        self.throws = []
        self.cond_path = []
        self.seq = 0
        env = Env()
        for i, p in enumerate(func.params):
            env.vars[p['id']] = (args[i] if args and i < len(args) else ('in', p.get('name'), ''))
        env.fields = dict(this_fields or {})
        return self.call_body(func, env, 0)

    def call_body(self, func, env, depth):
        fr = Frame(self, func, env, depth)
        return fr.run()

    def note_unknown(self, what):
        if what not in self.unknown:
            self.unknown.append(what)


class Frame:
    def __init__(self, ip, func, env, depth):
        self.ip = ip
        self.func = func
        self.env = env
        self.depth = depth
        self.tu = func.tu
        self.rets = []
        # a statement whose binder travels through a repository helper is one site (rowmap.complete_site)
        from . import rowmap as _rowmap
        self.sites = {}
        for s in sites_mod.find_sites(func):
            s = _rowmap.complete_site(ip.prog, ip.cg, func, s)
            self.sites[id(s.node)] = s
        self.edges = {id(e.node): e for e in ip.cg.edges(func)}
        self.guards = []      # stack of (cond term, labels)
        self.cond_stack = []  # terms of the enclosing if / loop conditions

    def run(self):
        f = self.func
        for init in f.inits:
            # member initialisers: field = expr
            c = children(init)
            if c:
                nm = (init.get('anyInit') or {}).get('name')
                v = self.ev(c[-1])
                if nm:
                    self.env.fields[nm] = v
        base_len = len(self.ip.cond_path)
        self.block_depth = 0
        if f.body is not None:
            self.stmt(f.body)
        del self.ip.cond_path[base_len:]      # conditions of early returns hold to the end of this frame only
        return phi(self.rets) if self.rets else UNK

    # ---- statements ------------------------------------------------------------------
    def stmt(self, n):
        """Returns False if control cannot continue past n (return / throw on all paths)."""
        k = n.get('kind')
        if k == 'CompoundStmt':
            self.block_depth = getattr(self, 'block_depth', 0) + 1
            try:
                for c in children(n):
                    if not self.stmt(c):
                        return False
                return True
            finally:
                self.block_depth -= 1
        if k == 'DeclStmt':
            for d in children(n):
                if d.get('kind') == 'VarDecl':
                    init = [x for x in children(d) if not x['kind'].endswith('Attr')]
                    t = (d.get('type') or '')
                    if init:
                        v = self.ev(init[-1])
                    else:
                        v = ('agg', norm_type_name(t), ()) if self.ip.cg.record_of_type(t) else ('const', 'default')
                    self.env.vars[d['id']] = v
            return True
        if k == 'IfStmt':
            c = children(n)
            has_else = n.get('hasElse')
            body = c[-2:] if has_else else c[-1:]
            pre = c[:-2] if has_else else c[:-1]
            cond = None
            for p in pre:
                if p.get('kind') == 'DeclStmt':
                    self.stmt(p)
                else:
                    cond = self.ev(p)
            if self.ip.assume_schema is not None and pre:
                from . import rowmap
                r = rowmap._schema_cmp(pre[-1], self.ip.enum_order, self.func)
                if r is not None:
                    op, idx = r
                    v = self.ip.assume_schema
                    truth = {'>=': v >= idx, '<': v < idx, '>': v > idx, '<=': v <= idx}[op]
                    if truth:
                        return self.stmt(body[0])
                    return self.stmt(body[1]) if has_else else True
            base = self.env
            self.env = base.copy()
            self.cond_stack.append(cond)
            self.ip.cond_path.append(cond)
            # `if (x == Enum::label)` selects like a one-label switch arm (an if-chain over a discriminator
            # is the same decision as `switch (x) { case label: ... }`)
            sel = self._enum_equality(pre[-1]) if pre else None
            if sel is not None and sel[0] == '==':
                self.guards.append((sel[1], (sel[2],)))
            r1 = self.stmt(body[0])
            if sel is not None and sel[0] == '==':
                self.guards.pop()
            e1 = self.env
            self.env = base.copy()
            self.ip.cond_path[-1] = ('op', '!', (cond,))
            if sel is not None and sel[0] == '!=' and has_else:
                self.guards.append((sel[1], (sel[2],)))
            r2 = self.stmt(body[1]) if has_else else True
            if sel is not None and sel[0] == '!=' and has_else:
                self.guards.pop()
            self.cond_stack.pop()
            self.ip.cond_path.pop()
            e2 = self.env
            self.env = self._merge(base, [(e1, r1), (e2, r2)], cond)
            # `if (c) return;` directly in the function body: everything behind it runs under !c
            if cond is not None and not r1 and r2 and not has_else and getattr(self, 'block_depth', 0) == 1 and \
                    any(x.get('kind') == 'ReturnStmt' for x in walk(body[0])) and \
                    not any(x.get('kind') == 'CXXThrowExpr' for x in walk(body[0])):
                self.ip.cond_path.append(('op', '!', (cond,)))
            return r1 or r2
        if k in ('ForStmt', 'WhileStmt', 'DoStmt'):
            c = children(n)
            for p in c[:-1]:
                if p.get('kind') == 'DeclStmt':
                    self.stmt(p)
                elif p.get('kind'):
                    self.ev(p)
            base = self.env
            self.env = base.copy()
            self.stmt(c[-1])
            self.stmt(c[-1])
            self.env = self._merge(base, [(self.env, True), (base.copy(), True)], None)
            return True
        if k == 'CXXForRangeStmt':
            c = children(n)
            # children: [init] range-decl begin end cond inc loopvar-decl body
            rng = None
            loopvar = None
            for p in c[:-1]:
                if p.get('kind') == 'DeclStmt':
                    for d in children(p):
                        if d.get('kind') == 'VarDecl':
                            nm = d.get('name') or ''
                            init = [x for x in children(d) if not x['kind'].endswith('Attr')]
                            if nm.startswith('__range') and init:
                                rng = self.ev(init[-1])
                            elif not nm.startswith('__'):
                                loopvar = d
            elem = self._elem(rng)
            base = self.env
            self.env = base.copy()
            self.cond_stack.append(rng)
            self.ip.cond_path.append(rng)
            if loopvar is not None:
                self.env.vars[loopvar['id']] = elem
            self.stmt(c[-1])
            if loopvar is not None:
                self.env.vars[loopvar['id']] = elem
            self.stmt(c[-1])
            self.cond_stack.pop()
            self.ip.cond_path.pop()
            self.env = self._merge(base, [(self.env, True), (base.copy(), True)], None)
            return True
        if k == 'ReturnStmt':
            c = children(n)
            self.rets.append(self.ev(c[0]) if c else ('const', 'void'))
            return False
        if k == 'CXXTryStmt':
            c = children(n)
            r = self.stmt(c[0])
            for h in c[1:]:
                hb = children(h)[-1] if children(h) else None
                if hb is not None:
                    base = self.env
                    self.env = base.copy()
                    rr = self.stmt(hb)
                    self.env = self._merge(base, [(self.env, rr), (base.copy(), True)], None)
            return r
        if k == 'SwitchStmt':
            return self._switch(n)
        if k in ('BreakStmt', 'ContinueStmt', 'NullStmt'):
            return True
        if k in ('CaseStmt', 'DefaultStmt'):
            r = True
            for ch in children(n)[-1:]:
                r = self.stmt(ch)
            return r
        if k == 'CXXThrowExpr' or strip(n).get('kind') == 'CXXThrowExpr':
            th = n if k == 'CXXThrowExpr' else strip(n)
            c = children(th)
            self.ip.seq += 1
            self.ip.throws.append((self.ip.seq, (strip(c[0]).get('type') if c else None), th, self.func,
                                   list(self.ip.cond_path)))
            return False
        self.ev(n)
        return True

    def _switch(self, n):
        c = children(n)
        cond = None
        for p in c[:-1]:
            if p.get('kind') == 'DeclStmt':
                self.stmt(p)
            elif p.get('kind'):
                cond = self.ev(p)
        body = c[-1]
        # split the body into arms: [(labels, [stmts])] with fallthrough tracking
        arms = []
        cur_labels = []
        falls = []      # labels falling through from the previous arm
        base = self.env
        results = []
        pending = list(children(body)) if body.get('kind') == 'CompoundStmt' else [body]
        flat = []       # (labels at this statement, stmt)
        for st in pending:
            labels = []
            x = st
            while x.get('kind') in ('CaseStmt', 'DefaultStmt'):
                if x['kind'] == 'CaseStmt':
                    cs = children(x)
                    lab = None
                    for y in walk(cs[0]):
                        if y.get('kind') == 'DeclRefExpr' and (y.get('referencedDecl') or {}).get('kind') == 'EnumConstantDecl':
                            lab = y['referencedDecl']['name']
                    if lab is None:
                        lab = literal_value(cs[0])
                    labels.append(lab)
                    x = cs[-1]
                else:
                    labels.append('default')
                    x = children(x)[-1]
            flat.append((labels, x))
        active = []     # labels currently reaching
        reach_prev = False
        for labels, st in flat:
            if labels:
                active = (active if reach_prev else []) + labels
            elif not reach_prev and not active:
                continue
            e1 = base.copy() if not reach_prev or labels else self.env
            if labels and reach_prev:
                # fallthrough: continue from the env of the previous arm merged with base
                e1 = self._merge(base, [(self.env, True), (base.copy(), True)], None)
            self.env = e1
            self.guards.append((cond, tuple(active)))
            cont = True
            if st.get('kind') == 'BreakStmt':
                cont = False
                brk = True
            else:
                brk = self._ends_with_break(st)
                cont = self.stmt(st)
            self.guards.pop()
            if brk or not cont:
                if cont or brk:
                    results.append((self.env, True))
                reach_prev = False
                active = []
            else:
                reach_prev = True
        if reach_prev:
            results.append((self.env, True))
        results.append((base.copy(), True))
        self.env = self._merge(base, results, None)
        return True

    def _enum_equality(self, cond):
        """(op, term of the tested expression, enumerator name) for `E == Enum::x` / `E != Enum::x`."""
        n = strip(cond, explicit=True)
        if n.get('kind') != 'BinaryOperator' or n.get('opcode') not in ('==', '!='):
            return None
        a, b = children(n)

        def label(x):
            x = strip(x, explicit=True)
            if x.get('kind') == 'DeclRefExpr' and (x.get('referencedDecl') or {}).get('kind') == 'EnumConstantDecl':
                return x['referencedDecl']['name']
            return None
        la, lb = label(a), label(b)
        if (la is None) == (lb is None):
            return None
        return (n['opcode'], self.ev(b if la is not None else a), la if la is not None else lb)

    def _ends_with_break(self, st):
        if st.get('kind') == 'BreakStmt':
            return True
        if st.get('kind') == 'CompoundStmt':
            c = children(st)
            return bool(c) and c[-1].get('kind') == 'BreakStmt'
        return False

    def _merge(self, base, branches, cond):
        live = [e for e, r in branches if r]
        if not live:
            return base
        out = live[0].copy()
        keys = set()
        for e in live:
            keys |= set(e.vars)
        for kx in keys:
            vals = [e.vars.get(kx) for e in live]
            if all(v == vals[0] for v in vals):
                out.vars[kx] = vals[0]
            else:
                out.vars[kx] = phi([v for v in vals if v is not None])
        fk = set()
        for e in live:
            fk |= set(e.fields)
        for kx in fk:
            vals = [e.fields.get(kx) for e in live]
            out.fields[kx] = vals[0] if all(v == vals[0] for v in vals) else phi([v for v in vals if v is not None])
        return out

    def _elem(self, t):
        if t is None:
            return UNK
        if t[0] == 'vec':
            return t[1]
        if t[0] == 'phi':
            return phi([self._elem(a) for a in t[1]])
        if t[0] in ('call', 'callm') and t[3] is not None:
            return self._elem(t[3])
        if t[0] in ('const', 'unk'):
            return t
        return ('op', 'elem', (t,))

    # ---- expressions -----------------------------------------------------------------
    def ev(self, n):
        if not isinstance(n, dict) or not n.get('kind'):
            return UNK
        if id(n) in self.sites:
            return self.site(self.sites[id(n)])
        n0 = n
        n = strip(n)
        if id(n) in self.sites:
            return self.site(self.sites[id(n)])
        k = n.get('kind')
        v = None
        if k in ('IntegerLiteral', 'FloatingLiteral', 'StringLiteral', 'CXXBoolLiteralExpr',
                 'CharacterLiteral', 'CXXNullPtrLiteralExpr'):
            lv = literal_value(n)
            return ('const', lv if lv is not None else 'null')
        if k == 'DeclRefExpr':
            ref = n.get('referencedDecl') or {}
            if ref.get('kind') == 'EnumConstantDecl':
                return ('const', ref.get('name'))
            rid = ref.get('id')
            if rid in self.env.vars:
                return self.env.vars[rid]
            d = self.tu.ids.get(rid)
            if d is not None and d.get('kind') == 'VarDecl':
                lv = literal_value(d)
                if lv is not None:
                    return ('const', lv)
                qn = self.tu.qn.get(rid)
                if qn in self.ip.prog.consts:
                    return ('const', self.ip.prog.consts[qn])
                return ('const', 'global:%s' % ref.get('name'))
            if ref.get('name') == 'nullopt':
                return ('const', 'nullopt')
            return ('unk', ref.get('name') or '')
        if k == 'CXXThisExpr':
            return ('this',)
        if k == 'MemberExpr':
            c = children(n)
            if not c:
                return self.env.fields.get(n.get('name'), ('field', n.get('name')))
            b = self.ev(c[0])
            if b == ('this',):
                return self.env.fields.get(n.get('name'), ('field', n.get('name')))
            return member(b, n.get('name'))
        if k in ('CXXStaticCastExpr', 'CStyleCastExpr', 'CXXFunctionalCastExpr', 'CXXReinterpretCastExpr',
                 'CXXConstCastExpr', 'CXXDynamicCastExpr'):
            c = children(n)
            if len(c) == 1:
                return self.ev(c[0])
        if k in ('CXXConstructExpr', 'CXXTemporaryObjectExpr'):
            return self.construct(n)
        if k == 'InitListExpr':
            return self.initlist(n)
        if k in ('CallExpr', 'CXXMemberCallExpr', 'CXXOperatorCallExpr', 'UserDefinedLiteral'):
            return self.call(n)
        if k == 'ConditionalOperator':
            c = children(n)
            return ('ite', self.ev(c[0]), self.ev(c[1]), self.ev(c[2]))
        if k == 'BinaryOperator':
            c = children(n)
            op = n.get('opcode')
            if op == '=':
                v = self.ev(c[1])
                self.assign(c[0], v)
                return v
            if op == ',':
                self.ev(c[0])
                return self.ev(c[1])
            return ('op', op, (self.ev(c[0]), self.ev(c[1])))
        if k == 'CompoundAssignOperator':
            c = children(n)
            v = ('op', n.get('opcode'), (self.ev(c[0]), self.ev(c[1])))
            self.assign(c[0], v)
            return v
        if k == 'UnaryOperator':
            c = children(n)
            op = n.get('opcode')
            v = self.ev(c[0])
            if op in ('*', '&', '+'):
                return v
            if op in ('++', '--'):
                return v
            return ('op', op, (v,))
        if k == 'ArraySubscriptExpr':
            c = children(n)
            return self._elem(self.ev(c[0]))
        if k == 'LambdaExpr':
            return ('lambda', id(n))
        if k in ('CXXDefaultArgExpr', 'CXXDefaultInitExpr'):
            c = children(n)
            return self.ev(c[0]) if c else ('const', 'default')
        if k in ('ImplicitValueInitExpr', 'CXXScalarValueInitExpr', 'GNUNullExpr'):
            return ('const', 'default')
        if k == 'CXXStdInitializerListExpr':
            c = children(n)
            return self.ev(c[0]) if c else ('vec', UNK)
        if k == 'UnaryExprOrTypeTraitExpr':
            return ('const', 'sizeof')
        if k == 'CXXThrowExpr':
            return UNK
        if k == 'CXXNewExpr':
            c = children(n)
            return self.ev(c[-1]) if c else UNK
        if k in ('CompoundStmt', 'IfStmt', 'DeclStmt', 'ReturnStmt', 'ForStmt', 'CXXForRangeStmt',
                 'SwitchStmt', 'WhileStmt', 'DoStmt', 'CXXTryStmt'):
            self.stmt(n)
            return UNK
        c = children(n)
        if len(c) == 1:
            return self.ev(c[0])
        self.ip.note_unknown('%s at %s' % (k, locstr(n)))
        return ('unk', k)

    def assign(self, lhs, v):
        if self.guards:
            for cond, labels in reversed(self.guards):
                if cond is not None and labels:
                    v = ('guard', cond, labels, v)
        l = strip(lhs, explicit=True)
        path = []
        while True:
            k = l.get('kind')
            if k == 'MemberExpr':
                c = children(l)
                if not c or strip(c[0]).get('kind') == 'CXXThisExpr':
                    # field of *this
                    nm = l.get('name')
                    if path:
                        self.env.fields[nm] = set_member(self.env.fields.get(nm), '.'.join(reversed(path)), v)
                    else:
                        self.env.fields[nm] = v
                    return
                path.append(l.get('name'))
                l = strip(c[0], explicit=True)
            elif k == 'UnaryOperator' and l.get('opcode') in ('*', '&'):
                l = strip(children(l)[0], explicit=True)
            elif k == 'CXXOperatorCallExpr':
                c = children(l)
                op = (strip(c[0]).get('referencedDecl') or {}).get('name')
                if op in ('operator*', 'operator->'):
                    l = strip(c[1], explicit=True)
                elif op == 'operator[]':
                    # element store: weak update of the container
                    base = strip(c[1], explicit=True)
                    old = self.ev(base)
                    newv = v
                    if path:
                        newv = set_member(self._elem(old), '.'.join(reversed(path)), v)
                    self.assign(base, ('vec', phi([self._elem(old), newv])))
                    return
                else:
                    return
            elif k == 'CXXMemberCallExpr':
                callee = strip(children(l)[0])
                if callee.get('name') in ('value', 'operator*', 'operator->', 'get'):
                    l = strip(children(callee)[0], explicit=True)
                else:
                    return
            elif k == 'ArraySubscriptExpr':
                base = strip(children(l)[0], explicit=True)
                old = self.ev(base)
                self.assign(base, ('vec', phi([self._elem(old), v])))
                return
            elif k == 'DeclRefExpr':
                rid = (l.get('referencedDecl') or {}).get('id')
                if path:
                    self.env.vars[rid] = set_member(self.env.vars.get(rid), '.'.join(reversed(path)), v)
                else:
                    self.env.vars[rid] = v
                return
            elif k == 'CallExpr':
                # std::tie(a, b) = ...
                nm = (strip(children(l)[0]).get('referencedDecl') or {}).get('name')
                if nm == 'tie':
                    for i, a in enumerate(children(l)[1:]):
                        self.assign(a, ('op', 'tuple_elem%d' % i, (v,)))
                return
            else:
                return

    def initlist(self, n):
        t = n.get('dtype') or n.get('type') or ''
        rec = self.ip.cg.record_of_type(t)
        args = children(n)
        if rec and rec in self.ip.prog.records:
            r = self.ip.prog.records[rec]
            fields = [f.get('name') for f in r.fields]
            if len(args) <= len(fields):
                vals = []
                for f, a in zip(fields, args):
                    vals.append((f, self.ev(a)))
                for fdecl in r.fields[len(args):]:
                    init = [x for x in children(fdecl) if not x['kind'].endswith('Attr') and not x['kind'].endswith('Comment')]
                    vals.append((fdecl.get('name'), self.ev(init[-1]) if init else ('const', 'default')))
                return ('agg', rec, tuple(vals))
        if len(args) == 1:
            return self.ev(args[0])
        if 'vector' in t or 'array' in t or 'list' in t:
            return ('vec', phi([self.ev(a) for a in args]) if args else UNK)
        return ('op', 'init', tuple(self.ev(a) for a in args))

    def construct(self, n):
        t = n.get('dtype') or n.get('type') or ''
        args = [a for a in children(n)]
        real = [a for a in args if a.get('kind') != 'CXXDefaultArgExpr']
        rec = self.ip.cg.record_of_type(t)
        if rec is None:
            if len(real) == 1:
                return self.ev(real[0])
            if not real:
                if 'optional' in t:
                    return ('const', 'nullopt')
                if 'vector' in t or 'list' in t:
                    return ('vec', UNK)
                return ('const', 'default')
            return ('op', 'ctor:' + norm_type_name(t).split('<')[0], tuple(self.ev(a) for a in real))
        # copy / move construction
        if len(real) == 1:
            at = strip(real[0]).get('type') or ''
            if self.ip.cg.record_of_type(at) == rec:
                return self.ev(real[0])
        e = self.edges.get(id(n))
        r = self.ip.prog.records.get(rec)
        if not real and r is not None:
            vals = []
            for fdecl in r.fields:
                init = [x for x in children(fdecl) if not x['kind'].endswith('Attr') and not x['kind'].endswith('Comment')]
                vals.append((fdecl.get('name'), self.ev(init[-1]) if init else ('const', 'default')))
            return ('agg', rec, tuple(vals))
        if e is not None and e.targets and self.depth < MAXDEPTH:
            tg = [x for x in e.targets if x.body is not None or x.inits]
            if len(tg) == 1:
                f = tg[0]
                env = Env()
                for p, a in zip(f.params, args):
                    env.vars[p['id']] = self.ev(a)
                fr = Frame(self.ip, f, env, self.depth + 1)
                fr.run()
                flds = dict(fr.env.fields)
                # keep the constructor arguments reachable (base-class initialisers are not fields)
                flds['__ctor_args'] = ('op', 'args', tuple(env.vars.get(p['id'], UNK) for p in f.params))
                return ('agg', rec, tuple(sorted(flds.items())))
        return ('op', 'ctor:' + rec.split('::')[-1], tuple(self.ev(a) for a in real))

    # ---- calls -----------------------------------------------------------------------
    def call(self, n):
        k = n.get('kind')
        c = children(n)
        callee = strip(c[0]) if c else {}
        args = c[1:]
        name = None
        recv_node = None
        if callee.get('kind') == 'MemberExpr':
            name = callee.get('name')
            recv_node = children(callee)[0] if children(callee) else None
        else:
            name = (callee.get('referencedDecl') or {}).get('name')
        if k == 'CXXOperatorCallExpr':
            if name == 'operator=' and len(args) == 2:
                v = self.ev(args[1])
                self.assign(args[0], v)
                return v
            if name in ('operator*', 'operator->') and args:
                return self.ev(args[0])
            if name == 'operator[]' and len(args) == 2:
                return self._elem(self.ev(args[0]))
            if name == 'operator()' and args:
                fn = self.ev(args[0])
                return ('op', 'apply', tuple(self.ev(a) for a in args[1:]))
            if name in ('operator==', 'operator!=', 'operator<', 'operator>', 'operator<=', 'operator>=',
                        'operator+', 'operator-', 'operator!', 'operator&&', 'operator||', 'operator<<',
                        'operator>>', 'operator+=', 'operator/', 'operator%'):
                vs = tuple(self.ev(a) for a in args)
                if name == 'operator+=' and args:
                    self.assign(args[0], ('op', '+', vs))
                return ('op', name[8:], vs)
        e = self.edges.get(id(n))
        recv = self.ev(recv_node) if recv_node is not None else None
        # container / optional methods on values
        if recv_node is not None and (e is None or e.kind == 'external'):
            if name in ('value', 'operator*', 'operator->', 'get', 'operator bool', 'has_value',
                        'begin', 'end', 'cbegin', 'cend', 'data', 'c_str', 'str', 'front', 'back', 'at'):
                if name in ('front', 'back', 'at'):
                    return self._elem(recv)
                return recv
            if name in ('push_back', 'emplace_back', 'push_front', 'insert', 'emplace'):
                vs = [self.ev(a) for a in args]
                newv = vs[-1] if vs else UNK
                if name.startswith('emplace') and len(vs) > 1:
                    newv = ('op', 'init', tuple(vs))
                self.assign(recv_node, ('vec', phi([self._elem(recv), newv])))
                return UNK
            if name in ('resize', 'reserve', 'clear', 'erase', 'pop_back'):
                return UNK
            if name and name.startswith('operator') and not args:
                return recv      # conversion operator
            if name == 'value_or' and len(args) == 1:
                return phi([recv, self.ev(args[0])])
            return ('op', name or '?', (recv,) + tuple(self.ev(a) for a in args))
        if (e is None or not e.targets) and name in ('transform', 'copy', 'copy_if', 'copy_n', 'move') \
                and len(args) >= 3:
            # std algorithm writing through an insert iterator: dst gains f(element of src)
            outn = strip(args[2])
            while outn.get('kind') in ('MaterializeTemporaryExpr', 'CXXBindTemporaryExpr', 'ExprWithCleanups',
                                       'CXXConstructExpr') and len(children(outn)) == 1:
                outn = strip(children(outn)[0])
            oc = children(outn)
            if outn.get('kind') == 'CallExpr' and oc and \
                    (strip(oc[0]).get('referencedDecl') or {}).get('name') in ('back_inserter', 'inserter',
                                                                                'front_inserter') and len(oc) >= 2:
                src_elem = self._elem(self.ev(args[0]))
                newv = src_elem
                if name == 'transform' and len(args) >= 4:
                    newv = self.apply_lambda(args[3], [src_elem])
                elif name == 'copy_if' and len(args) >= 4:
                    self.apply_lambda(args[3], [src_elem])
                self.assign(oc[1], ('vec', phi([self._elem(self.ev(oc[1])), newv])))
                return UNK
        if e is None or not e.targets:
            vs = tuple(self.ev(a) for a in args if a.get('kind') != 'CXXDefaultArgExpr')
            if name in TRANSPARENT_CALLS and len(vs) >= 1:
                return vs[0]
            if name == 'tie':
                return ('op', 'tie', vs)
            return ('op', name or '?', ((recv,) if recv is not None and recv != ('this',) else ()) + vs)
        # blob codecs are value-preserving views of a column: transparent
        if name in ('from_blob', 'decode') and len(args) == 1 and e.targets and \
                all((t.cls or '').split('::')[-1].endswith(('_blob', '_data')) for t in e.targets):
            return self.ev(args[0])
        if name in ('to_blob', 'encode') and not args and recv is not None and e.targets and \
                all((t.cls or '').split('::')[-1].endswith(('_blob', '_data')) for t in e.targets):
            return recv
        # repository callee(s)
        targets = [t for t in e.targets if t.body is not None and not t.is_pattern]
        if not targets:
            vs = tuple(self.ev(a) for a in args)
            return ('call', e.name or name, vs, None)
        argv = [self.ev(a) for a in args]
        if e.name and e.name.endswith('::id') and not argv:
            if recv is None or recv == ('this',):
                return ('id',)
            return ('op', 'id_of', (recv,))
        self.ip.seq += 1
        self.ip.calls.append((self.ip.seq, e.name or name, tuple(argv), n, self.func))
        if self.depth >= MAXDEPTH or any(t.key in self.ip.stack for t in targets):
            return ('call', e.name or name, tuple(argv), None)
        outs = []
        for t in targets:
            env = Env()
            for i, p in enumerate(t.params):
                if i < len(argv):
                    env.vars[p['id']] = argv[i]
                else:
                    init = [x for x in children(p) if not x['kind'].endswith('Attr') and x.get('kind') != 'ParmVarDecl']
                    env.vars[p['id']] = self.ev(init[-1]) if init else ('const', 'default')
            # receiver object: its members, when it is a value we track
            if recv is not None and is_agg(recv):
                pass
            if recv is not None and recv != ('this',):
                env.this = recv
                if recv[0] in ('agg', 'upd', 'loc', 'in', 'phi', 'ite', 'guard'):
                    env.fields = _FieldsOf(recv)
            elif recv == ('this',) or recv is None:
                env.fields = self.env.fields if (t.cls and t.cls == self.func.cls) else {}
            self.ip.stack.append(t.key)
            self.ip.stats['inlined'] += 1
            fr = Frame(self.ip, t, env, self.depth + 1)
            try:
                outs.append(fr.run())
            finally:
                self.ip.stack.pop()
            # an object handed over by non-const reference is the caller's object: what the callee assigned to it
            # (or to members of it) is visible in the caller afterwards
            if len(targets) == 1:
                for i, p_ in enumerate(t.params):
                    pt = p_.get('type') or ''
                    if i >= len(args) or '&' not in pt or '&&' in pt or pt.lstrip().startswith('const '):
                        continue
                    a_ = strip(args[i], explicit=True)
                    if a_.get('kind') != 'DeclRefExpr':
                        continue
                    aid = (a_.get('referencedDecl') or {}).get('id')
                    newv = fr.env.vars.get(p_['id'])
                    if aid in self.env.vars and newv is not None and newv is not argv[i] and newv != argv[i]:
                        self.env.vars[aid] = phi([newv]) if False else newv
        res = phi(outs)
        return ('call', e.name or name, tuple(argv), res)

    # ---- SQL sites -------------------------------------------------------------------
    def site(self, s):
        self.ip.stats['sites'] += 1
        # complete the text
        parts = []
        for p in s.sql_parts:
            if isinstance(p, str):
                parts.append(p)
            else:
                v = self.ev(p.node)
                while v and v[0] in ('call',) and v[3] is not None:
                    v = v[3]
                if v and v[0] == 'const' and isinstance(v[1], str):
                    parts.append(v[1])
                else:
                    from . import rowmap as _rowmap
                    ct = _rowmap.const_text(self.ip.prog, self.tu, p.node)   # text built from constants only
                    parts.append(ct if ct is not None else effects.HOLE + str(p.desc))
        text = ''.join(parts)
        st = self.ip._sql_cache.get(text)
        if st is None:
            try:
                st = sql.parse(text)
            except sql.SqlError as ex:
                self.ip.note_unknown('SQL at %s: %s' % (locstr(s.node), ex))
                return UNK
            self.ip._sql_cache[text] = st
        binds = self._bind_values(s)
        where = {}
        for i, p in enumerate(st.params):
            if p.role == 'where' and p.column and i < len(binds):
                where[p.column.lower()] = binds[i]
        disc = tuple(sorted((c, _constval(v)) for c, v in where.items()
                            if _constval(v) is not None and c not in ID_COLUMNS))
        table = st.table
        loc = locstr(s.node)
        self.ip.seq += 1
        n0 = len(self.ip.writes)
        try:
            return self._site_effects(s, st, binds, where, disc, table, loc)
        finally:
            for w in self.ip.writes[n0:]:
                w.seq = self.ip.seq
                w.conds = tuple(self.ip.cond_path)

    def _bind_values(self, s):
        """Terms of the bound values, in order; a bind written in a helper the binder travels
        through is evaluated in the helper with its parameters bound to the call's arguments."""
        ctx = getattr(s, 'bind_ctx', None)
        if not ctx:
            return [self.ev(b) for b in s.binds]
        out = []
        frames = {}
        for b, cx in zip(s.binds, ctx):
            if cx is None:
                out.append(self.ev(b))
                continue
            helper, subst = cx
            fr = frames.get(id(subst))
            if fr is None:
                env = Env()
                for prm in helper.params:
                    a = subst.get(prm.get('id'))
                    t = (prm.get('type') or '')
                    env.vars[prm['id']] = UNK if (a is None or 'database_binder' in t) else self.ev(a)
                fr = Frame(self.ip, helper, env, self.depth + 1)
                frames[id(subst)] = fr
            out.append(fr.ev(b))
        return out

    def _site_effects(self, s, st, binds, where, disc, table, loc):
        if st.kind == 'insert':
            rows = st.rows or []
            cols = [c.lower() for c in st.columns]
            bi = 0
            pi = 0
            for r in rows:
                vals = {}
                for ci, ex in enumerate(r):
                    col = cols[ci] if ci < len(cols) else '#%d' % ci
                    nq = sum(1 for tkn in ex.toks if tkn.kind == 'qm')
                    if ex.is_param() and bi < len(binds):
                        vals[col] = binds[bi]
                    elif nq == 0:
                        lit = ex.literal()
                        vals[col] = ('const', lit if lit is not NotImplemented else ex.text())
                    else:
                        vals[col] = ('op', 'sqlexpr', tuple(binds[bi:bi + nq]))
                    bi += nq
                rdisc = tuple(sorted((c, _constval(v)) for c, v in vals.items()
                                     if c in ('type',) and _constval(v) is not None))
                for col, v in vals.items():
                    if col in ('type',) and rdisc:
                        continue
                    self.ip.writes.append(Write(table, col, rdisc, v, loc, self.func, 'insert'))
            if st.select is not None and not rows:
                self.ip.writes.append(Write(table, '*', (), ('op', 'select', tuple(binds)), loc, self.func, 'insert-select'))
            return UNK
        if st.kind == 'update':
            bi = 0
            for col, ex in st.sets:
                nq = sum(1 for tkn in ex.toks if tkn.kind == 'qm')
                if ex.is_param() and bi < len(binds):
                    v = binds[bi]
                elif nq == 0:
                    lit = ex.literal()
                    v = ('const', lit if lit is not NotImplemented else ex.text())
                else:
                    v = ('op', 'sqlexpr', tuple(binds[bi:bi + nq]))
                bi += nq
                self.ip.writes.append(Write(table, col.lower(), disc, v, loc, self.func, 'update', where))
            return UNK
        if st.kind == 'delete':
            self.ip.writes.append(Write(table, '*', disc, ('const', 'deleted'), loc, self.func, 'delete', where))
            return UNK
        if st.kind == 'select' and st.select is not None:
            outs = []
            for e, alias in st.select.items:
                cr = e.column_ref()
                if cr:
                    outs.append(('loc', table, cr[1].lower(), disc, ''))
                else:
                    cols = [cname for _, cname in e.columns_used()]
                    outs.append(('op', 'sql:' + e.text()[:30], tuple(('loc', table, cn.lower(), disc, '') for cn in cols)))
            self.ip.reads.append(Read(table, list(outs), loc, dict(where), self.func, self.ip.seq, st))
            if s.sink is not None:
                self.sink(s.sink, outs)
            return UNK
        return UNK

    def apply_lambda(self, fn, argv):
        """Value of calling the lambda expression fn on argv (body interpreted in place); an opaque
        application term when fn is not a lambda expression."""
        n = strip(fn)
        while n.get('kind') in ('MaterializeTemporaryExpr', 'CXXBindTemporaryExpr', 'ExprWithCleanups',
                                'CXXFunctionalCastExpr', 'CXXConstructExpr') and len(children(n)) == 1:
            n = strip(children(n)[0])
        if n.get('kind') != 'LambdaExpr':
            return ('op', 'apply', (self.ev(fn),) + tuple(argv))
        params, body = [], None
        for c in children(n):
            if c.get('kind') == 'CXXRecordDecl':
                for m in children(c):
                    if m.get('kind') == 'CXXMethodDecl' and m.get('name') == 'operator()':
                        params = [p for p in children(m) if p.get('kind') == 'ParmVarDecl']
            elif c.get('kind') == 'CompoundStmt':
                body = c
        for p, o in zip(params, argv):
            self.env.vars[p['id']] = o
        if body is None:
            return ('op', 'apply', tuple(argv))
        saved = self.rets
        self.rets = []
        self.stmt(body)
        rets = self.rets
        self.rets = saved
        if not rets:
            return ('op', 'apply', tuple(argv))
        return rets[0] if len(rets) == 1 else phi(rets)

    def sink(self, sink, outs):
        n = strip(sink)
        while n.get('kind') in ('MaterializeTemporaryExpr', 'CXXBindTemporaryExpr', 'ExprWithCleanups',
                                'CXXFunctionalCastExpr', 'CXXConstructExpr') and len(children(n)) == 1:
            n = strip(children(n)[0])
        if n.get('kind') == 'LambdaExpr':
            params = []
            body = None
            for c in children(n):
                if c.get('kind') == 'CXXRecordDecl':
                    for m in children(c):
                        if m.get('kind') == 'CXXMethodDecl' and m.get('name') == 'operator()':
                            params = [p for p in children(m) if p.get('kind') == 'ParmVarDecl']
                elif c.get('kind') == 'CompoundStmt':
                    body = c
            for p, o in zip(params, outs):
                self.env.vars[p['id']] = o
            if body is not None:
                saved = self.rets
                self.rets = []
                base = self.env
                self.env = base.copy()
                self.stmt(body)
                self.env = self._merge(base, [(self.env, True), (base.copy(), True)], None)
                self.rets = saved
            return
        if n.get('kind') == 'CallExpr' and (strip(children(n)[0]).get('referencedDecl') or {}).get('name') == 'tie':
            for a, o in zip(children(n)[1:], outs):
                self.assign(a, o)
            return
        if outs:
            self.assign(n, outs[0])


class _FieldsOf(dict):
    """Field view of a receiver value: env.fields[name] -> member(recv, name)."""

    def __init__(self, recv):
        super().__init__()
        self.recv = recv

    def get(self, name, default=None):
        if name in self:
            return dict.get(self, name)
        return member(self.recv, name)

    def __contains__(self, name):
        return True

    def copy(self):
        n = _FieldsOf(self.recv)
        n.update(self)
        return n


def _constval(v):
    while v is not None and v[0] in ('call', 'callm') and len(v) > 3 and v[3] is not None:
        v = v[3]
    if v is not None and v[0] == 'const':
        return v[1]
    if v is not None and v[0] == 'op' and len(v[2]) == 1:
        return _constval(v[2][0])
    return None
