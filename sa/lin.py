"""Linear forms over symbols with intervals; the numeric part of the cursor /
interval domain (DESIGN 3.3)."""
import itertools

INF = None
_counter = itertools.count(1)

TYPE_RANGES = {
    'bool': (0, 1),
    'char': (-128, 127), 'signed char': (-128, 127), 'unsigned char': (0, 255),
    'uint8_t': (0, 255), 'int8_t': (-128, 127), 'std::byte': (0, 255),
    'short': (-2 ** 15, 2 ** 15 - 1), 'unsigned short': (0, 2 ** 16 - 1),
    'int': (-2 ** 31, 2 ** 31 - 1), 'unsigned int': (0, 2 ** 32 - 1),
    'int32_t': (-2 ** 31, 2 ** 31 - 1), 'uint32_t': (0, 2 ** 32 - 1),
    'long': (-2 ** 63, 2 ** 63 - 1), 'unsigned long': (0, 2 ** 64 - 1),
    'long long': (-2 ** 63, 2 ** 63 - 1), 'unsigned long long': (0, 2 ** 64 - 1),
    'int64_t': (-2 ** 63, 2 ** 63 - 1), 'uint64_t': (0, 2 ** 64 - 1),
    'size_t': (0, 2 ** 64 - 1), 'std::size_t': (0, 2 ** 64 - 1),
    'ptrdiff_t': (-2 ** 63, 2 ** 63 - 1), 'uInt': (0, 2 ** 32 - 1),
    'int16_t': (-2 ** 15, 2 ** 15 - 1), 'uint16_t': (0, 2 ** 16 - 1),
    'uLong': (0, 2 ** 64 - 1), 'ssize_t': (-2 ** 63, 2 ** 63 - 1),
}


def type_range(t):
    """(lo, hi, signed) of an integer type spelled as clang prints it, or None."""
    if not t:
        return None
    t = t.replace('const ', '').replace('volatile ', '').replace('&', '').strip()
    if t.endswith(' const'):
        t = t[:-6].strip()
    r = TYPE_RANGES.get(t)
    if r is None and t.startswith('std::'):
        r = TYPE_RANGES.get(t[5:])          # std::ptrdiff_t, std::int32_t, std::uint8_t ...
    if r is None:
        # size_type / difference_type typedef spellings
        if t.endswith('size_type') or t.endswith('::size_t'):
            r = TYPE_RANGES['unsigned long']
        elif t.endswith('difference_type'):
            r = TYPE_RANGES['long']
        elif t.endswith('int64_t'):
            r = TYPE_RANGES['long'] if not t.endswith('uint64_t') else TYPE_RANGES['unsigned long']
        elif t.endswith('int32_t'):
            r = TYPE_RANGES['int'] if not t.endswith('uint32_t') else TYPE_RANGES['unsigned int']
        elif t.endswith('uint8_t'):
            r = (0, 255)
    if r is None:
        return None
    return (r[0], r[1], r[0] < 0)


class Sym:
    __slots__ = ('id', 'name', 'wire')

    def __init__(self, name, wire=False):
        self.id = next(_counter)
        self.name = name
        self.wire = wire

    def __repr__(self):
        return '%s#%d' % (self.name, self.id)


class LF:
    """const + sum coeff*sym; immutable."""
    __slots__ = ('c', 't')

    def __init__(self, c=0, t=None):
        self.c = c
        self.t = t or {}

    @staticmethod
    def sym(s):
        return LF(0, {s: 1})

    def is_const(self):
        return not self.t

    def __add__(self, o):
        if isinstance(o, int):
            return LF(self.c + o, self.t)
        t = dict(self.t)
        for s, k in o.t.items():
            v = t.get(s, 0) + k
            if v:
                t[s] = v
            else:
                t.pop(s, None)
        return LF(self.c + o.c, t)

    def __neg__(self):
        return LF(-self.c, {s: -k for s, k in self.t.items()})

    def __sub__(self, o):
        if isinstance(o, int):
            return LF(self.c - o, self.t)
        return self + (-o)

    def scale(self, k):
        if k == 0:
            return LF(0)
        return LF(self.c * k, {s: v * k for s, v in self.t.items()})

    def syms(self):
        return set(self.t)

    def has_wire(self):
        return any(s.wire for s in self.t)

    def key(self):
        return (self.c, tuple(sorted((s.id, k) for s, k in self.t.items())))

    def __eq__(self, o):
        return isinstance(o, LF) and self.key() == o.key()

    def __hash__(self):
        return hash(self.key())

    def __repr__(self):
        parts = []
        for s, k in sorted(self.t.items(), key=lambda x: x[0].id):
            parts.append(('%d*' % k if k != 1 else '') + repr(s))
        if self.c or not parts:
            parts.append(str(self.c))
        return ' + '.join(parts)


def lo_of(lf, iv):
    """Numeric lower bound of lf under intervals iv: sym -> (lo, hi)."""
    v = lf.c
    for s, k in lf.t.items():
        lo, hi = iv.get(s, (None, None))
        b = lo if k > 0 else hi
        if b is None:
            return None
        v += k * b
    return v


def hi_of(lf, iv):
    v = lf.c
    for s, k in lf.t.items():
        lo, hi = iv.get(s, (None, None))
        b = hi if k > 0 else lo
        if b is None:
            return None
        v += k * b
    return v


def nonneg(lf, iv, facts=()):
    """Is lf >= 0 provable from the intervals, or from one stored fact F >= 0
    (lf - F >= 0 numerically)?"""
    l = lo_of(lf, iv)
    if l is not None and l >= 0:
        return True
    for f in facts:
        d = lf - f
        l = lo_of(d, iv)
        if l is not None and l >= 0:
            return True
    return False
