"""Per-field location model of the two track implementations, built with valueflow.

For generation g in {v1, v2} and every field X of track_snapshot:
  R_snap(X)    locations snapshot() computes X from
  W_update(X)  locations update(snapshot) writes a value computed from snapshot.X
  W_create(X)  same for create_track(snapshot)
  R_get(X)     locations the getter X() computes its result from
  W_set(X)     locations set_X(v) writes a value computed from v (and: all locations it writes)
A location is (table, column, discriminators, member path inside a blob).
"""
from . import valueflow as vf
from .frontend import AnalysisBroken
from .program import children

GEN = {
    'v1': dict(cls='djinterop::engine::v1::engine_track_impl',
               create='djinterop::engine::v1::create_track'),
    'v2': dict(cls='djinterop::engine::v2::track_impl',
               create='djinterop::engine::v2::create_track'),
}
SNAPSHOT = 'djinterop::track_snapshot'


def loc_key(l, with_member=True):
    return (l[1], l[2], l[3], l[4] if with_member else '')


def show_loc(k):
    d = ','.join('%s=%s' % (a, b) for a, b in k[2])
    return '%s.%s%s%s' % (k[0], k[1], '[' + d + ']' if d else '', ('.' + k[3]) if k[3] else '')


def locs_of(t):
    return {loc_key(x) for x in vf.leaves(t) if x[0] == 'loc'}


def ins_of(t, pname=None):
    out = set()
    for x in vf.leaves(t):
        if x[0] == 'in' and (pname is None or x[1] == pname):
            out.add(x[2].split('.')[0] if x[2] else '')
    return out


def blob_members(t):
    """If t (a written value) is an aggregate of a codec struct, its member names."""
    names = []
    seen = set()

    def rec(x, depth=0):
        if x is None or id(x) in seen or depth > 6:
            return
        seen.add(id(x))
        if x[0] == 'agg':
            for f, _ in x[2]:
                if f not in names:
                    names.append(f)
        elif x[0] == 'upd':
            for p, _ in x[2]:
                f = p.split('.')[0]
                if f not in names:
                    names.append(f)
            rec(x[1], depth + 1)
        elif x[0] == 'phi':
            for a in x[1]:
                rec(a, depth + 1)
        elif x[0] in ('call', 'callm') and x[3] is not None:
            rec(x[3], depth + 1)
        elif x[0] == 'ite':
            rec(x[2], depth + 1)
            rec(x[3], depth + 1)
        elif x[0] == 'loc' and 0:
            pass
    rec(t)
    # pseudo-members the interpreter keeps for its own bookkeeping (constructor arguments) are not wire members
    return [n for n in names if not str(n).startswith('__')]


class Access:
    """Result of evaluating one method."""

    def __init__(self, func, ret, writes, unknown):
        self.func = func
        self.ret = ret
        self.writes = writes
        self.unknown = unknown

    def written(self, pname=None, field=None, member_level=True):
        """{location: set(input fields)} for writes whose value depends on input
        (pname.field when given; any when field is None)."""
        out = {}
        for w in self.writes:
            if w.column in ('id',) and not w.disc:
                continue
            ms = blob_members(w.value) if member_level else []
            if ms:
                for m in ms:
                    mv = vf.member(w.value, m)
                    self._add(out, (w.table, w.column, w.disc, m), mv, pname)
            else:
                self._add(out, (w.table, w.column, w.disc, ''), w.value, pname)
        if field is not None:
            return {k: v for k, v in out.items() if field in v}
        return out

    def _add(self, out, key, value, pname):
        ins = ins_of(value, pname)
        out.setdefault(key, set()).update(ins)


class FieldModel:
    def __init__(self, prog, cg, eff, assume_schema=None, enum_order=None):
        self.prog = prog
        self.cg = cg
        self.eff = eff
        self.ip = vf.Interp(prog, cg, eff, assume_schema, enum_order)
        self.fields = [f.get('name') for f in prog.records[SNAPSHOT].fields] \
            if SNAPSHOT in prog.records else []
        if len(self.fields) < 20:
            raise AnalysisBroken('track_snapshot: only %d fields found' % len(self.fields))
        self.cache = {}

    def method(self, gen, name, nparams=None):
        cls = GEN[gen]['cls']
        fs = [f for f in self.prog.by_name(cls + '::' + name) if f.body is not None and not f.is_pattern]
        if nparams is not None:
            fs = [f for f in fs if len(f.params) == nparams]
        return fs[0] if len(fs) == 1 else None

    def access(self, func):
        a = self.cache.get(func.key)
        if a is None:
            self.ip.unknown = []
            ret = self.ip.run(func)
            a = Access(func, ret, list(self.ip.writes), list(self.ip.unknown))
            self.cache[func.key] = a
        return a

    def create_func(self, gen):
        fs = [f for f in self.prog.by_name(GEN[gen]['create']) if f.body is not None]
        return fs[0] if len(fs) == 1 else None

    # ---- sets ------------------------------------------------------------------------
    def r_snap(self, gen):
        f = self.method(gen, 'snapshot')
        if f is None:
            raise AnalysisBroken('%s snapshot() not found' % gen)
        a = self.access(f)
        return {x: locs_of(vf.member(a.ret, x)) for x in self.fields}, a

    def w_of(self, gen, which):
        """{field: set(locations)} for update / create."""
        f = self.method(gen, 'update') if which == 'update' else self.create_func(gen)
        if f is None:
            raise AnalysisBroken('%s %s not found' % (gen, which))
        a = self.access(f)
        pname = [p.get('name') for p in f.params if 'track_snapshot' in (p.get('type') or '')]
        pname = pname[0] if pname else None
        full = a.written(pname)
        out = {x: set() for x in self.fields}
        for k, ins in full.items():
            for x in ins:
                if x in out:
                    out[x].add(k)
        return out, a, full

    def getter(self, gen, x):
        f = self.method(gen, x, 0)
        if f is None:
            return None, None
        a = self.access(f)
        return locs_of(a.ret), a

    def setter(self, gen, x):
        fs = [f for f in self.prog.by_name(GEN[gen]['cls'] + '::set_' + x) if f.body is not None]
        if len(fs) != 1:
            return None, None, None
        f = fs[0]
        a = self.access(f)
        full = a.written()
        dep = {k for k, ins in a.written(f.params[0].get('name') if f.params else None).items() if ins}
        return dep, set(full), a


def coarse(locs):
    return {(t, c, d, '') for (t, c, d, m) in locs}
