"""Catalog model: what SQLite derives from a sequence of DDL statements, as
seen through sqlite_master / PRAGMA table_info / index_list / index_info.

Validated on every run against the repository's own verify_* expectation
blocks (C17) - those pass on real SQLite in the pinned test-suite."""
from . import sql


class Catalog:
    def __init__(self, label=''):
        self.label = label
        self.tables = {}     # lower name -> TableDef
        self.indexes = {}    # lower name -> IndexDef (explicit)
        self.views = {}      # lower name -> ViewDef
        self.triggers = {}   # lower name -> TriggerDef
        self.order = []      # creation order of (kind, name)
        self.raw = {}        # (kind, lower name) -> Stmt
        self.inserts = []    # data statements seen (INSERT ...)
        self.has_sequence = False
        self.problems = []

    # ---- building ------------------------------------------------------
    def apply(self, st):
        k = st.kind
        if k == 'create_table':
            td = st.extra['def']
            key = td.name.lower()
            if key in self.tables or key in self.views:
                if st.extra.get('if_not_exists'):
                    return
                self.problems.append('duplicate table %s' % td.name)
            self.tables[key] = td
            self.raw[('table', key)] = st
            self.order.append(('table', td.name))
            if any(c.pk_autoinc for c in td.columns):
                self.has_sequence = True
        elif k == 'create_index':
            ix = st.extra['def']
            key = ix.name.lower()
            if key in self.indexes:
                if ix.if_not_exists:
                    return
                self.problems.append('duplicate index %s' % ix.name)
            if ix.table.lower() not in self.tables:
                self.problems.append('index %s on unknown table %s' % (ix.name, ix.table))
            self.indexes[key] = ix
            self.raw[('index', key)] = st
            self.order.append(('index', ix.name))
        elif k == 'create_view':
            v = st.extra['def']
            key = v.name.lower()
            if key in self.views or key in self.tables:
                self.problems.append('duplicate view %s' % v.name)
            self.views[key] = v
            self.raw[('view', key)] = st
            self.order.append(('view', v.name))
        elif k == 'create_trigger':
            tr = st.extra['def']
            key = tr.name.lower()
            if key in self.triggers:
                self.problems.append('duplicate trigger %s' % tr.name)
            self.triggers[key] = tr
            self.raw[('trigger', key)] = st
            self.order.append(('trigger', tr.name))
        elif k == 'drop':
            what = st.extra['what']
            key = st.name.lower()
            d = {'TABLE': self.tables, 'INDEX': self.indexes, 'VIEW': self.views,
                 'TRIGGER': self.triggers}.get(what)
            if d is None:
                self.problems.append('unsupported DROP %s' % what)
                return
            if key not in d:
                self.problems.append('DROP %s %s: no such object' % (what, st.name))
                return
            del d[key]
            self.raw.pop((what.lower(), key), None)
            self.order = [(a, b) for a, b in self.order
                          if not (a == what.lower() and b.lower() == key)]
            if what == 'TABLE':
                for n, ix in list(self.indexes.items()):
                    if ix.table.lower() == key:
                        del self.indexes[n]
                        self.raw.pop(('index', n), None)
                for n, tr in list(self.triggers.items()):
                    if tr.table.lower() == key:
                        del self.triggers[n]
                        self.raw.pop(('trigger', n), None)
        elif k in ('insert', 'delete', 'update'):
            self.inserts.append(st)
        elif k in ('pragma', 'begin', 'commit', 'analyze', 'vacuum'):
            pass
        elif k == 'alter':
            self.problems.append('ALTER TABLE not modelled: ' + st.text()[:80])
        else:
            self.problems.append('unexpected statement kind %s in DDL list' % k)

    # ---- derived facts ----------------------------------------------------
    def rowid_alias(self, td):
        """Name of the INTEGER PRIMARY KEY column that aliases the rowid."""
        if td.without_rowid:
            return None
        pkcols = [c.name for c in td.columns if c.pk]
        if len(pkcols) == 1 and not td.pk:
            c = td.col(pkcols[0])
            if c.type.upper() == 'INTEGER':
                return c.name
        if td.pk and len(td.pk) == 1 and not pkcols:
            c = td.col(td.pk[0])
            if c is not None and c.type.upper() == 'INTEGER':
                return c.name
        return None

    def pk_columns(self, td):
        cols = [c.name for c in td.columns if c.pk]
        if td.pk:
            cols = list(td.pk)
        return cols

    def table_info(self, name):
        """[(name, type, notnull, dflt, pk)] in column order; None if the
        object does not exist."""
        key = name.lower()
        if key in self.tables:
            td = self.tables[key]
            pk = [c.lower() for c in self.pk_columns(td)]
            out = []
            for c in td.columns:
                pos = pk.index(c.name.lower()) + 1 if c.name.lower() in pk else 0
                notnull = 1 if c.notnull else 0
                if td.without_rowid and pos:
                    notnull = 1
                out.append((c.name, c.type, notnull, _dflt(c.default), pos))
            return out
        if key in self.views:
            return self.view_info(self.views[key])
        if key == 'sqlite_sequence' and self.has_sequence:
            return [('name', '', 0, '', 0), ('seq', '', 0, '', 0)]
        return None

    def view_info(self, v, depth=0):
        s = v.select
        out = []
        names = v.columns
        for i, (e, alias) in enumerate(s.items):
            cr = e.column_ref()
            if len(e.toks) == 1 and e.toks[0].is_op('*'):
                for (sch, t, al) in s.tables:
                    ti = self.table_info(t) if isinstance(t, str) else None
                    if ti is None:
                        return None
                    for c in ti:
                        out.append((c[0], c[1], 0, '', 0))
                continue
            typ = ''
            nm = alias
            if cr is not None:
                q, col = cr
                nm = alias or col
                typ = self._resolve_col_type(s, q, col, depth)
            elif nm is None:
                nm = e.text()
            if names and i < len(names):
                nm = names[i]
            out.append((nm, typ, 0, '', 0))
        return out

    def _resolve_col_type(self, s, q, col, depth):
        if depth > 4:
            return ''
        for (sch, t, al) in s.tables:
            if not isinstance(t, str):
                continue
            if q is not None and q.lower() not in ((al or t).lower(), t.lower()):
                continue
            ti = None
            if t.lower() in self.tables:
                ti = self.table_info(t)
            elif t.lower() in self.views:
                ti = self.view_info(self.views[t.lower()], depth + 1)
            if not ti:
                continue
            for c in ti:
                if c[0].lower() == col.lower():
                    return c[1]
            if col.lower() in ('rowid', 'oid', '_rowid_') and t.lower() in self.tables:
                return 'INTEGER'
        return ''

    def auto_indexes(self, td):
        """[(name, unique, origin, [cols])] for UNIQUE / PRIMARY KEY
        constraints, numbered in textual order as SQLite does."""
        out = []
        seen = []
        alias = self.rowid_alias(td)
        n = 0
        for kind, cols in td.constraint_order:
            if kind == 'pk' and alias is not None and [c.lower() for c in cols] == [alias.lower()]:
                continue
            lc = [c.lower() for c in cols]
            if lc in seen:
                continue
            seen.append(lc)
            n += 1
            out.append(('sqlite_autoindex_%s_%d' % (td.name, n), 1,
                        'pk' if kind == 'pk' else 'u', list(cols)))
        return out

    def index_list(self, table):
        """[(name, unique, origin, partial)] unordered."""
        key = table.lower()
        if key not in self.tables:
            return None if key not in self.views else []
        td = self.tables[key]
        out = [(n, u, o, 0) for n, u, o, cols in self.auto_indexes(td)]
        for ix in self.indexes.values():
            if ix.table.lower() == key:
                out.append((ix.name, 1 if ix.unique else 0, 'c',
                            1 if ix.where is not None else 0))
        return out

    def index_info(self, index):
        """[(seqno, colname)]"""
        key = index.lower()
        if key in self.indexes:
            ix = self.indexes[key]
            td = self.tables.get(ix.table.lower())
            out = []
            for i, c in enumerate(ix.columns):
                # an expression column has no name (SQLite reports NULL)
                if td is not None and td.col(c) is not None:
                    out.append((i, td.col(c).name))
                elif td is not None and c.lower() in ('rowid', 'oid', '_rowid_'):
                    out.append((i, c))
                else:
                    out.append((i, ''))
            return out
        for td in self.tables.values():
            for n, u, o, cols in self.auto_indexes(td):
                if n.lower() == key:
                    # report declared spelling of the column
                    return [(i, (td.col(c).name if td.col(c) else c))
                            for i, c in enumerate(cols)]
        return None

    def master(self, type_):
        """[(name, tbl_name)] for sqlite_master WHERE type = type_."""
        if type_ == 'table':
            out = [(t.name, t.name) for t in self.tables.values()]
            if self.has_sequence:
                out.append(('sqlite_sequence', 'sqlite_sequence'))
            return out
        if type_ == 'view':
            return [(v.name, v.name) for v in self.views.values()]
        if type_ == 'index':
            out = [(ix.name, self.tables[ix.table.lower()].name if ix.table.lower() in self.tables else ix.table)
                   for ix in self.indexes.values()]
            for td in self.tables.values():
                for n, u, o, cols in self.auto_indexes(td):
                    out.append((n, td.name))
            return out
        if type_ == 'trigger':
            return [(tr.name, tr.table) for tr in self.triggers.values()]
        return []

    # ---- comparison -------------------------------------------------------
    def object_sigs(self):
        """name-keyed normalised signatures of every object, for X1."""
        out = {}
        for key, td in self.tables.items():
            cols = tuple(c.sig() for c in td.columns)
            out[('table', key)] = (
                'table', td.name, cols, tuple(td.pk),
                tuple(tuple(u) for u in td.uniques),
                tuple((tuple(a), b, tuple(c), d, e) for a, b, c, d, e in td.fks),
                tuple(td.checks), td.without_rowid,
                tuple((k, tuple(c)) for k, c in td.constraint_order))
        for key, ix in self.indexes.items():
            out[('index', key)] = ('index', ix.name, ix.table.lower(), tuple(ix.columns),
                                   ix.unique, ix.where.norm() if ix.where else None)
        for key, v in self.views.items():
            out[('view', key)] = ('view', v.name, tuple(v.columns or ()), v.body_norm)
        for key, tr in self.triggers.items():
            st = self.raw[('trigger', key)]
            # normalised full text after the name
            toks = st.toks
            i = 0
            while i < len(toks) and not toks[i].is_kw('TRIGGER'):
                i += 1
            i += 1
            if i < len(toks) and toks[i].is_kw('IF'):
                i += 3
            # skip [schema .] name
            if i + 1 < len(toks) and toks[i + 1].is_op('.'):
                i += 2
            i += 1
            out[('trigger', key)] = ('trigger', tr.name, sql.norm_tokens(toks[i:]))
        return out


def _dflt(d):
    """dflt_value as PRAGMA table_info reports it: the text of the default
    expression; for DEFAULT (expr) the text inside the parentheses."""
    if d is None:
        return ''
    d = d.strip()
    if d.startswith('(') and d.endswith(')'):
        return d[1:-1].strip()
    return d


def from_statements(stmts, label=''):
    cat = Catalog(label)
    for st in stmts:
        cat.apply(st)
    return cat


def from_script(text, label=''):
    cat = Catalog(label)
    for toks in sql.split_statements(text):
        cat.apply(sql.parse(toks))
    return cat
