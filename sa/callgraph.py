"""Call graph over resolved callees.

Edges are read from clang's resolved references (never from names alone):
direct calls, member calls, overloaded operators, constructor expressions,
make_shared / make_unique<T> (constructs T), destructors of local objects of
repository classes with a user-written destructor.  A call through a virtual
member is resolved by class-hierarchy analysis: every overrider in the static
receiver class and its derived classes (for `this->f()` inside a class analysed
as dynamic type X the caller may pass X to narrow it).  Lambda bodies belong to
the enclosing function.
"""
import re

from .program import (children, strip, walk, norm_type_name, param_sig, canon_sig, locstr,
                      FUNC_KINDS)

CALL_KINDS = {'CallExpr', 'CXXMemberCallExpr', 'CXXOperatorCallExpr',
              'UserDefinedLiteral'}
CTOR_KINDS = {'CXXConstructExpr', 'CXXTemporaryObjectExpr'}

_TMPL = re.compile(r'^(?:std::)?(?:__detail::)?(?:shared_ptr|unique_ptr|_NonArray|__unique_ptr_t)<(.*)>$')


def strip_template_args(t):
    out = []
    depth = 0
    for ch in t:
        if ch == '<':
            depth += 1
        elif ch == '>':
            depth -= 1
        elif depth == 0:
            out.append(ch)
    return ''.join(out)


def pointee_class(t):
    """class name held by shared_ptr<T>/unique_ptr<T>/T*/T&/T."""
    if t is None:
        return None
    t = norm_type_name(t)
    for _ in range(3):
        m = _TMPL.match(t)
        if not m:
            break
        t = norm_type_name(m.group(1))
    return t


class Edge:
    __slots__ = ('node', 'targets', 'kind', 'name', 'virtual', 'recv')

    def __init__(self, node, targets, kind, name, virtual=False, recv=None):
        self.node = node
        self.targets = targets
        self.kind = kind
        self.name = name
        self.virtual = virtual
        self.recv = recv

    def __repr__(self):
        return '<Edge %s %s -> %d>' % (self.kind, self.name, len(self.targets))


class CallGraph:
    def __init__(self, prog):
        self.prog = prog
        self._edges = {}
        self._user_dtor = None
        self._rec_short = None

    # ---- class lookup ----------------------------------------------------
    def record_of_type(self, t):
        """Repository record for a (possibly unqualified / sugared) type name."""
        if not t:
            return None
        t = pointee_class(t)
        if t is not None:
            t = t.replace('(anonymous namespace)', '(anon)')
        if t in self.prog.records:
            return t
        if self._rec_short is None:
            self._rec_short = {}
            for qn in self.prog.records:
                self._rec_short.setdefault(qn.split('::')[-1], []).append(qn)
                # also partially qualified suffixes
                parts = qn.split('::')
                for i in range(1, len(parts)):
                    self._rec_short.setdefault('::'.join(parts[i:]), []).append(qn)
        c = self._rec_short.get(t)
        if c and len(set(c)) == 1:
            return c[0]
        return None

    def user_dtors(self):
        if self._user_dtor is None:
            self._user_dtor = {}
            for f in self.prog.functions.values():
                if f.kind == 'CXXDestructorDecl' and f.body is not None and f.cls \
                        and not f.defaulted and children(f.body):
                    self._user_dtor[f.cls] = f
        return self._user_dtor

    def ctors(self, cls, nargs=None, ctor_type=None):
        out = []
        for f in self.prog.by_name(cls + '::' + cls.split('::')[-1]):
            if f.kind != 'CXXConstructorDecl':
                continue
            out.append(f)
        if ctor_type:
            ex = [f for f in out if f.type == ctor_type]
            if ex:
                return ex
        if nargs is not None:
            ex = [f for f in out
                  if len(f.params) >= nargs and
                  sum(1 for p in f.params if not _has_default(p)) <= nargs]
            if ex:
                return ex
        return out

    # ---- edges ------------------------------------------------------------
    def edges(self, func):
        e = self._edges.get(func.key)
        if e is None:
            e = self._compute(func)
            self._edges[func.key] = e
        return e

    def edge_for(self, func, node):
        for e in self.edges(func):
            if e.node is node:
                return e
        return None

    def _compute(self, func):
        out = []
        prog = self.prog
        tu = func.tu
        dt = self.user_dtors()
        for n in walk(func.node):
            k = n.get('kind')
            if k in CALL_KINDS:
                d, qn, virt, recv = prog.resolve_callee(tu, n)
                if d is None:
                    # std / external callee
                    nm = qn or ''
                    if nm in ('make_shared', 'make_unique'):
                        cls = self.record_of_type(n.get('type'))
                        if cls:
                            nargs = len(children(n)) - 1
                            out.append(Edge(n, self.ctors(cls, nargs), 'make', cls))
                            continue
                    out.append(Edge(n, [], 'external', nm))
                    continue
                loc = d.get('loc')
                if d.get('kind') not in FUNC_KINDS:
                    # call through a variable (std::function / lambda object)
                    out.append(Edge(n, [], 'indirect', qn or d.get('name')))
                    continue
                if virt or self._is_virtual(tu, d, qn):
                    cls = qn.rsplit('::', 1)[0]
                    name = qn.rsplit('::', 1)[1]
                    rcls = None
                    if recv is not None:
                        rcls = self.record_of_type(strip(recv).get('type'))
                    base = rcls or cls
                    targets = prog.overriders(base, name, d.get('type') or '', d)
                    if not targets or rcls:
                        # the receiver class may inherit the definition
                        inh = [f for f in prog.find_method(base, name)
                               if param_sig(f.type) == param_sig(d.get('type') or '')
                               or canon_sig(f.node) == canon_sig(d)]
                        for f in inh:
                            if f not in targets:
                                targets.append(f)
                    out.append(Edge(n, targets, 'virtual', qn, True, recv))
                    continue
                targets = prog.definitions_for(tu, d, qn)
                kind = 'direct' if targets else (
                    'external' if not prog.in_repo(loc[0] if loc else None) else 'nodef')
                out.append(Edge(n, targets, kind, qn, False, recv))
            elif k in CTOR_KINDS:
                cls = self.record_of_type(n.get('type'))
                if cls:
                    args = [c for c in children(n)]
                    targets = self.ctors(cls, len(args), n.get('ctorType'))
                    out.append(Edge(n, targets, 'ctor', cls))
            elif k == 'VarDecl' and dt:
                cls = self.record_of_type(n.get('type'))
                if cls in dt and not (n.get('type') or '').rstrip().endswith(('&', '*')):
                    out.append(Edge(n, [dt[cls]], 'dtor', cls))
        return out

    def _is_virtual(self, tu, d, qn):
        if d.get('kind') != 'CXXMethodDecl' or not qn or '::' not in qn:
            return False
        if d.get('virtual'):
            return True
        cls, name = qn.rsplit('::', 1)
        sig = param_sig(d.get('type') or '')
        for c in [cls] + self.prog.all_bases(cls):
            r = self.prog.records.get(c)
            if not r:
                continue
            for m in r.methods:
                if m.get('name') == name and param_sig(m.get('type') or '') == sig and (
                        m.get('virtual') or any(x.get('kind') == 'OverrideAttr'
                                                for x in children(m))):
                    return True
        return False

    # ---- reachability -----------------------------------------------------
    def reachable(self, roots, stop=None):
        """All Functions reachable from roots (list of Function), with one
        witness path each: dict key -> (Function, parent key, call node)."""
        seen = {}
        work = []
        for r in roots:
            if r.key not in seen:
                seen[r.key] = (r, None, None)
                work.append(r)
        while work:
            f = work.pop()
            if stop and stop(f):
                continue
            for e in self.edges(f):
                for t in e.targets:
                    if t.key not in seen:
                        seen[t.key] = (t, f.key, e.node)
                        work.append(t)
        return seen

    def path_to(self, seen, key):
        out = []
        while key is not None:
            f, parent, node = seen[key]
            out.append((f.qualname, locstr(node) if node is not None else None))
            key = parent
        out.reverse()
        return out


def _has_default(p):
    return any(c.get('kind') not in ('ParmVarDecl',) and not c['kind'].endswith('Attr')
               for c in children(p))


_CG = {}


def get(prog):
    cg = _CG.get(id(prog))
    if cg is None:
        cg = CallGraph(prog)
        _CG[id(prog)] = cg
    return cg
