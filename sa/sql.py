"""A reader for the SQL this repository uses (string literals in C++ and the
reference dumps under testdata/ref).  Tokenizer + recursive-descent
recognisers; anything it cannot classify raises SqlError (-> exit 2 at the
call site), it is never skipped silently."""
import re


class SqlError(Exception):
    pass


class Tok:
    __slots__ = ('kind', 'val', 'raw', 'pos')
    # kinds: id (identifier, val = unquoted name), kw == id (keywords are
    # identifiers compared case-insensitively), str, num, op, qm (?), hole

    def __init__(self, kind, val, raw, pos):
        self.kind = kind
        self.val = val
        self.raw = raw
        self.pos = pos

    def __repr__(self):
        return '%s:%r' % (self.kind, self.val)

    def is_kw(self, *words):
        return self.kind == 'id' and self.raw[0] not in '["`' and \
            self.val.upper() in words

    def is_op(self, *ops):
        return self.kind == 'op' and self.val in ops


_ws = re.compile(r'(\s+|--[^\n]*\n?|/\*.*?\*/)+', re.S)
_num = re.compile(r'(\d+\.\d*|\.\d+|\d+)([eE][+-]?\d+)?|0[xX][0-9a-fA-F]+')
_ident = re.compile(r'[A-Za-z_][A-Za-z_0-9$]*')
_ops = ['<>', '!=', '>=', '<=', '==', '||', '<<', '>>', '(', ')', ',', ';', '.',
        '=', '<', '>', '+', '-', '*', '/', '%', '&', '|', '~']


def tokenize(s):
    toks = []
    i = 0
    n = len(s)
    while i < n:
        m = _ws.match(s, i)
        if m:
            i = m.end()
            if i >= n:
                break
        c = s[i]
        if c == '$' and s.startswith('${', i):
            j = s.index('}', i)
            toks.append(Tok('hole', s[i + 2:j], s[i:j + 1], i))
            i = j + 1
        elif c == '?':
            j = i + 1
            while j < n and s[j].isdigit():
                j += 1
            toks.append(Tok('qm', s[i:j], s[i:j], i))
            i = j
        elif c == "'":
            j = i + 1
            buf = []
            while True:
                if j >= n:
                    raise SqlError('unterminated string at %d in %r' % (i, s[:80]))
                if s[j] == "'":
                    if j + 1 < n and s[j + 1] == "'":
                        buf.append("'")
                        j += 2
                        continue
                    break
                buf.append(s[j])
                j += 1
            toks.append(Tok('str', ''.join(buf), s[i:j + 1], i))
            i = j + 1
        elif c == '"' or c == '`':
            j = s.find(c, i + 1)
            if j < 0:
                raise SqlError('unterminated quoted identifier')
            toks.append(Tok('id', s[i + 1:j], s[i:j + 1], i))
            i = j + 1
        elif c == '[':
            j = s.find(']', i + 1)
            if j < 0:
                raise SqlError('unterminated [identifier]')
            toks.append(Tok('id', s[i + 1:j], s[i:j + 1], i))
            i = j + 1
        elif c.isdigit() or (c == '.' and i + 1 < n and s[i + 1].isdigit()):
            m = _num.match(s, i)
            toks.append(Tok('num', m.group(0), m.group(0), i))
            i = m.end()
        elif c.isalpha() or c == '_':
            m = _ident.match(s, i)
            toks.append(Tok('id', m.group(0), m.group(0), i))
            i = m.end()
        elif c in ':@':
            m = _ident.match(s, i + 1)
            if not m:
                raise SqlError('bad parameter at %d' % i)
            toks.append(Tok('qm', s[i:m.end()], s[i:m.end()], i))
            i = m.end()
        else:
            for op in _ops:
                if s.startswith(op, i):
                    toks.append(Tok('op', op, op, i))
                    i += len(op)
                    break
            else:
                raise SqlError('unexpected character %r at %d in %r' % (c, i, s[:120]))
    return toks


def split_statements(text):
    """Split a script into statements at top-level ';' (CREATE TRIGGER bodies
    BEGIN ... END contain ';')."""
    toks = tokenize(text)
    out = []
    cur = []
    depth = 0
    in_trigger = False
    case_depth = 0
    for t in toks:
        if t.is_op(';') and depth == 0 and not in_trigger:
            if cur:
                out.append(cur)
            cur = []
            continue
        cur.append(t)
        if t.is_op('('):
            depth += 1
        elif t.is_op(')'):
            depth -= 1
        elif t.is_kw('TRIGGER') and len(cur) >= 2 and cur[0].is_kw('CREATE'):
            # CREATE [TEMP] TRIGGER
            if all(x.is_kw('CREATE', 'TEMP', 'TEMPORARY', 'TRIGGER') for x in cur):
                in_trigger = True
        elif in_trigger and t.is_kw('CASE'):
            case_depth += 1
        elif in_trigger and t.is_kw('END'):
            if case_depth > 0:
                case_depth -= 1
            else:
                in_trigger = False
    if cur:
        out.append(cur)
    return out


# ----------------------------------------------------------------------------
# Parsed forms

class Stmt:
    """kind: select insert update delete pragma attach detach begin commit
    rollback create_table create_index create_view create_trigger drop vacuum
    analyze"""

    def __init__(self, kind, toks):
        self.kind = kind
        self.toks = toks
        self.table = None        # main target / first FROM table (unqualified)
        self.schema = None       # schema prefix of main target
        self.name = None         # object name for DDL / pragma name
        self.columns = []        # insert column list / select output columns
        self.rows = []           # insert VALUES rows: list of list of Expr
        self.sets = []           # update: [(col, Expr)]
        self.where = None        # Expr or None
        self.params = []         # one ParamUse per '?' in order
        self.tables = []         # all table refs [(schema, name, alias)]
        self.select = None       # Select for select / insert-select / view
        self.or_replace = False
        self.extra = {}

    @property
    def is_write(self):
        return self.kind in WRITE_KINDS

    def text(self):
        return ' '.join(t.raw for t in self.toks)


WRITE_KINDS = {'insert', 'update', 'delete', 'create_table', 'create_index',
               'create_view', 'create_trigger', 'drop', 'vacuum', 'alter',
               'reindex'}


class ParamUse:
    """Where a '?' sits: role in {'value','set','where','select','limit',
    'other'}, column = the column it is assigned to / compared with (or None),
    op = comparison operator for where."""
    __slots__ = ('index', 'role', 'column', 'table', 'op', 'row', 'pos')

    def __init__(self, index, role, column=None, table=None, op=None, row=None, pos=None):
        self.index = index
        self.role = role
        self.column = column
        self.table = table
        self.op = op
        self.row = row
        self.pos = pos

    def __repr__(self):
        return '?%d[%s %s%s]' % (self.index, self.role, self.column,
                                 ' ' + self.op if self.op else '')


class Expr:
    """Token-range expression with light structure."""
    __slots__ = ('toks',)

    def __init__(self, toks):
        self.toks = toks

    def is_param(self):
        return len(self.toks) == 1 and self.toks[0].kind == 'qm'

    def column_ref(self):
        """(qualifier, column) if the expression is a plain column reference."""
        t = self.toks
        if len(t) == 1 and t[0].kind == 'id' and not _is_reserved_value(t[0]):
            return (None, t[0].val)
        if len(t) == 3 and t[0].kind == 'id' and t[1].is_op('.') and t[2].kind == 'id':
            return (t[0].val, t[2].val)
        return None

    def literal(self):
        t = self.toks
        if len(t) == 1 and t[0].kind in ('num', 'str'):
            return t[0].val if t[0].kind == 'str' else _num_val(t[0].val)
        if len(t) == 2 and t[0].is_op('-') and t[1].kind == 'num':
            return -_num_val(t[1].val)
        if len(t) == 1 and t[0].is_kw('NULL'):
            return None
        return NotImplemented

    def columns_used(self):
        out = []
        t = self.toks
        i = 0
        while i < len(t):
            x = t[i]
            if x.kind == 'id' and not _is_reserved_value(x) and not x.is_kw(*KEYWORDS):
                if i + 1 < len(t) and t[i + 1].is_op('('):
                    i += 1
                    continue
                if i + 2 < len(t) and t[i + 1].is_op('.') and t[i + 2].kind == 'id':
                    out.append((x.val, t[i + 2].val))
                    i += 3
                    continue
                out.append((None, x.val))
            i += 1
        return out

    def text(self):
        return ' '.join(x.raw for x in self.toks)

    def norm(self):
        return norm_tokens(self.toks)

    def __repr__(self):
        return 'Expr(%s)' % self.text()


def _num_val(s):
    try:
        return int(s, 0)
    except ValueError:
        return float(s)


def _is_reserved_value(t):
    return t.is_kw('NULL', 'TRUE', 'FALSE', 'CURRENT_TIMESTAMP', 'CURRENT_DATE',
                   'CURRENT_TIME')


KEYWORDS = ('AND', 'OR', 'NOT', 'IS', 'IN', 'LIKE', 'BETWEEN', 'CASE', 'WHEN',
            'THEN', 'ELSE', 'END', 'NULL', 'AS', 'SELECT', 'FROM', 'WHERE',
            'EXISTS', 'DISTINCT', 'ASC', 'DESC', 'COLLATE', 'GLOB', 'CAST',
            'INTEGER', 'TEXT', 'REAL', 'BLOB', 'NUMERIC', 'ORDER', 'BY', 'LIMIT',
            'OFFSET', 'GROUP', 'HAVING', 'UNION', 'ALL', 'JOIN', 'ON', 'LEFT',
            'INNER', 'OUTER', 'CROSS', 'NEW', 'OLD', 'ISNULL', 'NOTNULL', 'USING')


class Select:
    def __init__(self):
        self.items = []      # [(Expr, alias or None)]
        self.tables = []     # [(schema, name, alias)]
        self.joins = []      # [Expr] ON conditions
        self.where = None
        self.order_by = []   # [Expr]
        self.limit = None
        self.distinct = False
        self.compound = []   # further Selects after UNION [ALL]
        self.with_ = None
        self.recursive = False
        self.toks = []

    def output_names(self):
        out = []
        for e, alias in self.items:
            if alias:
                out.append(alias)
            else:
                c = e.column_ref()
                out.append(c[1] if c else e.text())
        return out


class P:
    """Token cursor."""

    def __init__(self, toks):
        self.t = toks
        self.i = 0

    def peek(self, k=0):
        j = self.i + k
        return self.t[j] if j < len(self.t) else None

    def eof(self):
        return self.i >= len(self.t)

    def next(self):
        x = self.peek()
        if x is None:
            raise SqlError('unexpected end of statement: ' + ' '.join(y.raw for y in self.t)[:200])
        self.i += 1
        return x

    def kw(self, *words):
        x = self.peek()
        if x is not None and x.is_kw(*words):
            self.i += 1
            return x
        return None

    def op(self, *ops):
        x = self.peek()
        if x is not None and x.is_op(*ops):
            self.i += 1
            return x
        return None

    def expect_kw(self, *words):
        x = self.kw(*words)
        if x is None:
            raise SqlError('expected %s at token %d (%r) in: %s' % (
                '/'.join(words), self.i, self.peek(), ' '.join(y.raw for y in self.t)[:300]))
        return x

    def expect_op(self, *ops):
        x = self.op(*ops)
        if x is None:
            raise SqlError('expected %s at token %d (%r) in: %s' % (
                '/'.join(ops), self.i, self.peek(), ' '.join(y.raw for y in self.t)[:300]))
        return x

    def ident(self):
        x = self.peek()
        if x is None or x.kind not in ('id', 'hole', 'str'):
            raise SqlError('expected identifier at token %d (%r) in: %s' % (
                self.i, x, ' '.join(y.raw for y in self.t)[:300]))
        self.i += 1
        return x.val if x.kind != 'hole' else '${%s}' % x.val

    def qualified(self):
        """[schema .] name"""
        a = self.ident()
        if self.op('.'):
            b = self.ident()
            return (a, b)
        return (None, a)

    def until(self, stop_kw=(), stop_op=(), allow_eof=True):
        """Collect tokens up to a top-level stop keyword / operator."""
        out = []
        depth = 0
        case = 0
        while not self.eof():
            x = self.peek()
            if depth == 0 and case == 0:
                if x.kind == 'id' and x.is_kw(*stop_kw):
                    break
                if x.kind == 'op' and x.val in stop_op:
                    break
            if x.is_op('('):
                depth += 1
            elif x.is_op(')'):
                if depth == 0:
                    break
                depth -= 1
            elif x.is_kw('CASE'):
                case += 1
            elif x.is_kw('END') and case > 0:
                case -= 1
            out.append(x)
            self.i += 1
        return out

    def paren_list(self):
        """( item , item , ... ) -> list of token lists"""
        self.expect_op('(')
        items = []
        while True:
            items.append(self.until(stop_op=(',',)))
            if self.op(','):
                continue
            self.expect_op(')')
            break
        return items


def _canonical_spelling(toks):
    """One spelling for operators SQLite accepts in several forms, so that rules which compare predicates or
    statement kinds do not depend on it: `x NOTNULL` / `x NOT NULL` -> `x IS NOT NULL`, `x ISNULL` -> `x IS NULL`,
    `<>` -> `!=`, `==` -> `=`, `INNER JOIN` -> `JOIN`.  Data-manipulation statements only (in DDL NOT NULL is a
    column constraint)."""
    out = []
    i = 0
    n = len(toks)

    def kw(word, like):
        return Tok('id', word, word, like.pos)
    while i < n:
        t = toks[i]
        if t.is_kw('NOTNULL'):
            out += [kw('IS', t), kw('NOT', t), kw('NULL', t)]
        elif t.is_kw('ISNULL'):
            out += [kw('IS', t), kw('NULL', t)]
        elif t.is_kw('NOT') and i + 1 < n and toks[i + 1].is_kw('NULL') and out and not out[-1].is_kw('IS') \
                and (out[-1].kind in ('id', 'num', 'str', 'qm') or out[-1].is_op(')')) \
                and not out[-1].is_kw('AND', 'OR', 'WHERE', 'ON', 'WHEN', 'THEN', 'ELSE', 'SET', 'SELECT'):
            out += [kw('IS', t), kw('NOT', t), kw('NULL', toks[i + 1])]
            i += 1
        elif t.is_op('<>'):
            out.append(Tok('op', '!=', '!=', t.pos))
        elif t.is_op('=='):
            out.append(Tok('op', '=', '=', t.pos))
        elif t.is_kw('INNER') and i + 1 < n and toks[i + 1].is_kw('JOIN'):
            pass
        else:
            out.append(t)
        i += 1
    return out


def parse(text_or_toks):
    toks = tokenize(text_or_toks) if isinstance(text_or_toks, str) else list(text_or_toks)
    while toks and toks[-1].is_op(';'):
        toks.pop()
    if not toks:
        raise SqlError('empty statement')
    if toks[0].is_kw('SELECT', 'WITH', 'INSERT', 'REPLACE', 'UPDATE', 'DELETE'):
        toks = _canonical_spelling(toks)
    p = P(toks)
    t0 = toks[0]
    if t0.is_kw('SELECT', 'WITH'):
        st = Stmt('select', toks)
        st.select = parse_select(p)
        _finish_select_stmt(st)
    elif t0.is_kw('INSERT', 'REPLACE'):
        st = parse_insert(p, toks)
    elif t0.is_kw('UPDATE'):
        st = parse_update(p, toks)
    elif t0.is_kw('DELETE'):
        st = parse_delete(p, toks)
    elif t0.is_kw('PRAGMA'):
        st = parse_pragma(p, toks)
    elif t0.is_kw('ATTACH'):
        st = Stmt('attach', toks)
        p.next()
        p.kw('DATABASE')
        e = p.until(stop_kw=('AS',))
        p.expect_kw('AS')
        st.name = p.ident()
        st.extra['file'] = Expr(e)
        _collect_params_generic(st, e, 'other')
        p.i = len(toks)
    elif t0.is_kw('DETACH'):
        st = Stmt('detach', toks)
        p.i = len(toks)
    elif t0.is_kw('BEGIN'):
        st = Stmt('begin', toks)
        p.i = len(toks)
    elif t0.is_kw('COMMIT', 'END'):
        st = Stmt('commit', toks)
        p.i = len(toks)
    elif t0.is_kw('ROLLBACK'):
        st = Stmt('rollback', toks)
        p.i = len(toks)
    elif t0.is_kw('SAVEPOINT', 'RELEASE'):
        st = Stmt('savepoint', toks)
        p.i = len(toks)
    elif t0.is_kw('VACUUM'):
        st = Stmt('vacuum', toks)
        p.i = len(toks)
    elif t0.is_kw('ANALYZE'):
        st = Stmt('analyze', toks)
        p.i = len(toks)
    elif t0.is_kw('DROP'):
        st = Stmt('drop', toks)
        p.next()
        st.extra['what'] = p.next().val.upper()
        if p.kw('IF'):
            p.expect_kw('EXISTS')
        st.schema, st.name = p.qualified()
    elif t0.is_kw('ALTER'):
        st = Stmt('alter', toks)
        p.next()
        p.expect_kw('TABLE')
        st.schema, st.table = p.qualified()
        st.extra['rest'] = toks[p.i:]
        p.i = len(toks)
    elif t0.is_kw('CREATE'):
        st = parse_create(p, toks)
    else:
        raise SqlError('unclassified statement: %s' % ' '.join(t.raw for t in toks)[:200])
    if not p.eof():
        raise SqlError('trailing tokens after %s statement at %d: %s' % (
            st.kind, p.i, ' '.join(t.raw for t in toks[p.i:])[:200]))
    return st


# ----------------------------------------------------------------------------

def _table_ref(p):
    schema, name = p.qualified()
    alias = None
    if p.kw('AS'):
        alias = p.ident()
    else:
        x = p.peek()
        if x is not None and x.kind == 'id' and not x.is_kw(
                'WHERE', 'JOIN', 'LEFT', 'INNER', 'OUTER', 'CROSS', 'ON', 'ORDER',
                'GROUP', 'LIMIT', 'SET', 'UNION', 'NATURAL', 'USING', 'HAVING',
                'VALUES', 'SELECT', 'INDEXED', 'NOT'):
            alias = p.ident()
    return (schema, name, alias)


def parse_select(p):
    s = Select()
    start = p.i
    if p.kw('WITH'):
        s.recursive = bool(p.kw('RECURSIVE'))
        ctes = []
        while True:
            name = p.ident()
            cols = None
            if p.peek().is_op('('):
                cols = [Expr(x).text() for x in p.paren_list()]
            p.expect_kw('AS')
            p.expect_op('(')
            sub = parse_select(p)
            p.expect_op(')')
            ctes.append((name, cols, sub))
            if not p.op(','):
                break
        s.with_ = ctes
    p.expect_kw('SELECT')
    if p.kw('DISTINCT'):
        s.distinct = True
    else:
        p.kw('ALL')
    while True:
        toks = p.until(stop_kw=('FROM', 'WHERE', 'ORDER', 'GROUP', 'LIMIT', 'UNION'),
                       stop_op=(',', ';'))
        alias = None
        if len(toks) >= 3 and toks[-2].is_kw('AS') and toks[-1].kind in ('id', 'str'):
            alias = toks[-1].val
            toks = toks[:-2]
        elif len(toks) >= 2 and toks[-1].kind == 'id' and not toks[-1].is_kw('END', 'NULL') \
                and (toks[-2].kind in ('id', 'num', 'str') or toks[-2].is_op(')')) \
                and not toks[-2].is_kw(*KEYWORDS) and not (len(toks) >= 2 and toks[-2].is_op('.')):
            alias = toks[-1].val
            toks = toks[:-1]
        if not toks:
            raise SqlError('empty select item')
        s.items.append((Expr(toks), alias))
        if not p.op(','):
            break
    if p.kw('FROM'):
        if p.peek().is_op('('):
            p.expect_op('(')
            sub = parse_select(p)
            p.expect_op(')')
            alias = None
            if p.kw('AS'):
                alias = p.ident()
            elif p.peek() is not None and p.peek().kind == 'id' and not p.peek().is_kw('WHERE', 'JOIN', 'ORDER', 'GROUP', 'LIMIT', 'LEFT', 'INNER', 'UNION'):
                alias = p.ident()
            s.tables.append((None, sub, alias))
        else:
            s.tables.append(_table_ref(p))
        while True:
            if p.op(','):
                s.tables.append(_table_ref(p))
                continue
            save = p.i
            j = False
            p.kw('NATURAL')
            if p.kw('LEFT'):
                p.kw('OUTER')
                j = True
            elif p.kw('INNER', 'CROSS'):
                j = True
            if p.kw('JOIN'):
                s.tables.append(_table_ref(p))
                if p.kw('ON'):
                    s.joins.append(Expr(p.until(stop_kw=('WHERE', 'JOIN', 'LEFT', 'INNER', 'CROSS', 'NATURAL', 'ORDER', 'GROUP', 'LIMIT', 'UNION'), stop_op=(';',))))
                elif p.kw('USING'):
                    s.joins.append(Expr([y for x in p.paren_list() for y in x]))
                continue
            p.i = save
            if j:
                raise SqlError('JOIN expected')
            break
    if p.kw('WHERE'):
        s.where = Expr(p.until(stop_kw=('ORDER', 'GROUP', 'LIMIT', 'UNION'), stop_op=(';',)))
    if p.kw('GROUP'):
        p.expect_kw('BY')
        p.until(stop_kw=('ORDER', 'LIMIT', 'UNION', 'HAVING'), stop_op=(';',))
        if p.kw('HAVING'):
            p.until(stop_kw=('ORDER', 'LIMIT', 'UNION'), stop_op=(';',))
    while p.kw('UNION'):
        p.kw('ALL')
        s.compound.append(parse_select(p))
    if p.kw('ORDER'):
        p.expect_kw('BY')
        while True:
            s.order_by.append(Expr(p.until(stop_kw=('LIMIT',), stop_op=(',', ';'))))
            if not p.op(','):
                break
    if p.kw('LIMIT'):
        s.limit = Expr(p.until(stop_op=(';',), stop_kw=('OFFSET',)))
        if p.kw('OFFSET'):
            p.until(stop_op=(';',))
    s.toks = p.t[start:p.i]
    return s


def _finish_select_stmt(st):
    s = st.select
    st.columns = s.output_names()
    st.tables = [(a, b, c) for a, b, c in s.tables if isinstance(b, str)]
    if st.tables:
        st.schema, st.table = st.tables[0][0], st.tables[0][1]
    st.where = s.where
    _params_select(st, s)


def _params_select(st, s):
    if s.with_:
        for name, cols, sub in s.with_:
            _params_select(st, sub)
    for e, alias in s.items:
        _collect_params_generic(st, e.toks, 'select')
    for t in s.tables:
        if isinstance(t[1], Select):
            _params_select(st, t[1])
    for j in s.joins:
        _collect_params_cond(st, j.toks, s)
    if s.where is not None:
        _collect_params_cond(st, s.where.toks, s)
    for c in s.compound:
        _params_select(st, c)
    for o in s.order_by:
        _collect_params_generic(st, o.toks, 'other')
    if s.limit is not None:
        _collect_params_generic(st, s.limit.toks, 'limit')


def _collect_params_generic(st, toks, role, column=None, row=None, pos=None):
    for t in toks:
        if t.kind == 'qm':
            st.params.append(ParamUse(len(st.params), role, column=column, row=row, pos=pos))


def _collect_params_cond(st, toks, sel=None):
    """Record each '?' in a condition with the column it is compared with
    (pattern `colref OP ?` or `? OP colref`)."""
    n = len(toks)
    for i, t in enumerate(toks):
        if t.kind != 'qm':
            continue
        col = None
        tab = None
        op = None
        if i >= 2 and toks[i - 1].kind == 'op' and toks[i - 1].val in CMP_OPS and toks[i - 2].kind == 'id':
            op = toks[i - 1].val
            col = toks[i - 2].val
            if i >= 4 and toks[i - 3].is_op('.') and toks[i - 4].kind == 'id':
                tab = toks[i - 4].val
        elif i >= 2 and toks[i - 1].is_kw('IS', 'LIKE') and toks[i - 2].kind == 'id':
            op = toks[i - 1].val.upper()
            col = toks[i - 2].val
        elif i + 2 < n and toks[i + 1].kind == 'op' and toks[i + 1].val in CMP_OPS and toks[i + 2].kind == 'id':
            op = _flip(toks[i + 1].val)
            if i + 4 < n and toks[i + 3].is_op('.') and toks[i + 4].kind == 'id':
                tab = toks[i + 2].val
                col = toks[i + 4].val
            else:
                col = toks[i + 2].val
        st.params.append(ParamUse(len(st.params), 'where', column=col, table=tab, op=op))


CMP_OPS = ('=', '==', '<>', '!=', '<', '>', '<=', '>=')


def _flip(op):
    return {'<': '>', '>': '<', '<=': '>=', '>=': '<='}.get(op, op)


def parse_insert(p, toks):
    st = Stmt('insert', toks)
    if p.kw('REPLACE'):
        st.or_replace = True
    else:
        p.expect_kw('INSERT')
        if p.kw('OR'):
            w = p.next()
            st.extra['conflict'] = w.val.upper()
            if w.is_kw('REPLACE'):
                st.or_replace = True
    p.expect_kw('INTO')
    st.schema, st.table = p.qualified()
    st.tables = [(st.schema, st.table, None)]
    if p.peek() is not None and p.peek().is_op('('):
        cols = p.paren_list()
        for c in cols:
            if len(c) != 1 or c[0].kind not in ('id', 'hole'):
                raise SqlError('bad insert column list')
            st.columns.append(c[0].val)
        st.extra['explicit_columns'] = True
    if p.kw('VALUES'):
        r = 0
        while True:
            items = p.paren_list()
            row = [Expr(x) for x in items]
            st.rows.append(row)
            for ci, e in enumerate(row):
                col = st.columns[ci] if ci < len(st.columns) else None
                _collect_params_generic(st, e.toks, 'value', column=col, row=r, pos=ci)
            r += 1
            if not p.op(','):
                break
    elif p.peek() is not None and p.peek().is_kw('SELECT', 'WITH'):
        st.select = parse_select(p)
        for ci, (e, alias) in enumerate(st.select.items):
            col = st.columns[ci] if ci < len(st.columns) else None
            _collect_params_generic(st, e.toks, 'value', column=col, row=0, pos=ci)
        s = st.select
        for j in s.joins:
            _collect_params_cond(st, j.toks, s)
        if s.where is not None:
            _collect_params_cond(st, s.where.toks, s)
        for c in s.compound:
            _params_select(st, c)
        st.tables += [(a, b, c) for a, b, c in s.tables if isinstance(b, str)]
    elif p.kw('DEFAULT'):
        p.expect_kw('VALUES')
    else:
        raise SqlError('INSERT without VALUES/SELECT: ' + st.text()[:200])
    return st


def parse_update(p, toks):
    st = Stmt('update', toks)
    p.expect_kw('UPDATE')
    if p.kw('OR'):
        st.extra['conflict'] = p.next().val.upper()
    st.schema, st.table = p.qualified()
    st.tables = [(st.schema, st.table, None)]
    p.expect_kw('SET')
    while True:
        col = p.ident()
        p.expect_op('=')
        e = Expr(p.until(stop_kw=('WHERE',), stop_op=(',', ';')))
        st.sets.append((col, e))
        _collect_params_generic(st, e.toks, 'set', column=col)
        if not p.op(','):
            break
    if p.kw('WHERE'):
        st.where = Expr(p.until(stop_op=(';',)))
        _collect_params_cond(st, st.where.toks)
    return st


def parse_delete(p, toks):
    st = Stmt('delete', toks)
    p.expect_kw('DELETE')
    p.expect_kw('FROM')
    st.schema, st.table = p.qualified()
    st.tables = [(st.schema, st.table, None)]
    if p.kw('WHERE'):
        st.where = Expr(p.until(stop_op=(';',)))
        _collect_params_cond(st, st.where.toks)
    return st


READ_PRAGMAS = {'table_info', 'index_list', 'index_info', 'table_xinfo',
                'index_xinfo', 'foreign_key_list', 'integrity_check',
                'foreign_key_check', 'database_list', 'quick_check'}


def parse_pragma(p, toks):
    st = Stmt('pragma', toks)
    p.expect_kw('PRAGMA')
    st.schema, st.name = p.qualified()
    st.extra['assign'] = False
    st.extra['arg'] = None
    if p.op('='):
        st.extra['assign'] = True
        st.extra['arg'] = Expr(p.until(stop_op=(';',)))
    elif p.peek() is not None and p.peek().is_op('('):
        items = p.paren_list()
        st.extra['arg'] = Expr(items[0]) if items else None
    if st.extra['arg'] is not None:
        _collect_params_generic(st, st.extra['arg'].toks, 'other')
    return st


QUERY_PRAGMAS = {
    'foreign_keys', 'journal_mode', 'user_version', 'schema_version', 'page_size', 'encoding', 'integrity_check',
    'quick_check', 'foreign_key_check', 'database_list', 'table_list', 'collation_list', 'compile_options',
    'function_list', 'module_list', 'pragma_list', 'cache_size', 'synchronous', 'locking_mode', 'auto_vacuum',
    'recursive_triggers', 'application_id', 'data_version', 'freelist_count', 'page_count', 'busy_timeout',
    'temp_store', 'secure_delete', 'wal_autocheckpoint', 'mmap_size', 'max_page_count', 'journal_size_limit',
    'legacy_alter_table', 'defer_foreign_keys', 'ignore_check_constraints', 'query_only', 'read_uncommitted',
    'reverse_unordered_selects', 'trusted_schema', 'cell_size_check', 'checkpoint_fullfsync', 'fullfsync',
    'case_sensitive_like', 'automatic_index', 'analysis_limit', 'hard_heap_limit', 'soft_heap_limit', 'threads',
    'table_info', 'table_xinfo', 'index_list', 'index_info', 'index_xinfo', 'foreign_key_list', 'stats'}


def pragma_is_read(st):
    """A pragma is a read iff it is one of the schema-inspection pragmas used
    with an argument in call form, or a plain query of a setting (no '=')."""
    n = (st.name or '').lower()
    if n in READ_PRAGMAS and not st.extra.get('assign'):
        return True
    if not st.extra.get('assign') and st.extra.get('arg') is None:
        # PRAGMA foo;  queries a setting - unless foo is one of the pragmas that act without an argument
        # (optimize runs ANALYZE, wal_checkpoint rewrites the database file, incremental_vacuum frees pages);
        # a name that is neither a known setting nor a known action counts as an action
        return n in QUERY_PRAGMAS
    return False


# ----------------------------------------------------------------------------
# DDL

class ColumnDef:
    def __init__(self, name):
        self.name = name
        self.type = ''
        self.notnull = False
        self.default = None      # raw text as sqlite reports it
        self.pk = False
        self.pk_autoinc = False
        self.unique = False
        self.references = None   # (table, [cols], on_delete, on_update)
        self.collate = None
        self.check = None
        self.constraint_toks = []

    def sig(self):
        return (self.name, self.type.upper(), self.notnull, self.default, self.pk,
                self.pk_autoinc, self.unique,
                (self.references[0], tuple(self.references[1]),
                 self.references[2], self.references[3]) if self.references else None,
                self.collate, self.check)


class TableDef:
    def __init__(self, schema, name):
        self.schema = schema
        self.name = name
        self.columns = []
        self.pk = []             # table-level primary key column names
        self.uniques = []        # table-level UNIQUE constraints: [cols]
        self.fks = []            # (cols, reftable, refcols, on_delete, on_update)
        self.checks = []
        self.without_rowid = False
        self.constraint_order = []   # ('pk'|'unique', cols) in textual order incl. column-level

    def col(self, name):
        for c in self.columns:
            if c.name.lower() == name.lower():
                return c
        return None


class IndexDef:
    def __init__(self):
        self.schema = None
        self.name = None
        self.table = None
        self.columns = []
        self.unique = False
        self.where = None
        self.if_not_exists = False


class ViewDef:
    def __init__(self):
        self.schema = None
        self.name = None
        self.columns = None
        self.select = None
        self.body_norm = None


class TriggerDef:
    def __init__(self):
        self.schema = None
        self.name = None
        self.timing = None       # BEFORE / AFTER / INSTEAD OF / None
        self.event = None        # INSERT / UPDATE / DELETE
        self.of_columns = []
        self.table = None
        self.for_each_row = False
        self.when = None
        self.body = []           # parsed Stmts
        self.norm = None


def parse_create(p, toks):
    p.expect_kw('CREATE')
    temp = bool(p.kw('TEMP', 'TEMPORARY'))
    unique = bool(p.kw('UNIQUE'))
    what = p.next()
    if what.is_kw('VIRTUAL'):
        raise SqlError('virtual tables not supported')
    ine = False
    if p.kw('IF'):
        p.expect_kw('NOT')
        p.expect_kw('EXISTS')
        ine = True
    if what.is_kw('TABLE'):
        st = Stmt('create_table', toks)
        schema, name = p.qualified()
        td = TableDef(schema, name)
        st.schema, st.name, st.table = schema, name, name
        st.extra['def'] = td
        st.extra['temp'] = temp
        st.extra['if_not_exists'] = ine
        if p.kw('AS'):
            raise SqlError('CREATE TABLE AS not supported')
        p.expect_op('(')
        while True:
            x = p.peek()
            if x.is_kw('CONSTRAINT', 'PRIMARY', 'UNIQUE', 'FOREIGN', 'CHECK') and \
                    not (x.is_kw('PRIMARY', 'UNIQUE', 'CHECK') and False):
                _table_constraint(p, td)
            else:
                _column_def(p, td)
            if p.op(','):
                continue
            p.expect_op(')')
            break
        if p.kw('WITHOUT'):
            p.expect_kw('ROWID')
            td.without_rowid = True
        return st
    if what.is_kw('INDEX'):
        st = Stmt('create_index', toks)
        ix = IndexDef()
        ix.unique = unique
        ix.if_not_exists = ine
        ix.schema, ix.name = p.qualified()
        p.expect_kw('ON')
        ix.table = p.ident()
        cols = p.paren_list()
        for c in cols:
            cc = [t for t in c if not t.is_kw('ASC', 'DESC')]
            if len(cc) != 1 or cc[0].kind != 'id':
                # expression index / collate: keep normalised text
                ix.columns.append(norm_tokens(cc))
            else:
                ix.columns.append(cc[0].val)
        if p.kw('WHERE'):
            ix.where = Expr(p.until(stop_op=(';',)))
        st.schema, st.name, st.table = ix.schema, ix.name, ix.table
        st.extra['def'] = ix
        return st
    if what.is_kw('VIEW'):
        st = Stmt('create_view', toks)
        v = ViewDef()
        v.schema, v.name = p.qualified()
        if p.peek().is_op('('):
            v.columns = [Expr(x).text() for x in p.paren_list()]
        p.expect_kw('AS')
        start = p.i
        v.select = parse_select(p)
        v.body_norm = norm_tokens(toks[start:p.i])
        st.schema, st.name = v.schema, v.name
        st.select = v.select
        st.extra['def'] = v
        return st
    if what.is_kw('TRIGGER'):
        st = Stmt('create_trigger', toks)
        tr = TriggerDef()
        tr.schema, tr.name = p.qualified()
        if p.kw('BEFORE'):
            tr.timing = 'BEFORE'
        elif p.kw('AFTER'):
            tr.timing = 'AFTER'
        elif p.kw('INSTEAD'):
            p.expect_kw('OF')
            tr.timing = 'INSTEAD OF'
        ev = p.expect_kw('INSERT', 'UPDATE', 'DELETE')
        tr.event = ev.val.upper()
        if tr.event == 'UPDATE' and p.kw('OF'):
            while True:
                tr.of_columns.append(p.ident())
                if not p.op(','):
                    break
        p.expect_kw('ON')
        s2, tr.table = p.qualified()
        if p.kw('FOR'):
            p.expect_kw('EACH')
            p.expect_kw('ROW')
            tr.for_each_row = True
        if p.kw('WHEN'):
            tr.when = Expr(p.until(stop_kw=('BEGIN',)))
        p.expect_kw('BEGIN')
        # body statements separated by ';' up to the final END
        body_toks = toks[p.i:]
        if not body_toks or not body_toks[-1].is_kw('END'):
            raise SqlError('trigger without END: ' + st.text()[:200])
        body_toks = body_toks[:-1]
        cur = []
        depth = 0
        for t in body_toks:
            if t.is_op(';') and depth == 0:
                if cur:
                    tr.body.append(parse(cur))
                cur = []
                continue
            if t.is_op('('):
                depth += 1
            elif t.is_op(')'):
                depth -= 1
            cur.append(t)
        if cur:
            tr.body.append(parse(cur))
        p.i = len(toks)
        st.schema, st.name, st.table = tr.schema, tr.name, tr.table
        st.extra['def'] = tr
        return st
    raise SqlError('unsupported CREATE ' + what.val)


def _type_name(p):
    """Declared type: run of identifiers, optionally ( n [, m] )."""
    parts = []
    while True:
        x = p.peek()
        if x is None or x.kind != 'id' or x.is_kw(
                'CONSTRAINT', 'PRIMARY', 'NOT', 'NULL', 'UNIQUE', 'CHECK', 'DEFAULT',
                'COLLATE', 'REFERENCES', 'GENERATED', 'AS') or x.raw[0] in '["`' and parts:
            break
        parts.append(p.next().val)
    t = ' '.join(parts)
    if parts and p.peek() is not None and p.peek().is_op('('):
        items = p.paren_list()
        t += '(' + ','.join(Expr(i).text() for i in items) + ')'
    return t


def _conflict_clause(p):
    if p.kw('ON'):
        p.expect_kw('CONFLICT')
        return p.next().val.upper()
    return None


def _fk_clause(p):
    reft = p.ident()
    refcols = []
    if p.peek() is not None and p.peek().is_op('('):
        refcols = [Expr(x).toks[0].val for x in p.paren_list()]
    on_delete = None
    on_update = None
    while True:
        if p.kw('ON'):
            which = p.expect_kw('DELETE', 'UPDATE').val.upper()
            if p.kw('SET'):
                act = 'SET ' + p.expect_kw('NULL', 'DEFAULT').val.upper()
            elif p.kw('NO'):
                p.expect_kw('ACTION')
                act = 'NO ACTION'
            else:
                act = p.expect_kw('CASCADE', 'RESTRICT').val.upper()
            if which == 'DELETE':
                on_delete = act
            else:
                on_update = act
            continue
        if p.kw('MATCH'):
            p.ident()
            continue
        if p.peek() is not None and p.peek().is_kw('NOT') and p.peek(1) is not None and p.peek(1).is_kw('DEFERRABLE'):
            p.next()
            p.next()
            if p.kw('INITIALLY'):
                p.next()
            continue
        if p.kw('DEFERRABLE'):
            if p.kw('INITIALLY'):
                p.next()
            continue
        break
    return reft, refcols, on_delete, on_update


def _column_def(p, td):
    name = p.ident()
    c = ColumnDef(name)
    c.type = _type_name(p)
    while True:
        if p.kw('CONSTRAINT'):
            p.ident()
            continue
        if p.kw('PRIMARY'):
            p.expect_kw('KEY')
            p.kw('ASC', 'DESC')
            _conflict_clause(p)
            c.pk = True
            if p.kw('AUTOINCREMENT'):
                c.pk_autoinc = True
            td.constraint_order.append(('pk', [name]))
            continue
        if p.kw('NOT'):
            p.expect_kw('NULL')
            _conflict_clause(p)
            c.notnull = True
            continue
        if p.kw('NULL'):
            continue
        if p.kw('UNIQUE'):
            _conflict_clause(p)
            c.unique = True
            td.constraint_order.append(('unique', [name]))
            continue
        if p.kw('CHECK'):
            items = p.paren_list()
            c.check = norm_tokens([y for x in items for y in x])
            continue
        if p.kw('DEFAULT'):
            x = p.peek()
            if x.is_op('('):
                start = p.i
                p.paren_list()
                c.default = ''.join(t.raw for t in p.t[start:p.i])
            elif x.is_op('-', '+'):
                sign = p.next().val
                c.default = sign + p.next().raw
            else:
                c.default = p.next().raw
            continue
        if p.kw('COLLATE'):
            c.collate = p.ident()
            continue
        if p.kw('REFERENCES'):
            c.references = _fk_clause(p)
            td.fks.append(([name],) + c.references)
            continue
        break
    td.columns.append(c)


def _table_constraint(p, td):
    if p.kw('CONSTRAINT'):
        p.ident()
    if p.kw('PRIMARY'):
        p.expect_kw('KEY')
        cols = [_idx_col(x) for x in p.paren_list()]
        _conflict_clause(p)
        td.pk = cols
        td.constraint_order.append(('pk', cols))
    elif p.kw('UNIQUE'):
        cols = [_idx_col(x) for x in p.paren_list()]
        _conflict_clause(p)
        td.uniques.append(cols)
        td.constraint_order.append(('unique', cols))
    elif p.kw('CHECK'):
        items = p.paren_list()
        td.checks.append(norm_tokens([y for x in items for y in x]))
    elif p.kw('FOREIGN'):
        p.expect_kw('KEY')
        cols = [_idx_col(x) for x in p.paren_list()]
        p.expect_kw('REFERENCES')
        td.fks.append((cols,) + _fk_clause(p))
    else:
        raise SqlError('bad table constraint')


def _idx_col(toks):
    cc = [t for t in toks if not t.is_kw('ASC', 'DESC', 'AUTOINCREMENT')]
    if len(cc) != 1 or cc[0].kind != 'id':
        raise SqlError('unsupported indexed-column form: ' + ' '.join(t.raw for t in toks))
    return cc[0].val


_SQL_KEYWORDS_NORM = set('''ABORT ACTION ADD AFTER ALL ALTER AND AS ASC ATTACH
AUTOINCREMENT BEFORE BEGIN BETWEEN BY CASCADE CASE CAST CHECK COLLATE COLUMN
COMMIT CONFLICT CONSTRAINT CREATE CROSS DEFAULT DEFERRABLE DEFERRED DELETE DESC
DISTINCT DROP EACH ELSE END EXISTS FOR FOREIGN FROM GROUP HAVING IF IN INDEX
INNER INSERT INSTEAD INTO IS JOIN KEY LEFT LIKE LIMIT NOT NULL OF ON OR ORDER
OUTER PRIMARY RECURSIVE REFERENCES REPLACE ROW SELECT SET TABLE THEN TRIGGER
UNION UNIQUE UPDATE USING VALUES VIEW WHEN WHERE WITH WITHOUT NEW OLD INTEGER
TEXT BLOB REAL NUMERIC ROWID'''.split())


def norm_tokens(toks, drop_schema=True):
    """Normalised text of a token run: whitespace, identifier quoting and
    keyword case removed; optional `schema.` prefixes dropped for the attached
    database aliases this repository uses."""
    out = []
    i = 0
    n = len(toks)
    while i < n:
        t = toks[i]
        if t.kind == 'id':
            if drop_schema and i + 2 < n and toks[i + 1].is_op('.') and \
                    t.val.lower() in ('music', 'perfdata', 'main') and toks[i + 2].kind == 'id':
                i += 2
                continue
            if t.raw[0] not in '["`' and t.val.upper() in _SQL_KEYWORDS_NORM:
                out.append(t.val.upper())
            else:
                out.append('"' + t.val + '"')
        elif t.kind == 'str':
            out.append("'" + t.val.replace("'", "''") + "'")
        elif t.kind == 'num':
            out.append(t.val)
        else:
            out.append(t.raw)
        i += 1
    return ' '.join(out)
