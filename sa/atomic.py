"""Path analysis of write units and transaction scopes (C14, C10-N4).

Abstract state of one path (finite):
   u      completed write units outside a live transaction, 0 / 1 / 2(many)
   first  where the first completed unit was written (for the report)
   t      frame depth owning the live transaction, or None
   tw     the live transaction contains a write
A *write unit* is one write statement outside a transaction, or one
transaction that contains at least one write.  SQLite makes a unit atomic
(statement incl. triggers; BEGIN..COMMIT; destructor ROLLBACK).  Everything a
mutating call executes after its first completed unit is a fault position at
which the call would fail with that unit already persisted.

The interpreter walks the structured AST (the code base has no goto), forks at
branches, iterates loop bodies twice, inlines repository callees (virtual
calls: every overrider) with memoisation on (function, state), and treats
lambda bodies as executed zero or more times where they appear.
"""
from . import effects as effects_mod
from .frontend import AnalysisBroken
from .program import children, strip, walk, locstr

TXN = 'djinterop::util::sqlite_transaction'
MAXDEPTH = 14


class ResolvedEffects(effects_mod.Effects):
    """Effects whose statement kind is read through calls: when the head of an SQL text is a parameter of
    the function that executes it (`void populate(db, const std::string& pragma, table) { db << pragma +
    "('" + table + "')" ... }`, the shared body of two constructors), the text is read with the argument of
    every call of that function in place of the parameter.  All callers must agree on the kind of statement;
    otherwise the statement is dynamic SQL (any write)."""

    def __init__(self, prog, cg):
        effects_mod.Effects.__init__(self, prog, cg)
        self._callers = None

    def _callers_of(self, func):
        if self._callers is None:
            self._callers = {}
            for g in self.prog.functions.values():
                if g.is_pattern or g.body is None or not self.prog.in_repo(g.file):
                    continue
                for ed in self.cg.edges(g):
                    if ed.node.get('kind') in ('CallExpr', 'CXXMemberCallExpr'):
                        for t in ed.targets:
                            self._callers.setdefault(t.key, []).append((g, ed.node))
        return self._callers.get(func.key, [])

    def _head_variants(self, func, parts, depth=0):
        """texts of `parts` with a leading parameter hole replaced by what the callers pass; None = unknown"""
        from . import sites as sites_mod
        head = parts[0]
        if isinstance(head, str):
            return [parts]
        ref = strip(head.node, explicit=True).get('referencedDecl') or {}
        names = [p_.get('id') for p_ in func.params]
        if ref.get('kind') != 'ParmVarDecl' or ref.get('id') not in names or depth > 3:
            return None
        i = names.index(ref.get('id'))
        out = []
        cs = self._callers_of(func)
        if not cs:
            return None
        for g, c in cs:
            args = children(c)[1:]
            if i >= len(args):
                return None
            ap = sites_mod._merge(sites_mod.sql_parts(args[i], sites_mod._string_locals(g)))
            vs = self._head_variants(g, ap + list(parts[1:]), depth + 1)
            if vs is None:
                return None
            out.extend(vs)
        return out

    def sites(self, func):
        from . import sites as sites_mod
        s = self._sites.get(func.key)
        if s is None:
            s = sites_mod.find_sites(func)
            for x in s:
                ps = x.sql_parts
                if len(ps) > 1 and not isinstance(ps[0], str):
                    vs = self._head_variants(func, list(ps))
                    if vs:
                        sts = []
                        for v in vs:
                            c = sites_mod.Site()
                            c.node, c.sql_parts = x.node, sites_mod._merge(v)
                            sts.append(effects_mod.parse_site(c))
                        kinds = {(effects_mod.classify(t), getattr(t, 'kind', None)) for t in sts}
                        x.stored_in = sts[0] if len(kinds) == 1 else None
                        continue
                x.stored_in = effects_mod.parse_site(x)
            self._sites[func.key] = s
        return s


class State(tuple):
    """(u, first, t, tw, anc): anc = the shallowest function frame that has held
    this path since its first write unit completed (where a transaction scope
    joining the units would have to be placed)."""
    __slots__ = ()

    def __new__(cls, u=0, first=None, t=None, tw=False, anc=None):
        return tuple.__new__(cls, (u, first, t, tw, anc))

    u = property(lambda s: s[0])
    first = property(lambda s: s[1])
    t = property(lambda s: s[2])
    tw = property(lambda s: s[3])
    anc = property(lambda s: s[4])

    def with_(self, **kw):
        d = {'u': self[0], 'first': self[1], 't': self[2], 'tw': self[3], 'anc': self[4]}
        d.update(kw)
        return State(**d)


class Finding:
    __slots__ = ('rule', 'what', 'loc', 'first', 'chain', 'stmt', 'func', 'anc')

    def __init__(self, rule, what, loc, first, chain, stmt=None, func=None, anc=None):
        self.anc = anc
        self.rule = rule
        self.what = what
        self.loc = loc
        self.first = first
        self.chain = chain
        self.stmt = stmt
        self.func = func


class Analyzer:
    def __init__(self, prog, cg, eff):
        self.prog = prog
        self.cg = cg
        self.eff = eff
        self.memo = {}
        self.inprog = set()
        self.findings = []
        self.stats = {'sites': 0, 'calls': 0, 'txn': 0, 'paths': 0}
        self.seen_funcs = set()
        self.catch_sites = []

    # ------------------------------------------------------------------
    def run_entry(self, func):
        self.findings = []
        self._chain = [func.qualname]
        exits = self.call(func, State(), 0)
        return exits, self.findings

    def call(self, func, st, depth):
        """Normal-exit states of func entered in state st."""
        if func.body is None:
            return {st}
        key = (func.key, st)
        if key in self.memo:
            res, finds = self.memo[key]
            for f in finds:
                self._report(f.rule, f.what, f.loc, f.first, stmt=f.stmt, func=f.func,
                             chain=self._chain + f.chain, anc=f.anc)
            return res
        if key in self.inprog or depth > MAXDEPTH:
            # recursion: the function may run any number of times
            writes = any(e.cls in ('write', 'ddl', 'dynsql') for e in self.eff.direct(func))
            if writes and st.t is None:
                return {st.with_(u=2, first=st.first or '%s (recursive)' % func.qualname,
                                 anc=st.anc or func.qualname)}
            return {st}
        self.inprog.add(key)
        self.seen_funcs.add(func.key)
        saved_find = self.findings
        saved_chain = self._chain
        self.findings = []
        self._chain = []
        fr = Frame(self, func, depth)
        out = fr.run(st)
        local = self.findings
        self.findings = saved_find
        self._chain = saved_chain
        self.inprog.discard(key)
        self.memo[key] = (out, local)
        for f in local:
            self._report(f.rule, f.what, f.loc, f.first, stmt=f.stmt, func=f.func,
                         chain=self._chain + f.chain, anc=f.anc)
        return out

    def _report(self, rule, what, loc, first, stmt=None, func=None, chain=None, anc=None):
        if chain is not None:
            chain = [c for i, c in enumerate(chain) if i == 0 or c != chain[i - 1]]
        self.findings.append(Finding(rule, what, loc, first, chain if chain is not None
                                     else list(self._chain), stmt, func, anc))


class Frame:
    def __init__(self, an, func, depth):
        self.an = an
        self.func = func
        self.depth = depth
        self.sites = {id(s.node): s for s in an.eff.sites(func)}
        self.edges = {id(e.node): e for e in an.cg.edges(func)}
        self.returns = set()
        self.txn_vars = {}

    # ---- top -----------------------------------------------------------
    def run(self, st):
        f = self.func
        states = {st}
        for init in f.inits:
            states = self.expr_all(init, states)
        out = self.stmt(f.body, states)
        out |= self.returns
        # leaving the frame: a transaction owned here and still live is rolled back
        res = set()
        for s in out:
            res.add(self.leave_scope(s, f.body, self.depth))
        return res

    def leave_scope(self, s, node, owner):
        if s.t == owner:
            self.an._report('A2', 'transaction opened in %s is not committed on a path that '
                            'leaves its scope normally (the destructor rolls the writes back '
                            'silently)' % self.func.qualname, locstr(node), s.first,
                            func=self.func.qualname, chain=[self.func.qualname])
            return s.with_(t=None, tw=False)
        return s

    # ---- statements ----------------------------------------------------
    def stmt(self, n, states):
        if not states:
            return states
        k = n.get('kind')
        if k == 'CompoundStmt':
            cur = states
            for c in children(n):
                cur = self.stmt(c, cur)
                if not cur:
                    break
            return cur
        if k == 'DeclStmt':
            cur = states
            for d in children(n):
                if d.get('kind') == 'VarDecl':
                    cls = self.an.cg.record_of_type(d.get('type'))
                    if cls == TXN and not (d.get('type') or '').rstrip().endswith(('&', '*')):
                        for ce in children(d):
                            ce = strip(ce)
                            if ce.get('kind') in ('CXXConstructExpr', 'CXXTemporaryObjectExpr',
                                                  'InitListExpr'):
                                cur = self.expr_children(ce, cur)
                            else:
                                cur = self.expr_all(ce, cur)
                        cur = {self.begin(s, d) for s in cur}
                        continue
                cur = self.expr_all(d, cur)
            return cur
        if k == 'IfStmt':
            c = children(n)
            # [init] [condvar] cond then [else]
            has_else = n.get('hasElse')
            body = c[-2:] if has_else else c[-1:]
            pre = c[:-2] if has_else else c[:-1]
            cur = states
            for p in pre:
                cur = self.stmt(p, cur) if p.get('kind') in ('DeclStmt',) else self.expr_all(p, cur)
            a = self.stmt(body[0], cur)
            b = self.stmt(body[1], cur) if has_else else cur
            return a | b
        if k in ('ForStmt', 'WhileStmt', 'DoStmt', 'CXXForRangeStmt'):
            c = children(n)
            body = c[-1]
            cur = states
            for p in c[:-1]:
                if p.get('kind') == 'DeclStmt':
                    cur = self.stmt(p, cur)
                else:
                    cur = self.expr_all(p, cur)
            one = self.stmt(body, cur)
            for p in c[:-1]:
                if p.get('kind') != 'DeclStmt':
                    one = self.expr_all(p, one)
            two = self.stmt(body, one)
            res = cur | one | two
            # many iterations: any write in the body outside a txn saturates
            res2 = set()
            for s in res:
                res2.add(s)
            if any(s.u > x.u for s in one for x in cur):
                res2 |= {s.with_(u=2) for s in two}
            return res2
        if k == 'ReturnStmt':
            cur = self.expr_children(n, states)
            for s in cur:
                self.returns.add(s)
            return set()
        if k == 'CXXTryStmt':
            c = children(n)
            body = c[0]
            handlers = c[1:]
            self.an.catch_sites.append((self.func, n))
            after = self.stmt(body, states)
            # a handler may start from the entry state or any state reached in the body
            inter = set(states) | after | self._intermediate(body, states)
            res = set(after)
            for h in handlers:
                hb = children(h)[-1] if children(h) else None
                if hb is not None:
                    res |= self.stmt(hb, inter)
            return res
        if k in ('SwitchStmt',):
            c = children(n)
            cur = states
            for p in c[:-1]:
                cur = self.expr_all(p, cur) if p.get('kind') != 'DeclStmt' else self.stmt(p, cur)
            body = c[-1]
            res = set(cur)
            # each case group independently; fallthrough approximated by sequence
            acc = set()
            for ch in children(body):
                acc = self.stmt(ch, cur | acc)
                res |= acc
            return res
        if k in ('CaseStmt', 'DefaultStmt', 'LabelStmt', 'AttributedStmt'):
            cur = states
            for ch in children(n):
                if ch.get('kind', '').endswith('Stmt') or ch.get('kind') in ('CompoundStmt',):
                    cur = self.stmt(ch, cur)
                elif ch.get('kind') not in ('ConstantExpr', 'IntegerLiteral'):
                    cur = self.stmt(ch, cur)
            return cur
        if k in ('BreakStmt', 'ContinueStmt', 'NullStmt'):
            return states
        if k == 'CXXCatchStmt':
            return self.stmt(children(n)[-1], states)
        # expression statement
        return self.expr_all(n, states)

    def _intermediate(self, body, states):
        out = set()
        cur = states
        if body.get('kind') == 'CompoundStmt':
            for c in children(body):
                cur = self.stmt(c, cur)
                out |= cur
        return out

    # ---- expressions -----------------------------------------------------
    def expr_children(self, n, states, skip_ctor=False):
        cur = states
        for c in children(n):
            cur = self.expr_all(c, cur)
        return cur

    def expr_all(self, n, states):
        if not states:
            return states
        k = n.get('kind')
        if k is None:
            return states
        if k == 'CXXThrowExpr':
            self.expr_children(n, states)
            return set()
        if id(n) in self.sites:
            return self.site(self.sites[id(n)], states)
        if k == 'LambdaExpr':
            body = [c for c in children(n) if c.get('kind') == 'CompoundStmt']
            if body:
                sub = Frame(self.an, self.func, self.depth)
                sub.sites, sub.edges = self.sites, self.edges
                one = sub.stmt(body[-1], states) | sub.returns
                sub.returns = set()
                two = sub.stmt(body[-1], one) | sub.returns
                return states | one | two
            return states
        if k == 'ConditionalOperator':
            c = children(n)
            cur = self.expr_all(c[0], states)
            return self.expr_all(c[1], cur) | self.expr_all(c[2], cur)
        if k == 'BinaryOperator' and n.get('opcode') in ('&&', '||'):
            c = children(n)
            cur = self.expr_all(c[0], states)
            return cur | self.expr_all(c[1], cur)
        if k in ('CompoundStmt', 'IfStmt', 'ForStmt', 'WhileStmt', 'DoStmt', 'CXXForRangeStmt',
                 'ReturnStmt', 'DeclStmt', 'CXXTryStmt', 'SwitchStmt'):
            return self.stmt(n, states)
        e = self.edges.get(id(n))
        if e is not None and n.get('kind') != 'VarDecl':
            cur = self.expr_children(n, states)
            return self.callsite(e, n, cur)
        cur = self.expr_children(n, states)
        if e is not None and n.get('kind') == 'VarDecl' and e.kind == 'dtor':
            pass
        return cur

    def callsite(self, e, n, states):
        self.an.stats['calls'] += 1
        targets = [t for t in e.targets if t.body is not None and not t.is_pattern]
        if not targets:
            return states
        # transaction API handled structurally
        if e.kind in ('direct', 'virtual') and e.name == TXN + '::commit':
            return {self.commit(s, n) for s in states}
        if e.name == TXN or any(t.cls == TXN for t in targets):
            if e.kind in ('ctor', 'make'):
                return {self.begin(s, n) for s in states}
            return states
        out = set()
        for s in states:
            for t in targets:
                self.an._chain.append(t.qualname)
                r = self.an.call(t, s, self.depth + 1)
                self.an._chain.pop()
                if s.u == 0:
                    r = {x.with_(anc=self.func.qualname) if x.u >= 1 else x for x in r}
                out |= r
        return out

    # ---- events ----------------------------------------------------------
    def begin(self, s, node):
        self.an.stats['txn'] += 1
        if s.t is not None:
            self.an._report('A3', 'transaction opened while another one is live (SQLite refuses a '
                            'nested BEGIN)', locstr(node), s.first, func=self.func.qualname,
                            chain=[self.func.qualname])
            return s
        if s.u >= 1:
            self.an._report('A1', 'a transaction is begun after a write unit has already been '
                            'completed outside it', locstr(node), s.first, func=self.func.qualname,
                            chain=[self.func.qualname], anc=s.anc)
        return s.with_(t=self.depth, tw=False)

    def commit(self, s, node):
        if s.t is None:
            return s
        if s.tw:
            return s.with_(t=None, tw=False, u=min(2, s.u + 1), first=s.first or
                           ('transaction committed at ' + locstr(node)),
                           anc=s.anc or self.func.qualname)
        return s.with_(t=None, tw=False)

    def site(self, site, states):
        self.an.stats['sites'] += 1
        cur = states
        for b in site.binds:
            cur = self.expr_all(b, cur)
        st = site.stored_in
        cls = effects_mod.classify(st)
        loc = locstr(site.node)
        out = set()
        for s in cur:
            if cls in ('txn', 'attach'):
                out.add(s)
                continue
            is_write = cls in ('write', 'ddl', 'dynsql', 'pragma')
            if s.u >= 1:
                rule = 'A1' if is_write else 'A1r'
                desc = st.text()[:120] if st is not None else 'dynamic statement'
                self.an._report(rule, '%s statement executed after a completed write unit%s' % (
                    'write' if is_write else 'read',
                    ' (inside a later transaction)' if s.t is not None else ''),
                    loc, s.first, stmt=desc, func=self.func.qualname, chain=[self.func.qualname],
                    anc=s.anc)
            if is_write:
                if s.t is not None:
                    out.add(s.with_(tw=True))
                else:
                    out.add(s.with_(u=min(2, s.u + 1), first=s.first or loc,
                                    anc=s.anc or self.func.qualname))
            else:
                out.add(s)
        # sink lambda runs per row
        if site.sink is not None:
            out = self.expr_all(strip(site.sink), out)
        return out
