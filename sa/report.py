"""Check bookkeeping: rules, instances, violations, known findings, evidence,
exit codes (0 pass, 1 violation, 2 analysis broken)."""
import hashlib
import json
import os
import sys
import time

from .frontend import AnalysisBroken, VERIF, REPO

EVIDENCE_DIR = os.environ.get('VERIF_EVIDENCE_DIR') or os.path.join(VERIF, 'evidence')
REPORT_DIR = os.environ.get('VERIF_REPORT_DIR') or os.path.join(VERIF, 'reports')
KNOWN = os.path.join(VERIF, 'known_findings.json')


def load_known():
    try:
        with open(KNOWN) as f:
            d = json.load(f)
    except FileNotFoundError:
        return {}
    out = {}
    for e in d.get('known', []):
        out[(e['property'], e['key'])] = e
    return out


class Check:
    def __init__(self, prop, tier='quick', title=''):
        self.prop = prop
        self.tier = tier
        self.title = title
        self.t0 = time.time()
        self.seed = int(os.environ.get('VERIF_SEED', '0') or 0)
        self.rules = {}          # rule id -> dict(text, instances, nontrivial, floor, samples)
        self.violations = []     # dicts
        self.known_hits = []
        self.broken = []
        self.assumptions = []
        self.notes = []
        self.extra = {}
        self.known = load_known()
        self.units = None
        self.functions_analysed = set()
        self._sites = set()

    # ---- declaring ------------------------------------------------------
    def rule(self, rid, text, floor=0):
        self.rules[rid] = {'text': text, 'instances': 0, 'ok': 0, 'floor': floor,
                           'samples': [], 'sites': set()}
        return rid

    def assume(self, text):
        if text not in self.assumptions:
            self.assumptions.append(text)

    def note(self, text):
        self.notes.append(text)

    def analysed(self, func):
        self.functions_analysed.add(func if isinstance(func, str) else func.key)

    # ---- recording ------------------------------------------------------
    def ok(self, rid, instance, loc=None, detail=None, site=None):
        r = self.rules[rid]
        r['instances'] += 1
        r['ok'] += 1
        s = site or ('%s|%s' % (instance, loc))
        r['sites'].add(s)
        self._sites.add((rid, s))
        if len(r['samples']) < 40:
            d = {'instance': instance}
            if loc:
                d['at'] = loc
            if detail is not None:
                d['detail'] = detail
            r['samples'].append(d)

    def violation(self, rid, key, loc, message, facts=None, instance=None):
        """key: stable discriminator (never a line number):
        '<rule>|<qualified function or object>|<discriminator>'."""
        r = self.rules[rid]
        r['instances'] += 1
        s = '%s|%s' % (instance or key, loc)
        r['sites'].add(s)
        self._sites.add((rid, s))
        full_key = '%s|%s' % (rid, key)
        v = {'property': self.prop, 'rule': rid, 'rule_text': r['text'], 'key': full_key,
             'at': loc, 'message': message, 'facts': facts or {}}
        if any(x['key'] == full_key for x in self.violations) or \
                any(x['key'] == full_key for x in self.known_hits):
            return
        kn = self.known.get((self.prop, full_key))
        if kn is not None:
            v['known'] = kn.get('what', '')
            self.known_hits.append(v)
        else:
            self.violations.append(v)

    def unknown(self, rid, where, why):
        """An obligation the analysis could not decide (construct outside the
        modelled subset): analysis broken, never pass, never violation."""
        self.broken.append('%s: %s: %s' % (rid, where, why))

    def fail_broken(self, msg):
        self.broken.append(msg)

    # ---- finishing ------------------------------------------------------
    def finish(self, explanation, exhaustive=False, extra_cov=None):
        for rid, r in self.rules.items():
            if r['instances'] < r['floor']:
                self.broken.append(
                    'rule %s matched %d instance(s), floor is %d: the rule has lost '
                    'its anchors' % (rid, r['instances'], r['floor']))
        wall = round(time.time() - self.t0, 2)
        os.makedirs(EVIDENCE_DIR, exist_ok=True)
        os.makedirs(os.path.join(REPORT_DIR, self.prop), exist_ok=True)
        # stale reports of earlier runs
        rd = os.path.join(REPORT_DIR, self.prop)
        for fn in os.listdir(rd):
            try:
                os.unlink(os.path.join(rd, fn))
            except OSError:
                pass
        evaluations = sum(r['instances'] for r in self.rules.values())
        distinct = len(self._sites)
        samples = []
        rot = self.seed
        for rid, r in self.rules.items():
            ss = r['samples']
            if ss:
                k = rot % len(ss)
                for s in (ss[k:] + ss[:k])[:4]:
                    d = dict(s)
                    d['rule'] = rid
                    samples.append(d)
        cov = {
            'explanation': explanation,
            'evaluations': evaluations,
            'distinct_nontrivial': distinct,
            'rule': 'one evaluation = one rule instance (a call site, statement site, '
                    'function path, declaration or table cell) enumerated from the '
                    'current tree; distinct = distinct (rule, program site) pairs; '
                    'instances whose obligation is vacuous are not recorded',
            'samples': samples or [{'note': 'no instance recorded'}],
            'exhaustive': bool(exhaustive),
            'rules': {rid: {'text': r['text'], 'instances': r['instances'],
                            'holding': r['ok'], 'floor': r['floor']}
                      for rid, r in self.rules.items()},
            'functions_analysed': len(self.functions_analysed),
            'translation_units': self.units,
            'known_findings_reproduced': [v['key'] for v in self.known_hits],
            'notes': self.notes,
            'analysis_broken': self.broken,
        }
        if extra_cov:
            cov.update(extra_cov)
        cov.update(self.extra)
        ev = {
            'property_id': self.prop,
            'tier': self.tier,
            'seed': self.seed,
            'level': 'other',
            'coverage': cov,
            'assumptions': self.assumptions,
            'wall_s': wall,
            'violations': len(self.violations),
        }
        with open(os.path.join(EVIDENCE_DIR, self.prop + '.json'), 'w') as f:
            json.dump(ev, f, indent=1, sort_keys=False, default=str)
        print('%s %s: %d rule(s), %d instance(s), %d site(s), %.1fs' % (
            self.prop, self.tier, len(self.rules), evaluations, distinct, wall))
        for rid, r in self.rules.items():
            print('  %-4s %4d/%-4d hold  (floor %d)  %s' % (
                rid, r['ok'], r['instances'], r['floor'], r['text'][:90]))
        for v in self.known_hits:
            print('KNOWN-FINDING: property=%s %s at %s: %s' % (
                self.prop, v['key'], v['at'], v['message']))
        if self.broken:
            for b in self.broken:
                print('ANALYSIS-BROKEN property=%s %s' % (self.prop, b))
            if not self.violations:
                return 2
            # a violation found by a rule that was evaluated stands on its own, whatever another rule could not decide
        for v in self.violations:
            h = hashlib.sha1(v['key'].encode()).hexdigest()[:12]
            path = os.path.join(REPORT_DIR, self.prop, h + '.json')
            with open(path, 'w') as f:
                json.dump(v, f, indent=1, default=str)
            print('  violation: %s at %s: %s' % (v['key'], v['at'], v['message']))
            print('VIOLATION property=%s replay=%s' % (self.prop, path))
        return 1 if self.violations else 0


def run_check(prop, fn, tier):
    """Run a check function with uniform handling of analysis failures."""
    try:
        return fn(tier)
    except AnalysisBroken as e:
        print('ANALYSIS-BROKEN property=%s %s' % (prop, e))
        _write_broken_evidence(prop, tier, str(e))
        return 2
    except Exception as e:          # a crash of the machinery is never a verdict
        import traceback
        traceback.print_exc()
        print('ANALYSIS-BROKEN property=%s internal error: %s: %s' % (prop, type(e).__name__, e))
        _write_broken_evidence(prop, tier, 'internal error: %s: %s' % (type(e).__name__, e))
        return 2


def _write_broken_evidence(prop, tier, msg):
    os.makedirs(EVIDENCE_DIR, exist_ok=True)
    ev = {'property_id': prop, 'tier': tier, 'seed': int(os.environ.get('VERIF_SEED', '0') or 0),
          'level': 'other',
          'coverage': {'explanation': 'analysis broken before any rule was evaluated: ' + msg,
                       'evaluations': 0, 'distinct_nontrivial': 0,
                       'analysis_broken': [msg]},
          'assumptions': [], 'wall_s': 0.0, 'violations': 0}
    with open(os.path.join(EVIDENCE_DIR, prop + '.json'), 'w') as f:
        json.dump(ev, f, indent=1)
