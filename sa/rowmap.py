"""Statement shape and column <-> C++ source maps for statement sites.

For a site `db << "SQL" << b1 << b2 ... [>> sink]`:
  * parsed statement (holes optionally substituted)
  * per '?' the column it is assigned to / compared with (from the SQL reader)
  * per bind a *source descriptor*: the unique access path rooted at a parameter, a
    local or `this` that the bound expression is computed from, with the wrapper calls
    applied on the way (to_timestamp, to_blob, encode, static_cast ...)
  * for SELECT: per output column the sink target: lambda parameter -> the record field
    it initialises (aggregate initialisation order is resolved through the record's
    field list), or the std::tie element / scalar variable.
"""
from . import sql, effects
from .frontend import AnalysisBroken
from .program import children, strip, walk, locstr, literal_value, norm_type_name


class Src:
    """root: ('param'|'local'|'this'|'const'|'call'|'expr', name); path: 'a.b'; via: [wrapper names]"""
    __slots__ = ('root', 'path', 'via', 'node', 'const')

    def __init__(self, root, path, via, node, const=None):
        self.root = root
        self.path = path
        self.via = via
        self.node = node
        self.const = const

    @property
    def field(self):
        """first component of the path (the row field)"""
        return self.path.split('.')[0] if self.path else None

    def key(self):
        return '%s:%s' % (self.root[1] if self.root else '?', self.path)

    def __repr__(self):
        v = ('<-' + '<-'.join(self.via)) if self.via else ''
        if self.root and self.root[0] == 'const':
            return 'const(%r)' % (self.const,)
        return '%s.%s%s' % (self.root[1] if self.root else '?', self.path, v) if self.path \
            else '%s%s' % (self.root[1] if self.root else '?', v)


_PROG = [None]
_CUR_TU = [None]


def passthrough_param(tu, call):
    """Index of the argument a call hands back unchanged: the callee is a repository function
    whose whole body is `return <casts>(parameter);` (a named conversion such as
    `int64_t type_code(E e) { return static_cast<int64_t>(e); }`).  None otherwise."""
    prog = _PROG[0]
    if prog is None or tu is None or call.get('kind') != 'CallExpr':
        return None
    try:
        d, qn, virt, recv = prog.resolve_callee(tu, call)
    except Exception:
        return None
    if d is None or virt:
        return None
    defs = [f for f in prog.definitions_for(tu, d, qn) if f.body is not None and not f.is_pattern]
    if len(defs) != 1 or not prog.in_repo(defs[0].file):
        return None
    f = defs[0]
    st = [x for x in children(f.body)]
    if len(st) != 1 or st[0].get('kind') != 'ReturnStmt' or not children(st[0]):
        return None
    e = strip(children(st[0])[0])
    while e.get('kind') in ('CXXStaticCastExpr', 'CStyleCastExpr', 'CXXFunctionalCastExpr', 'ParenExpr',
                            'ExprWithCleanups', 'MaterializeTemporaryExpr', 'CXXBindTemporaryExpr') \
            and len(children(e)) == 1:
        e = strip(children(e)[0])
    if e.get('kind') != 'DeclRefExpr':
        return None
    rid = (e.get('referencedDecl') or {}).get('id')
    for i, prm in enumerate(f.params):
        if prm.get('id') == rid:
            return i
    return None


def describe(node):
    """Source descriptor of an expression (see module doc)."""
    via = []
    n = node
    while True:
        n = strip(n)
        k = n.get('kind')
        if k in ('CXXStaticCastExpr', 'CStyleCastExpr', 'CXXFunctionalCastExpr', 'CXXReinterpretCastExpr'):
            c = children(n)
            if len(c) == 1:
                via.append('cast<%s>' % (n.get('type') or ''))
                n = c[0]
                continue
        if k in ('CXXConstructExpr', 'CXXTemporaryObjectExpr', 'InitListExpr'):
            c = [x for x in children(n) if x.get('kind') != 'CXXDefaultArgExpr']
            if len(c) == 1:
                n = c[0]
                continue
            if len(c) == 0:
                return Src(('const', 'default'), '', via, node, const='default %s' % (n.get('type') or ''))
        break
    v = literal_value(n)
    if v is not None:
        return Src(('const', repr(v)), '', via, node, const=v)
    k = n.get('kind')
    if k == 'DeclRefExpr':
        ref = n.get('referencedDecl') or {}
        if ref.get('kind') == 'EnumConstantDecl':
            return Src(('const', ref.get('name')), '', via, node, const=ref.get('name'))
        kind = 'param' if ref.get('kind') == 'ParmVarDecl' else 'local'
        return Src((kind, ref.get('name'), ref.get('id')), '', via, node)
    if k == 'CXXThisExpr':
        return Src(('this', 'this'), '', via, node)
    if k == 'MemberExpr':
        c = children(n)
        if not c:
            return Src(('this', 'this'), n.get('name'), via, node)
        b = describe(c[0])
        if b.root and b.root[0] != 'expr':
            p = (b.path + '.' if b.path else '') + n.get('name')
            return Src(b.root, p, b.via + via, node)
        return Src(('expr', 'member'), n.get('name'), via, node)
    if k in ('CallExpr', 'CXXMemberCallExpr', 'CXXOperatorCallExpr'):
        c = children(n)
        callee = strip(c[0]) if c else {}
        if k == 'CXXMemberCallExpr' and callee.get('kind') == 'MemberExpr':
            nm = callee.get('name')
            obj = children(callee)[0] if children(callee) else None
            if obj is not None:
                b = describe(obj)
                if nm and nm.startswith('operator'):
                    return Src(b.root, b.path, b.via + via, node)
                if strip(obj).get('kind') == 'CXXThisExpr' or (b.root and b.root[0] == 'this' and not b.path):
                    return Src(('call', nm + '()'), '', via, node)
                return Src(b.root, b.path, b.via + [nm] + via, node)
        nm = (callee.get('referencedDecl') or {}).get('name') or callee.get('name') or '?'
        args = c[1:]
        if k == 'CXXOperatorCallExpr':
            if nm in ('operator*', 'operator->') and args:
                b = describe(args[0])
                return Src(b.root, b.path, b.via + via, node)
            if nm == 'operator()' and args:
                return Src(('call', 'functor()'), '', via, node)
        real = [a for a in args if a.get('kind') != 'CXXDefaultArgExpr']
        if k == 'CallExpr':
            # a named conversion that returns its argument (cast): the argument itself, constants included
            pi = passthrough_param(_CUR_TU[0], n)
            if pi is not None and pi < len(args):
                b = describe(args[pi])
                return Src(b.root, b.path, b.via + [nm] + via, node, const=b.const)
        if len(real) == 1:
            b = describe(real[0])
            return Src(b.root, b.path, b.via + [nm] + via, node)
        if len(real) == 0:
            return Src(('call', nm + '()'), '', via, node)
        # several arguments: descriptor of the first argument that is rooted at a variable
        cands = [describe(a) for a in real]
        rooted = [x for x in cands if x.root and x.root[0] in ('param', 'local', 'this')]
        if len(rooted) == 1:
            b = rooted[0]
            return Src(b.root, b.path, b.via + [nm] + via, node)
        return Src(('expr', nm), '', via, node)
    if k == 'ConditionalOperator':
        c = children(n)
        a, b = describe(c[1]), describe(c[2])
        pick = a if a.root and a.root[0] in ('param', 'local', 'this') else b
        return Src(pick.root, pick.path, pick.via + ['?:'] + via, node)
    if k == 'BinaryOperator':
        c = children(n)
        cands = [describe(x) for x in c]
        rooted = [x for x in cands if x.root and x.root[0] in ('param', 'local', 'this')]
        if len(rooted) == 1:
            return Src(rooted[0].root, rooted[0].path, rooted[0].via + [n.get('opcode')] + via, node)
        return Src(('expr', n.get('opcode')), '', via, node)
    if k == 'UnaryOperator':
        b = describe(children(n)[0])
        return Src(b.root, b.path, b.via + via, node)
    return Src(('expr', k), '', via, node)


class SiteMap:
    """Everything the rules need about one statement site."""

    def __init__(self, site, stmt, text):
        self.site = site
        self.stmt = stmt
        self.text = text
        self.loc = locstr(site.node)
        self.func = site.func
        self.binds = [describe_bind(site, i) for i in range(len(site.binds))]
        self.problems = []
        self.col_src = []        # [(column, Src, role)] for '?' in order
        self.out = []            # [(column expr text, column name or None, target)] for SELECT
        self._shape()

    def _shape(self):
        st = self.stmt
        nq = len(st.params)
        if nq != len(self.binds):
            self.problems.append('%d placeholder(s) but %d bound value(s) (missing binds stay NULL, '
                                 'surplus binds throw at run time)' % (nq, len(self.binds)))
        if st.kind == 'insert' and st.rows:
            for r in st.rows:
                if st.columns and len(r) != len(st.columns):
                    self.problems.append('INSERT lists %d column(s) but a VALUES tuple has %d' % (
                        len(st.columns), len(r)))
        for i, p in enumerate(st.params):
            src = self.binds[i] if i < len(self.binds) else None
            self.col_src.append((p.column, src, p.role, p))
        if st.kind == 'select' and self.site.sink is not None and st.select is not None:
            self._sink()

    def _sink(self):
        st = self.stmt
        items = st.select.items
        sink = strip(self.site.sink)
        targets = None
        while sink.get('kind') in ('MaterializeTemporaryExpr', 'CXXBindTemporaryExpr', 'ExprWithCleanups',
                                   'CXXFunctionalCastExpr', 'CXXConstructExpr') and len(children(sink)) == 1:
            sink = strip(children(sink)[0])
        if sink.get('kind') == 'LambdaExpr':
            targets = lambda_targets(sink, self.func)
            self.sink_kind = 'lambda'
        elif sink.get('kind') == 'CallExpr' and (strip(children(sink)[0]).get('referencedDecl') or {}).get('name') == 'tie':
            targets = [('var', describe(a)) for a in children(sink)[1:]]
            self.sink_kind = 'tie'
        else:
            targets = [('var', describe(sink))]
            self.sink_kind = 'scalar'
        if targets is None:
            self.problems.append('sink of the SELECT is outside the modelled subset')
            return
        if len(targets) != len(items):
            self.problems.append('SELECT yields %d column(s) but the sink takes %d value(s)' % (
                len(items), len(targets)))
        for i, (e, alias) in enumerate(items):
            cr = e.column_ref()
            tgt = targets[i] if i < len(targets) else None
            self.out.append((e.text(), cr[1] if cr else None, tgt))


def lambda_targets(lam, func):
    """[(kind, info)] per lambda parameter: ('field', record, field name, via) when the parameter
    initialises a field of an aggregate built in the body, ('assign', Src) when it is assigned to a
    variable / member, ('param', name) otherwise."""
    params = []
    body = None
    for c in children(lam):
        if c.get('kind') == 'CXXRecordDecl':
            for m in children(c):
                if m.get('kind') == 'CXXMethodDecl' and m.get('name') == 'operator()':
                    params = [p for p in children(m) if p.get('kind') == 'ParmVarDecl']
        elif c.get('kind') == 'CompoundStmt':
            body = c
    out = [('param', p.get('name')) for p in params]
    if body is None:
        return out
    pid = {p['id']: i for i, p in enumerate(params)}
    tu = func.tu
    for n in walk(body):
        k = n.get('kind')
        if k in ('InitListExpr', 'CXXConstructExpr', 'CXXTemporaryObjectExpr'):
            t = norm_type_name(n.get('type') or '')
            rec = _record_by_type(func, t)
            if rec is None:
                continue
            args = children(n)
            fields = [f.get('name') for f in rec.fields]
            if k == 'InitListExpr' and len(args) <= len(fields):
                for j, a in enumerate(args):
                    for x in walk(a):
                        if x.get('kind') == 'DeclRefExpr' and (x.get('referencedDecl') or {}).get('id') in pid:
                            i = pid[x['referencedDecl']['id']]
                            d = describe(a)
                            if out[i][0] == 'param':
                                out[i] = ('field', rec.qualname, fields[j], d.via)
        elif k in ('BinaryOperator', 'CXXOperatorCallExpr'):
            c = children(n)
            if k == 'BinaryOperator' and n.get('opcode') == '=':
                lhs, rhs = c[0], c[1]
            elif k == 'CXXOperatorCallExpr' and (strip(c[0]).get('referencedDecl') or {}).get('name') == 'operator=':
                lhs, rhs = c[1], c[2]
            else:
                continue
            r = strip(rhs, explicit=True)
            ids = [(x.get('referencedDecl') or {}).get('id') for x in walk(rhs) if x.get('kind') == 'DeclRefExpr']
            hit = [i for i in ids if i in pid]
            if len(hit) == 1 and not any(x.get('kind') == 'InitListExpr' for x in walk(rhs)):
                i = pid[hit[0]]
                if out[i][0] == 'param':
                    l = describe(lhs)
                    out[i] = ('assign', l, describe(rhs).via)
    return out


_REC_CACHE = {}


def _record_by_type(func, t):
    from . import program as P
    prog = P.load(func.tu and None) if False else None
    return _REC_LOOKUP(t)


def _REC_LOOKUP(t):
    return None


def install_program(prog):
    """Bind record lookup to a loaded Program."""
    from . import callgraph
    cg = callgraph.get(prog)

    def look(t):
        q = cg.record_of_type(t)
        return prog.records.get(q) if q else None
    global _REC_LOOKUP
    _REC_LOOKUP = look
    _PROG[0] = prog


def hole_values(prog, cg, func):
    """For a helper whose SQL text has a hole fed by a parameter (get_column(db, id,
    "title")): {param name: [(literal, call node, caller Function)]} over all call sites."""
    out = {}
    pnames = {p.get('name'): i for i, p in enumerate(func.params)}
    for f in prog.functions.values():
        if f.is_pattern or f.body is None:
            continue
        for e in cg.edges(f):
            if func not in e.targets:
                continue
            c = children(e.node)
            args = c[1:] if e.node.get('kind') != 'CXXMemberCallExpr' else c[1:]
            for name, i in pnames.items():
                if i < len(args):
                    v = literal_value(args[i])
                    if isinstance(v, str):
                        out.setdefault(name, []).append((v, e.node, f))
    return out


def site_maps(prog, cg, eff, func, subst=None):
    """SiteMaps of a function; holes replaced by `subst` {hole desc: text} when given."""
    out = []
    for s in eff.sites(func):
        if len(s.sql_parts) == 1 and not isinstance(s.sql_parts[0], str):
            continue
        s = complete_site(prog, cg, func, s)
        text = ''.join(p if isinstance(p, str) else ((subst or {}).get(p.desc) or const_text(prog, s.tu, p.node)
                                                     or (effects.HOLE + str(p.desc)))
                       for p in s.sql_parts)
        try:
            st = sql.parse(text)
        except sql.SqlError as e:
            raise AnalysisBroken('cannot read SQL at %s: %s' % (locstr(s.node), e))
        out.append(SiteMap(s, st, text))
    return out


# ---- schema range guards ------------------------------------------------------------------
def schema_guard(func, node, enum_order):
    """Interval [lo, hi] (indices into enum_order) of schema enumerators for which `node`
    executes, from enclosing `if (schema >= E) ... else ...` chains; also early
    `if (schema < E) throw` statements that precede it."""
    lo, hi = 0, len(enum_order) - 1
    path = []

    def find(n, acc):
        if n is node:
            path.extend(acc)
            return True
        for c in children(n):
            if find(c, acc + [n]):
                return True
        return False
    find(func.node, [])
    chain = path + [node]
    for i, anc in enumerate(path):
        child = chain[i + 1]
        if anc.get('kind') == 'IfStmt':
            c = children(anc)
            cond = c[0]
            r = _schema_cmp(cond, enum_order, func)
            if r is None:
                continue
            op, idx = r
            in_then = child is c[1]
            in_else = anc.get('hasElse') and child is c[-1] and len(c) >= 3
            lo, hi = _apply(op, idx, in_then, in_else, lo, hi)
        elif anc.get('kind') == 'CompoundStmt':
            for sib in children(anc):
                if sib is child:
                    break
                if sib.get('kind') == 'IfStmt':
                    c = children(sib)
                    r = _schema_cmp(c[0], enum_order, func)
                    if r is None:
                        continue
                    then = c[1]
                    leaves = any(x.get('kind') in ('CXXThrowExpr', 'ReturnStmt') for x in walk(then))
                    if leaves and not sib.get('hasElse'):
                        op, idx = r
                        lo, hi = _apply(op, idx, False, True, lo, hi)
    return lo, hi


def _apply(op, idx, in_then, in_else, lo, hi):
    if op == '>=':
        if in_then:
            lo = max(lo, idx)
        elif in_else:
            hi = min(hi, idx - 1)
    elif op == '<':
        if in_then:
            hi = min(hi, idx - 1)
        elif in_else:
            lo = max(lo, idx)
    elif op == '>':
        if in_then:
            lo = max(lo, idx + 1)
        elif in_else:
            hi = min(hi, idx)
    elif op == '<=':
        if in_then:
            hi = min(hi, idx)
        elif in_else:
            lo = max(lo, idx + 1)
    return lo, hi


_NEG = {'>=': '<', '<': '>=', '>': '<=', '<=': '>'}
_BOOL_LOCALS = {}


def _bool_locals(func):
    """bool locals of func that are initialised once and never assigned: id -> initialiser."""
    key = id(func.node)
    if key not in _BOOL_LOCALS:
        inits, assigned = {}, set()
        for x in walk(func.node):
            k = x.get('kind')
            if k == 'VarDecl' and (x.get('type') or '').replace('const', '').strip() == 'bool':
                c = [y for y in children(x) if not y['kind'].endswith('Attr')]
                if c:
                    inits[x.get('id')] = c[-1]
            elif k in ('BinaryOperator', 'CompoundAssignOperator') and (x.get('opcode') or '').endswith('=') \
                    and x.get('opcode') not in ('==', '!=', '<=', '>='):
                l = strip(children(x)[0])
                if l.get('kind') == 'DeclRefExpr':
                    assigned.add((l.get('referencedDecl') or {}).get('id'))
        _BOOL_LOCALS[key] = {k: v for k, v in inits.items() if k not in assigned}
    return _BOOL_LOCALS[key]


def _schema_cmp(cond, enum_order, func=None, depth=0):
    n = strip(cond, explicit=True)
    if n.get('kind') == 'UnaryOperator' and n.get('opcode') == '!':
        r = _schema_cmp(children(n)[0], enum_order, func, depth)
        return None if r is None else (_NEG[r[0]], r[1])
    if n.get('kind') == 'DeclRefExpr' and func is not None and depth < 4:
        init = _bool_locals(func).get((n.get('referencedDecl') or {}).get('id'))
        if init is not None:
            return _schema_cmp(init, enum_order, func, depth + 1)
        return None
    if n.get('kind') in ('CallExpr', 'CXXMemberCallExpr') and func is not None and depth < 4 and _PROG[0] is not None:
        # a named predicate of the repository: `bool has_x_column(const engine_schema& s) { return s >= E; }`
        prog = _PROG[0]
        d, qn, virt, recv = prog.resolve_callee(func.tu, n)
        defs = [f for f in prog.definitions_for(func.tu, d, qn)] if d is not None and not virt else []
        defs = [f for f in defs if f.body is not None and not f.is_pattern and prog.in_repo(f.file)]
        if len(defs) != 1 or 'bool' not in (defs[0].ret or ''):
            return None
        st = children(defs[0].body)
        if len(st) != 1 or st[0].get('kind') != 'ReturnStmt' or not children(st[0]):
            return None
        args = children(n)[1:]
        if n.get('kind') == 'CallExpr' and not any('engine_schema' in (strip(a).get('type') or '') for a in args):
            return None
        return _schema_cmp(children(st[0])[0], enum_order, defs[0], depth + 1)
    if n.get('kind') not in ('BinaryOperator', 'CXXOperatorCallExpr'):
        return None
    c = children(n)
    if n.get('kind') == 'CXXOperatorCallExpr':
        op = ((strip(c[0]).get('referencedDecl') or {}).get('name') or '').replace('operator', '')
        a, b = c[1], c[2]
    else:
        op = n.get('opcode')
        a, b = c[0], c[1]
    if op not in ('>=', '<', '>', '<='):
        return None
    lhs = describe(a)
    rhs = strip(b, explicit=True)
    en = None
    for x in walk(b):
        if x.get('kind') == 'DeclRefExpr' and (x.get('referencedDecl') or {}).get('kind') == 'EnumConstantDecl':
            en = x['referencedDecl']['name']
    if en is None or en not in enum_order or not ('schema' in (lhs.path or lhs.root[1] or '')
                                                  or 'engine_schema' in (strip(a).get('type') or '')):
        return None
    return op, enum_order.index(en)


# ---- finite evaluation of SQL text pieces ---------------------------------------------------
class _NotConst(Exception):
    pass


_TRANSPARENT = ('ImplicitCastExpr', 'ParenExpr', 'MaterializeTemporaryExpr', 'CXXBindTemporaryExpr',
                'ExprWithCleanups', 'CXXStaticCastExpr', 'CStyleCastExpr', 'CXXFunctionalCastExpr',
                'ConstantExpr', 'FullExpr')


class _ConstEval:
    """Concrete evaluation of an expression / function whose inputs are all constants (integers,
    booleans, strings): a `std::string make_placeholders(int n)` that builds "?, ?, ?" in a counted
    loop yields its text.  Anything outside the small subset (or too many steps) is _NotConst -
    the piece then stays a hole and the statement is judged as one with unknown text."""

    def __init__(self, prog, fuel=20000):
        self.prog = prog
        self.fuel = fuel

    def tick(self):
        self.fuel -= 1
        if self.fuel < 0:
            raise _NotConst('fuel')

    def ev(self, n, env, tu):
        self.tick()
        if not isinstance(n, dict) or not n.get('kind'):
            raise _NotConst('empty')
        k = n.get('kind')
        c = children(n)
        if k in _TRANSPARENT and len(c) == 1:
            return self.ev(c[0], env, tu)
        if k == 'IntegerLiteral':
            return int(n['value'])
        if k == 'CXXBoolLiteralExpr':
            return bool(n.get('value'))
        if k == 'StringLiteral':
            from .program import decode_string_literal
            return decode_string_literal(n.get('value'))
        if k in ('CXXConstructExpr', 'CXXTemporaryObjectExpr'):
            real = [x for x in c if x.get('kind') != 'CXXDefaultArgExpr']
            t = n.get('type') or ''
            if not real and ('string' in t):
                return ''
            if len(real) == 1:
                return self.ev(real[0], env, tu)
            raise _NotConst(k)
        if k == 'DeclRefExpr':
            ref = n.get('referencedDecl') or {}
            rid = ref.get('id')
            if rid in env:
                return env[rid]
            d = tu.ids.get(rid) if tu is not None else None
            if d is not None and d.get('kind') == 'VarDecl':
                t = (d.get('type') or '')
                init = [x for x in children(d) if not x['kind'].endswith('Attr')]
                if init and (d.get('constexpr') or t.startswith('const ') or t.rstrip().endswith('const')):
                    return self.ev(init[-1], {}, tu)
            raise _NotConst('ref %s' % ref.get('name'))
        if k == 'ConditionalOperator' and len(c) == 3:
            return self.ev(c[1] if self.ev(c[0], env, tu) else c[2], env, tu)
        if k == 'BinaryOperator' and len(c) == 2:
            op = n.get('opcode')
            if op == '=':
                return self.store(c[0], self.ev(c[1], env, tu), env)
            if op == '&&':
                return bool(self.ev(c[0], env, tu)) and bool(self.ev(c[1], env, tu))
            if op == '||':
                return bool(self.ev(c[0], env, tu)) or bool(self.ev(c[1], env, tu))
            a, b = self.ev(c[0], env, tu), self.ev(c[1], env, tu)
            return self.binop(op, a, b)
        if k == 'CompoundAssignOperator' and len(c) == 2:
            op = (n.get('opcode') or '')[:-1]
            return self.store(c[0], self.binop(op, self.ev(c[0], env, tu), self.ev(c[1], env, tu)), env)
        if k == 'UnaryOperator' and len(c) == 1:
            op = n.get('opcode')
            if op in ('++', '--'):
                old = self.ev(c[0], env, tu)
                if not isinstance(old, int):
                    raise _NotConst(op)
                new = old + (1 if op == '++' else -1)
                self.store(c[0], new, env)
                return old if n.get('isPostfix') else new
            v = self.ev(c[0], env, tu)
            if op == '!':
                return not v
            if op == '-' and isinstance(v, int):
                return -v
            if op == '+':
                return v
            raise _NotConst(op)
        if k == 'CXXOperatorCallExpr' and len(c) == 3:
            nm = (strip(c[0]).get('referencedDecl') or {}).get('name')
            if nm == 'operator+':
                a, b = self.ev(c[1], env, tu), self.ev(c[2], env, tu)
                if isinstance(a, str) and isinstance(b, str):
                    return a + b
            if nm == 'operator+=':
                a, b = self.ev(c[1], env, tu), self.ev(c[2], env, tu)
                if isinstance(a, str) and isinstance(b, str):
                    return self.store(c[1], a + b, env)
            if nm == 'operator=':
                return self.store(c[1], self.ev(c[2], env, tu), env)
            raise _NotConst(nm)
        if k == 'CallExpr' and c:
            d, qn, virt, recv = self.prog.resolve_callee(tu, n)
            defs = [f for f in self.prog.definitions_for(tu, d, qn)] if d is not None and not virt else []
            defs = [f for f in defs if f.body is not None and not f.is_pattern and self.prog.in_repo(f.file)]
            if len(defs) != 1:
                raise _NotConst('call')
            f = defs[0]
            args = c[1:]
            if len(args) != len(f.params):
                raise _NotConst('arity')
            fenv = {p['id']: self.ev(a, env, tu) for p, a in zip(f.params, args)}
            return self.run(f, fenv)
        raise _NotConst(k)

    def binop(self, op, a, b):
        ints = isinstance(a, int) and isinstance(b, int)
        if op == '+' and (ints or (isinstance(a, str) and isinstance(b, str))):
            return a + b
        if ints:
            if op == '-':
                return a - b
            if op == '*':
                return a * b
            if op in ('/', '%') and b != 0 and a >= 0 and b > 0:
                return a // b if op == '/' else a % b
            if op == '<':
                return a < b
            if op == '<=':
                return a <= b
            if op == '>':
                return a > b
            if op == '>=':
                return a >= b
        if op == '==' and type(a) == type(b):
            return a == b
        if op == '!=' and type(a) == type(b):
            return a != b
        raise _NotConst(op)

    def store(self, lhs, v, env):
        l = strip(lhs, explicit=True)
        if l.get('kind') != 'DeclRefExpr':
            raise _NotConst('store')
        rid = (l.get('referencedDecl') or {}).get('id')
        if rid not in env:
            raise _NotConst('store to non-local')
        env[rid] = v
        return v

    class _Ret(Exception):
        def __init__(self, v):
            self.v = v

    def run(self, f, env):
        try:
            self.stmt(f.body, env, f.tu)
        except _ConstEval._Ret as r:
            return r.v
        raise _NotConst('no return')

    def stmt(self, n, env, tu):
        self.tick()
        if not isinstance(n, dict) or not n.get('kind'):
            return
        k = n.get('kind')
        if k == 'CompoundStmt':
            for s in children(n):
                self.stmt(s, env, tu)
            return
        if k == 'NullStmt':
            return
        if k == 'DeclStmt':
            for d in children(n):
                if d.get('kind') != 'VarDecl':
                    raise _NotConst('decl')
                init = [x for x in children(d) if not x['kind'].endswith('Attr')]
                if init:
                    env[d['id']] = self.ev(init[-1], env, tu)
                elif 'int' in (d.get('type') or '') or 'size_t' in (d.get('type') or ''):
                    raise _NotConst('uninitialised')
                else:
                    raise _NotConst('decl without initialiser')
            return
        if k == 'ReturnStmt':
            c = children(n)
            if not c:
                raise _NotConst('void return')
            raise _ConstEval._Ret(self.ev(c[0], env, tu))
        if k == 'IfStmt':
            inner = [x for x in n.get('inner', ())]
            real = [x for x in inner if isinstance(x, dict) and x.get('kind')]
            if len(real) not in (2, 3) or n.get('hasInit') or n.get('hasVar'):
                raise _NotConst('if')
            if self.ev(real[0], env, tu):
                self.stmt(real[1], env, tu)
            elif len(real) == 3:
                self.stmt(real[2], env, tu)
            return
        if k == 'ForStmt':
            inner = list(n.get('inner', ()))
            if len(inner) != 5:
                raise _NotConst('for')
            init, condvar, cond, inc, body = inner
            if isinstance(condvar, dict) and condvar.get('kind'):
                raise _NotConst('for condvar')
            if isinstance(init, dict) and init.get('kind'):
                if init.get('kind') == 'DeclStmt':
                    self.stmt(init, env, tu)
                else:
                    self.ev(init, env, tu)
            while True:
                self.tick()
                if isinstance(cond, dict) and cond.get('kind') and not self.ev(cond, env, tu):
                    break
                self.stmt(body, env, tu)
                if isinstance(inc, dict) and inc.get('kind'):
                    self.ev(inc, env, tu)
            return
        if k == 'WhileStmt':
            real = [x for x in n.get('inner', ()) if isinstance(x, dict) and x.get('kind')]
            if len(real) != 2:
                raise _NotConst('while')
            while self.ev(real[0], env, tu):
                self.stmt(real[1], env, tu)
            return
        if k in ('BreakStmt', 'ContinueStmt', 'SwitchStmt', 'DoStmt', 'CXXForRangeStmt', 'CXXTryStmt', 'CXXThrowExpr'):
            raise _NotConst(k)
        self.ev(n, env, tu)


def const_text(prog, tu, node):
    """The string an expression evaluates to when it is built from constants only (through
    repository functions, counted loops, concatenation); None when it is not."""
    if prog is None or tu is None:
        return None
    try:
        v = _ConstEval(prog).ev(node, {}, tu)
    except _NotConst:
        return None
    except (KeyError, TypeError, RecursionError):
        return None
    return v if isinstance(v, str) else None


# ---- statement whose binder travels through a repository helper -------------------------------
class FullSite:
    """A statement site seen whole.  sites.find_sites reads `db << sql << b1 ...` in one expression;
    when that binder is handed to a repository helper which binds further values to it and hands
    it back (`database_binder bind_all(database_binder&& st, const row& r) { return std::move(st)
    << r.a << r.b; }`), possibly followed by more `<< x` / `>> sink` on the result, the statement
    consists of all those binds in order.  bind_ctx[i] is None for a bind written in `func`, or
    (helper Function, {helper parameter id: argument node in func}) for one written in a helper."""
    __slots__ = ('node', 'db', 'sql_parts', 'binds', 'sink', 'func', 'tu', 'loc', 'stored_in',
                 'bind_ctx', 'inner')

    @property
    def text(self):
        return ''.join(p if isinstance(p, str) else '${%s}' % p.desc for p in self.sql_parts)

    @property
    def is_literal(self):
        return all(isinstance(p, str) for p in self.sql_parts)


_UP_WRAPPERS = ('ImplicitCastExpr', 'MaterializeTemporaryExpr', 'CXXBindTemporaryExpr', 'ParenExpr',
                'CXXConstructExpr', 'CXXFunctionalCastExpr')
_PARENTS = {}


def _parents(func):
    pm = _PARENTS.get(func.key)
    if pm is None:
        pm = {}
        stack = [func.node]
        while stack:
            n = stack.pop()
            for ch in children(n):
                pm[id(ch)] = n
                stack.append(ch)
        if len(_PARENTS) > 64:
            _PARENTS.clear()
        _PARENTS[func.key] = pm
    return pm


def _callee_name(call):
    c = children(call)
    return (strip(c[0]).get('referencedDecl') or {}).get('name') if c else None


def _is_binder(t):
    return t is not None and 'database_binder' in t


def helper_binds(helper, pi):
    """Bind expressions a helper appends to the binder it receives as parameter #pi, when its
    only use of that parameter is `return [std::move](param) << b1 << b2 ...;`.  None otherwise."""
    pid = helper.params[pi].get('id')
    uses = [n for n in walk(helper.body) if n.get('kind') == 'DeclRefExpr'
            and (n.get('referencedDecl') or {}).get('id') == pid]
    rets = [n for n in walk(helper.body) if n.get('kind') == 'ReturnStmt']
    if len(uses) != 1 or len(rets) != 1 or not children(rets[0]):
        return None
    binds = []
    n = children(rets[0])[0]
    while True:
        n = strip(n, explicit=False)
        k = n.get('kind')
        c = children(n)
        if k in _UP_WRAPPERS + ('ExprWithCleanups',) and len(c) == 1:
            n = c[0]
            continue
        if k == 'CXXOperatorCallExpr' and len(c) == 3 and _callee_name(n) == 'operator<<' \
                and _is_binder(n.get('type')):
            binds.insert(0, c[2])
            n = c[1]
            continue
        if k == 'CallExpr' and len(c) == 2 and _callee_name(n) in ('move', 'forward'):
            n = c[1]
            continue
        break
    if n is not uses[0]:
        return None
    return binds


def complete_site(prog, cg, func, s):
    """FullSite for a site of `func` whose binder is continued through repository helpers /
    further operators; the site itself when it is complete as written."""
    if isinstance(s, FullSite) or s.sink is not None or prog is None:
        return s
    par = _parents(func)
    cur = s.node
    binds = list(s.binds)
    ctx = [None] * len(binds)
    sink = None
    changed = False
    while True:
        p = par.get(id(cur))
        while p is not None and p.get('kind') in _UP_WRAPPERS and len(children(p)) == 1:
            cur, p = p, par.get(id(p))
        if p is None:
            break
        k = p.get('kind')
        c = children(p)
        if k == 'CallExpr' and cur in c[1:]:
            if len(c) == 2 and _callee_name(p) in ('move', 'forward'):
                cur = p
                continue
            ai = [i for i, a in enumerate(c[1:]) if a is cur][0]
            e = cg.edge_for(func, p)
            tg = [t for t in (e.targets if e is not None else ()) if t.body is not None and not t.is_pattern]
            if len(tg) != 1 or not prog.in_repo(tg[0].file) or ai >= len(tg[0].params):
                break
            t = tg[0]
            if not _is_binder(t.params[ai].get('type')) or not _is_binder(t.ret) or len(t.params) != len(c) - 1:
                break
            hb = helper_binds(t, ai)
            if hb is None:
                break
            subst = {prm.get('id'): a for prm, a in zip(t.params, c[1:])}
            binds += hb
            ctx += [(t, subst)] * len(hb)
            cur = p
            changed = True
            continue
        if k == 'CXXOperatorCallExpr' and len(c) == 3 and c[1] is cur:
            nm = _callee_name(p)
            if nm == 'operator<<' and _is_binder(p.get('type')):
                binds.append(c[2])
                ctx.append(None)
                cur = p
                changed = True
                continue
            if nm == 'operator>>':
                sink = c[2]
                cur = p
                changed = True
        break
    if not changed:
        return s
    while cur.get('kind') in _UP_WRAPPERS and len(children(cur)) == 1:
        cur = children(cur)[0]          # the outermost operator / call itself, not a wrapper around it
    fs = FullSite()
    fs.node = cur
    fs.db = s.db
    fs.sql_parts = s.sql_parts
    fs.binds = binds
    fs.sink = sink
    fs.func = s.func
    fs.tu = s.tu
    fs.loc = s.loc
    fs.stored_in = s.stored_in
    fs.bind_ctx = ctx
    fs.inner = s
    return fs


def describe_bind(site, i):
    """Source descriptor of bind #i of a (Full)Site in terms of the function the site is in: a
    bind written in a helper is rooted at the argument passed for the helper's parameter."""
    ctx = getattr(site, 'bind_ctx', None)
    b = site.binds[i]
    own_tu = getattr(site, 'tu', None) or getattr(site.func, 'tu', None)
    if not ctx or ctx[i] is None:
        _CUR_TU[0] = own_tu
        return describe(b)
    helper, subst = ctx[i]
    _CUR_TU[0] = helper.tu
    d = describe(b)
    _CUR_TU[0] = own_tu
    if d.root and d.root[0] == 'param' and len(d.root) > 2 and d.root[2] in subst:
        a = describe(subst[d.root[2]])
        if a.root and a.root[0] != 'expr':
            path = '.'.join(x for x in (a.path, d.path) if x)
            return Src(a.root, path, a.via + d.via, b, const=a.const if not d.path else None)
        return Src(('expr', 'argument'), d.path, d.via, b)
    if d.root and d.root[0] in ('local',):
        return Src(('expr', 'helper local'), d.path, d.via, b)
    return d
