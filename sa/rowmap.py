"""Statement shape and column <-> C++ source maps for statement sites.

For a site `db << "SQL" << b1 << b2 ... [>> sink]`:
  * parsed statement (holes optionally substituted)
  * per '?' the column it is assigned to / compared with (from the SQL reader)
  * per bind a *source descriptor*: the unique access path rooted at a parameter, a
    local or `this` that the bound expression is computed from, with the wrapper calls
    applied on the way (to_timestamp, to_blob, encode, static_cast ...)
  * for SELECT: per output column the sink target: lambda parameter -> the record field
    it initialises (aggregate initialisation order is resolved through the record's
    field list), or the std::tie element / scalar variable.
"""
from . import sql, effects
from .frontend import AnalysisBroken
from .program import children, strip, walk, locstr, literal_value, norm_type_name


class Src:
    """root: ('param'|'local'|'this'|'const'|'call'|'expr', name); path: 'a.b'; via: [wrapper names]"""
    __slots__ = ('root', 'path', 'via', 'node', 'const')

    def __init__(self, root, path, via, node, const=None):
        self.root = root
        self.path = path
        self.via = via
        self.node = node
        self.const = const

    @property
    def field(self):
        """first component of the path (the row field)"""
        return self.path.split('.')[0] if self.path else None

    def key(self):
        return '%s:%s' % (self.root[1] if self.root else '?', self.path)

    def __repr__(self):
        v = ('<-' + '<-'.join(self.via)) if self.via else ''
        if self.root and self.root[0] == 'const':
            return 'const(%r)' % (self.const,)
        return '%s.%s%s' % (self.root[1] if self.root else '?', self.path, v) if self.path \
            else '%s%s' % (self.root[1] if self.root else '?', v)


_PROG = [None]
_CUR_TU = [None]


def passthrough_param(tu, call):
    """Index of the argument a call hands back unchanged: the callee is a repository function
    whose whole body is `return <casts>(parameter);` (a named conversion such as
    `int64_t type_code(E e) { return static_cast<int64_t>(e); }`).  None otherwise."""
    prog = _PROG[0]
    if prog is None or tu is None or call.get('kind') != 'CallExpr':
        return None
    try:
        d, qn, virt, recv = prog.resolve_callee(tu, call)
    except Exception:
        return None
    if d is None or virt:
        return None
    defs = [f for f in prog.definitions_for(tu, d, qn) if f.body is not None and not f.is_pattern]
    if len(defs) != 1 or not prog.in_repo(defs[0].file):
        return None
    f = defs[0]
    st = [x for x in children(f.body)]
    if len(st) != 1 or st[0].get('kind') != 'ReturnStmt' or not children(st[0]):
        return None
    e = strip(children(st[0])[0])
    while e.get('kind') in ('CXXStaticCastExpr', 'CStyleCastExpr', 'CXXFunctionalCastExpr', 'ParenExpr',
                            'ExprWithCleanups', 'MaterializeTemporaryExpr', 'CXXBindTemporaryExpr') \
            and len(children(e)) == 1:
        e = strip(children(e)[0])
    if e.get('kind') != 'DeclRefExpr':
        return None
    rid = (e.get('referencedDecl') or {}).get('id')
    for i, prm in enumerate(f.params):
        if prm.get('id') == rid:
            return i
    return None


def describe(node):
    """Source descriptor of an expression (see module doc)."""
    via = []
    n = node
    while True:
        n = strip(n)
        k = n.get('kind')
        if k in ('CXXStaticCastExpr', 'CStyleCastExpr', 'CXXFunctionalCastExpr', 'CXXReinterpretCastExpr'):
            c = children(n)
            if len(c) == 1:
                via.append('cast<%s>' % (n.get('type') or ''))
                n = c[0]
                continue
        if k in ('CXXConstructExpr', 'CXXTemporaryObjectExpr', 'InitListExpr'):
            c = [x for x in children(n) if x.get('kind') != 'CXXDefaultArgExpr']
            if len(c) == 1:
                n = c[0]
                continue
            if len(c) == 0:
                return Src(('const', 'default'), '', via, node, const='default %s' % (n.get('type') or ''))
        break
    v = literal_value(n)
    if v is not None:
        return Src(('const', repr(v)), '', via, node, const=v)
    k = n.get('kind')
    if k == 'DeclRefExpr':
        ref = n.get('referencedDecl') or {}
        if ref.get('kind') == 'EnumConstantDecl':
            return Src(('const', ref.get('name')), '', via, node, const=ref.get('name'))
        kind = 'param' if ref.get('kind') == 'ParmVarDecl' else 'local'
        return Src((kind, ref.get('name'), ref.get('id')), '', via, node)
    if k == 'CXXThisExpr':
        return Src(('this', 'this'), '', via, node)
    if k == 'MemberExpr':
        c = children(n)
        if not c:
            return Src(('this', 'this'), n.get('name'), via, node)
        b = describe(c[0])
        if b.root and b.root[0] != 'expr':
            p = (b.path + '.' if b.path else '') + n.get('name')
            return Src(b.root, p, b.via + via, node)
        return Src(('expr', 'member'), n.get('name'), via, node)
    if k in ('CallExpr', 'CXXMemberCallExpr', 'CXXOperatorCallExpr'):
        c = children(n)
        callee = strip(c[0]) if c else {}
        if k == 'CXXMemberCallExpr' and callee.get('kind') == 'MemberExpr':
            nm = callee.get('name')
            obj = children(callee)[0] if children(callee) else None
            if obj is not None:
                b = describe(obj)
                if nm and nm.startswith('operator'):
                    return Src(b.root, b.path, b.via + via, node)
                if strip(obj).get('kind') == 'CXXThisExpr' or (b.root and b.root[0] == 'this' and not b.path):
                    return Src(('call', nm + '()'), '', via, node)
                return Src(b.root, b.path, b.via + [nm] + via, node)
        nm = (callee.get('referencedDecl') or {}).get('name') or callee.get('name') or '?'
        args = c[1:]
        if k == 'CXXOperatorCallExpr':
            if nm in ('operator*', 'operator->') and args:
                b = describe(args[0])
                return Src(b.root, b.path, b.via + via, node)
            if nm == 'operator()' and args:
                return Src(('call', 'functor()'), '', via, node)
        real = [a for a in args if a.get('kind') != 'CXXDefaultArgExpr']
        if k == 'CallExpr':
            # a named conversion that returns its argument (cast): the argument itself, constants included
            pi = passthrough_param(_CUR_TU[0], n)
            if pi is not None and pi < len(args):
                b = describe(args[pi])
                return Src(b.root, b.path, b.via + [nm] + via, node, const=b.const)
        if len(real) == 1:
            b = describe(real[0])
            return Src(b.root, b.path, b.via + [nm] + via, node)
        if len(real) == 0:
            return Src(('call', nm + '()'), '', via, node)
        # several arguments: descriptor of the first argument that is rooted at a variable
        cands = [describe(a) for a in real]
        rooted = [x for x in cands if x.root and x.root[0] in ('param', 'local', 'this')]
        if len(rooted) == 1:
            b = rooted[0]
            return Src(b.root, b.path, b.via + [nm] + via, node)
        return Src(('expr', nm), '', via, node)
    if k == 'ConditionalOperator':
        c = children(n)
        a, b = describe(c[1]), describe(c[2])
        pick = a if a.root and a.root[0] in ('param', 'local', 'this') else b
        return Src(pick.root, pick.path, pick.via + ['?:'] + via, node)
    if k == 'BinaryOperator':
        c = children(n)
        cands = [describe(x) for x in c]
        rooted = [x for x in cands if x.root and x.root[0] in ('param', 'local', 'this')]
        if len(rooted) == 1:
            return Src(rooted[0].root, rooted[0].path, rooted[0].via + [n.get('opcode')] + via, node)
        return Src(('expr', n.get('opcode')), '', via, node)
    if k == 'UnaryOperator':
        b = describe(children(n)[0])
        return Src(b.root, b.path, b.via + via, node)
    return Src(('expr', k), '', via, node)


class SiteMap:
    """Everything the rules need about one statement site."""

    def __init__(self, site, stmt, text):
        self.site = site
        self.stmt = stmt
        self.text = text
        self.loc = locstr(site.node)
        self.func = site.func
        _CUR_TU[0] = getattr(site, 'tu', None) or getattr(site.func, 'tu', None)
        self.binds = [describe(b) for b in site.binds]
        self.problems = []
        self.col_src = []        # [(column, Src, role)] for '?' in order
        self.out = []            # [(column expr text, column name or None, target)] for SELECT
        self._shape()

    def _shape(self):
        st = self.stmt
        nq = len(st.params)
        if nq != len(self.binds):
            self.problems.append('%d placeholder(s) but %d bound value(s) (missing binds stay NULL, '
                                 'surplus binds throw at run time)' % (nq, len(self.binds)))
        if st.kind == 'insert' and st.rows:
            for r in st.rows:
                if st.columns and len(r) != len(st.columns):
                    self.problems.append('INSERT lists %d column(s) but a VALUES tuple has %d' % (
                        len(st.columns), len(r)))
        for i, p in enumerate(st.params):
            src = self.binds[i] if i < len(self.binds) else None
            self.col_src.append((p.column, src, p.role, p))
        if st.kind == 'select' and self.site.sink is not None and st.select is not None:
            self._sink()

    def _sink(self):
        st = self.stmt
        items = st.select.items
        sink = strip(self.site.sink)
        targets = None
        while sink.get('kind') in ('MaterializeTemporaryExpr', 'CXXBindTemporaryExpr', 'ExprWithCleanups',
                                   'CXXFunctionalCastExpr', 'CXXConstructExpr') and len(children(sink)) == 1:
            sink = strip(children(sink)[0])
        if sink.get('kind') == 'LambdaExpr':
            targets = lambda_targets(sink, self.func)
            self.sink_kind = 'lambda'
        elif sink.get('kind') == 'CallExpr' and (strip(children(sink)[0]).get('referencedDecl') or {}).get('name') == 'tie':
            targets = [('var', describe(a)) for a in children(sink)[1:]]
            self.sink_kind = 'tie'
        else:
            targets = [('var', describe(sink))]
            self.sink_kind = 'scalar'
        if targets is None:
            self.problems.append('sink of the SELECT is outside the modelled subset')
            return
        if len(targets) != len(items):
            self.problems.append('SELECT yields %d column(s) but the sink takes %d value(s)' % (
                len(items), len(targets)))
        for i, (e, alias) in enumerate(items):
            cr = e.column_ref()
            tgt = targets[i] if i < len(targets) else None
            self.out.append((e.text(), cr[1] if cr else None, tgt))


def lambda_targets(lam, func):
    """[(kind, info)] per lambda parameter: ('field', record, field name, via) when the parameter
    initialises a field of an aggregate built in the body, ('assign', Src) when it is assigned to a
    variable / member, ('param', name) otherwise."""
    params = []
    body = None
    for c in children(lam):
        if c.get('kind') == 'CXXRecordDecl':
            for m in children(c):
                if m.get('kind') == 'CXXMethodDecl' and m.get('name') == 'operator()':
                    params = [p for p in children(m) if p.get('kind') == 'ParmVarDecl']
        elif c.get('kind') == 'CompoundStmt':
            body = c
    out = [('param', p.get('name')) for p in params]
    if body is None:
        return out
    pid = {p['id']: i for i, p in enumerate(params)}
    tu = func.tu
    for n in walk(body):
        k = n.get('kind')
        if k in ('InitListExpr', 'CXXConstructExpr', 'CXXTemporaryObjectExpr'):
            t = norm_type_name(n.get('type') or '')
            rec = _record_by_type(func, t)
            if rec is None:
                continue
            args = children(n)
            fields = [f.get('name') for f in rec.fields]
            if k == 'InitListExpr' and len(args) <= len(fields):
                for j, a in enumerate(args):
                    for x in walk(a):
                        if x.get('kind') == 'DeclRefExpr' and (x.get('referencedDecl') or {}).get('id') in pid:
                            i = pid[x['referencedDecl']['id']]
                            d = describe(a)
                            if out[i][0] == 'param':
                                out[i] = ('field', rec.qualname, fields[j], d.via)
        elif k in ('BinaryOperator', 'CXXOperatorCallExpr'):
            c = children(n)
            if k == 'BinaryOperator' and n.get('opcode') == '=':
                lhs, rhs = c[0], c[1]
            elif k == 'CXXOperatorCallExpr' and (strip(c[0]).get('referencedDecl') or {}).get('name') == 'operator=':
                lhs, rhs = c[1], c[2]
            else:
                continue
            r = strip(rhs, explicit=True)
            ids = [(x.get('referencedDecl') or {}).get('id') for x in walk(rhs) if x.get('kind') == 'DeclRefExpr']
            hit = [i for i in ids if i in pid]
            if len(hit) == 1 and not any(x.get('kind') == 'InitListExpr' for x in walk(rhs)):
                i = pid[hit[0]]
                if out[i][0] == 'param':
                    l = describe(lhs)
                    out[i] = ('assign', l, describe(rhs).via)
    return out


_REC_CACHE = {}


def _record_by_type(func, t):
    from . import program as P
    prog = P.load(func.tu and None) if False else None
    return _REC_LOOKUP(t)


def _REC_LOOKUP(t):
    return None


def install_program(prog):
    """Bind record lookup to a loaded Program."""
    from . import callgraph
    cg = callgraph.get(prog)

    def look(t):
        q = cg.record_of_type(t)
        return prog.records.get(q) if q else None
    global _REC_LOOKUP
    _REC_LOOKUP = look
    _PROG[0] = prog


def hole_values(prog, cg, func):
    """For a helper whose SQL text has a hole fed by a parameter (get_column(db, id,
    "title")): {param name: [(literal, call node, caller Function)]} over all call sites."""
    out = {}
    pnames = {p.get('name'): i for i, p in enumerate(func.params)}
    for f in prog.functions.values():
        if f.is_pattern or f.body is None:
            continue
        for e in cg.edges(f):
            if func not in e.targets:
                continue
            c = children(e.node)
            args = c[1:] if e.node.get('kind') != 'CXXMemberCallExpr' else c[1:]
            for name, i in pnames.items():
                if i < len(args):
                    v = literal_value(args[i])
                    if isinstance(v, str):
                        out.setdefault(name, []).append((v, e.node, f))
    return out


def site_maps(prog, cg, eff, func, subst=None):
    """SiteMaps of a function; holes replaced by `subst` {hole desc: text} when given."""
    out = []
    for s in eff.sites(func):
        if len(s.sql_parts) == 1 and not isinstance(s.sql_parts[0], str):
            continue
        text = ''.join(p if isinstance(p, str) else ((subst or {}).get(p.desc) or (effects.HOLE + str(p.desc)))
                       for p in s.sql_parts)
        try:
            st = sql.parse(text)
        except sql.SqlError as e:
            raise AnalysisBroken('cannot read SQL at %s: %s' % (locstr(s.node), e))
        out.append(SiteMap(s, st, text))
    return out


# ---- schema range guards ------------------------------------------------------------------
def schema_guard(func, node, enum_order):
    """Interval [lo, hi] (indices into enum_order) of schema enumerators for which `node`
    executes, from enclosing `if (schema >= E) ... else ...` chains; also early
    `if (schema < E) throw` statements that precede it."""
    lo, hi = 0, len(enum_order) - 1
    path = []

    def find(n, acc):
        if n is node:
            path.extend(acc)
            return True
        for c in children(n):
            if find(c, acc + [n]):
                return True
        return False
    find(func.node, [])
    chain = path + [node]
    for i, anc in enumerate(path):
        child = chain[i + 1]
        if anc.get('kind') == 'IfStmt':
            c = children(anc)
            cond = c[0]
            r = _schema_cmp(cond, enum_order, func)
            if r is None:
                continue
            op, idx = r
            in_then = child is c[1]
            in_else = anc.get('hasElse') and child is c[-1] and len(c) >= 3
            lo, hi = _apply(op, idx, in_then, in_else, lo, hi)
        elif anc.get('kind') == 'CompoundStmt':
            for sib in children(anc):
                if sib is child:
                    break
                if sib.get('kind') == 'IfStmt':
                    c = children(sib)
                    r = _schema_cmp(c[0], enum_order, func)
                    if r is None:
                        continue
                    then = c[1]
                    leaves = any(x.get('kind') in ('CXXThrowExpr', 'ReturnStmt') for x in walk(then))
                    if leaves and not sib.get('hasElse'):
                        op, idx = r
                        lo, hi = _apply(op, idx, False, True, lo, hi)
    return lo, hi


def _apply(op, idx, in_then, in_else, lo, hi):
    if op == '>=':
        if in_then:
            lo = max(lo, idx)
        elif in_else:
            hi = min(hi, idx - 1)
    elif op == '<':
        if in_then:
            hi = min(hi, idx - 1)
        elif in_else:
            lo = max(lo, idx)
    elif op == '>':
        if in_then:
            lo = max(lo, idx + 1)
        elif in_else:
            hi = min(hi, idx)
    elif op == '<=':
        if in_then:
            hi = min(hi, idx)
        elif in_else:
            lo = max(lo, idx + 1)
    return lo, hi


_NEG = {'>=': '<', '<': '>=', '>': '<=', '<=': '>'}
_BOOL_LOCALS = {}


def _bool_locals(func):
    """bool locals of func that are initialised once and never assigned: id -> initialiser."""
    key = id(func.node)
    if key not in _BOOL_LOCALS:
        inits, assigned = {}, set()
        for x in walk(func.node):
            k = x.get('kind')
            if k == 'VarDecl' and (x.get('type') or '').replace('const', '').strip() == 'bool':
                c = [y for y in children(x) if not y['kind'].endswith('Attr')]
                if c:
                    inits[x.get('id')] = c[-1]
            elif k in ('BinaryOperator', 'CompoundAssignOperator') and (x.get('opcode') or '').endswith('=') \
                    and x.get('opcode') not in ('==', '!=', '<=', '>='):
                l = strip(children(x)[0])
                if l.get('kind') == 'DeclRefExpr':
                    assigned.add((l.get('referencedDecl') or {}).get('id'))
        _BOOL_LOCALS[key] = {k: v for k, v in inits.items() if k not in assigned}
    return _BOOL_LOCALS[key]


def _schema_cmp(cond, enum_order, func=None, depth=0):
    n = strip(cond, explicit=True)
    if n.get('kind') == 'UnaryOperator' and n.get('opcode') == '!':
        r = _schema_cmp(children(n)[0], enum_order, func, depth)
        return None if r is None else (_NEG[r[0]], r[1])
    if n.get('kind') == 'DeclRefExpr' and func is not None and depth < 4:
        init = _bool_locals(func).get((n.get('referencedDecl') or {}).get('id'))
        if init is not None:
            return _schema_cmp(init, enum_order, func, depth + 1)
        return None
    if n.get('kind') not in ('BinaryOperator', 'CXXOperatorCallExpr'):
        return None
    c = children(n)
    if n.get('kind') == 'CXXOperatorCallExpr':
        op = ((strip(c[0]).get('referencedDecl') or {}).get('name') or '').replace('operator', '')
        a, b = c[1], c[2]
    else:
        op = n.get('opcode')
        a, b = c[0], c[1]
    if op not in ('>=', '<', '>', '<='):
        return None
    lhs = describe(a)
    rhs = strip(b, explicit=True)
    en = None
    for x in walk(b):
        if x.get('kind') == 'DeclRefExpr' and (x.get('referencedDecl') or {}).get('kind') == 'EnumConstantDecl':
            en = x['referencedDecl']['name']
    if en is None or en not in enum_order or 'schema' not in (lhs.path or lhs.root[1] or ''):
        return None
    return op, enum_order.index(en)
