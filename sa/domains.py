"""Identifier-domain typing of SQL.

Every id-carrying column names rows of one kind (spec/domains.json: track, list, entity, uuid ...).
A statement that compares, assigns or inserts a column of one domain from a column of another
domain relates rows that have nothing to do with each other (`WHERE nextEntityId = OLD.trackId`).
The rule is decided on the parsed statement: operands are resolved to (table, column) through the
statement's own table references, NEW / OLD of the enclosing trigger, and view definitions.
"""
import json
import os

from . import sql as sqlmod
from .frontend import AnalysisBroken, VERIF

SPEC = os.path.join(VERIF, 'spec', 'domains.json')
CMP_OPS = ('=', '==', '!=', '<>')
ARITH = ('+', '-', '*', '/', '%', '||', '&', '|', '<<', '>>', '~')
SCHEMAS = ('music', 'perfdata', 'main', 'temp')
_KW = None


def _kw():
    global _KW
    if _KW is None:
        _KW = set(sqlmod.KEYWORDS) | {'NEW', 'OLD'} if hasattr(sqlmod, 'KEYWORDS') else {'NEW', 'OLD'}
        _KW |= {'SELECT', 'FROM', 'WHERE', 'AND', 'OR', 'NOT', 'NULL', 'IS', 'IN', 'SET', 'UPDATE', 'INSERT',
                'INTO', 'VALUES', 'DELETE', 'AS', 'ON', 'JOIN', 'LEFT', 'INNER', 'OUTER', 'CROSS', 'ORDER',
                'BY', 'GROUP', 'LIMIT', 'CASE', 'WHEN', 'THEN', 'ELSE', 'END', 'EXISTS', 'UNION', 'ALL',
                'DISTINCT', 'LIKE', 'BETWEEN', 'HAVING', 'WITH', 'RECURSIVE', 'REPLACE', 'ABORT', 'FAIL',
                'IGNORE', 'ROLLBACK', 'RAISE', 'ASC', 'DESC', 'COLLATE', 'OFFSET', 'USING', 'NATURAL',
                'DEFAULT', 'CAST', 'GLOB', 'ISNULL', 'NOTNULL', 'ESCAPE'}
    return _KW


class Domains:
    def __init__(self, cats, gen):
        """cats: {alias: Catalog} of one schema version; gen: 1 or 2."""
        self.cats = cats
        self.gen = gen
        self.spec = {k: v for k, v in json.load(open(SPEC))['columns'].items()}
        self._view_memo = {}

    # ---- catalog lookups --------------------------------------------------------------
    def _find(self, name):
        n = name.lower()
        for cat in self.cats.values():
            if n in cat.tables:
                return 'table', cat.tables[n], cat
            if n in cat.views:
                return 'view', cat.views[n], cat
        return None, None, None

    def has_column(self, table, col):
        kind, obj, cat = self._find(table)
        if kind == 'table':
            return obj.col(col) is not None or col.lower() in ('rowid', 'oid', '_rowid_')
        if kind == 'view':
            names = obj.columns or obj.select.output_names()
            return col.lower() in [x.lower() for x in names]
        return False

    def known_table(self, table):
        return self._find(table)[0] is not None

    def domain(self, table, col, depth=0):
        """domain of table.col, None when the column carries no listed identifier."""
        t, c = table.lower(), col.lower()
        kind, obj, cat = self._find(t)
        if kind == 'view' and depth < 5:
            key = (t, c)
            if key in self._view_memo:
                return self._view_memo[key]
            self._view_memo[key] = None
            d = self._view_domain(obj, c, depth)
            if d is None:
                d = self.spec.get('%d:%s.%s' % (self.gen, t, c))
            self._view_memo[key] = d
            return d
        d = self.spec.get('%d:%s.%s' % (self.gen, t, c))
        if d is None and kind == 'table' and obj.col(c) is not None:
            d = self.spec.get('%d:*.%s' % (self.gen, c))
        return d

    def _view_domain(self, v, col, depth):
        s = v.select
        names = [x.lower() for x in (v.columns or s.output_names())]
        if col not in names:
            return None
        i = names.index(col)
        ds = set()
        for sel in [s] + list(s.compound):
            if i >= len(sel.items):
                continue
            e, _ = sel.items[i]
            cr = e.column_ref()
            if cr is None:
                continue
            q, c = cr
            for (sch, t, al) in sel.tables:
                if not isinstance(t, str):
                    continue
                if q is not None and q.lower() not in ((al or t).lower(), t.lower()):
                    continue
                if self.has_column(t, c):
                    d = self.domain(t, c, depth + 1)
                    if d:
                        ds.add(d)
        return ds.pop() if len(ds) == 1 else None

    # ---- spec self-check -------------------------------------------------------------------
    def fk_consistency(self):
        """[(table, col, reftable, refcol, d1, d2)] for declared foreign keys whose ends the spec
        puts in different domains (the spec is wrong or the schema changed)."""
        bad, n = [], 0
        for cat in self.cats.values():
            for td in cat.tables.values():
                pairs = []
                for c in td.columns:
                    if c.references:
                        pairs.append(([c.name], c.references[0], c.references[1] or ['id']))
                for fk in td.fks:
                    pairs.append((fk[0], fk[1], fk[2] or ['id']))
                for cols, rt, rcols in pairs:
                    for a, b in zip(cols, rcols):
                        d1, d2 = self.domain(td.name, a), self.domain(rt, b)
                        if d1 is None and d2 is None:
                            continue
                        n += 1
                        if d1 != d2:
                            bad.append((td.name, a, rt, b, d1, d2))
        return n, bad


class Scope:
    def __init__(self, dom, toks, trigger_table=None):
        self.dom = dom
        self.toks = toks
        self.trigger_table = trigger_table
        self.alias = {}
        self.tables = []
        self.cte = {}            # lower name -> {lower column: domain or None}
        self._scan_ctes()
        self._scan_tables()

    # common table expressions: `name AS ( SELECT item, ... FROM table ...`; a column's domain is
    # that of the plain column its first (non-recursive) arm selects
    def _scan_ctes(self):
        t, n = self.toks, len(self.toks)
        for i in range(n - 3):
            if not (t[i].kind == 'id' and t[i + 1].is_kw('AS') and t[i + 2].is_op('(') and t[i + 3].is_kw('SELECT')):
                continue
            if i > 0 and not (t[i - 1].is_kw('WITH', 'RECURSIVE') or t[i - 1].is_op(',')):
                continue
            name = t[i].val.lower()
            j = i + 4
            depth = 0
            items, cur = [], []
            while j < n:
                x = t[j]
                if x.is_op('('):
                    depth += 1
                elif x.is_op(')'):
                    if depth == 0:
                        break
                    depth -= 1
                if depth == 0 and x.is_kw('FROM'):
                    break
                if depth == 0 and x.is_op(','):
                    items.append(cur)
                    cur = []
                else:
                    cur.append(x)
                j += 1
            items.append(cur)
            if j >= n or not t[j].is_kw('FROM'):
                continue
            k = j + 1
            if k + 2 < n and t[k].val.lower() in SCHEMAS and t[k + 1].is_op('.'):
                k += 2
            src = t[k].val if k < n and t[k].kind == 'id' else None
            cols = {}
            for it in items:
                if not it:
                    continue
                alias = None
                body = it
                if len(it) >= 3 and it[-2].is_kw('AS') and it[-1].kind == 'id':
                    alias, body = it[-1].val, it[:-2]
                e = sqlmod.Expr(body)
                cr = e.column_ref()
                if cr is not None:
                    d = None
                    if src and (self.dom.known_table(src)) and self.dom.has_column(src, cr[1]):
                        d = self.dom.domain(src, cr[1])
                    elif src and src.lower() in self.cte:
                        d = self.cte[src.lower()].get(cr[1].lower())
                    cols[(alias or cr[1]).lower()] = d
                elif alias:
                    cols[alias.lower()] = None
            self.cte[name] = cols

    def _known(self, name):
        return name.lower() in self.cte or self.dom.known_table(name)

    def _has_column(self, tb, col):
        if tb.lower() in self.cte:
            return col.lower() in self.cte[tb.lower()]
        return self.dom.has_column(tb, col)

    def _domain(self, tb, col):
        if tb.lower() in self.cte:
            return self.cte[tb.lower()].get(col.lower())
        return self.dom.domain(tb, col)

    def _scan_tables(self):
        t = self.toks
        kw = _kw()
        i, n = 0, len(t)
        while i < n:
            x = t[i]
            starts = x.is_kw('FROM', 'JOIN', 'INTO', 'UPDATE')
            if starts and x.is_kw('UPDATE') and i + 1 < n and t[i + 1].is_kw('OR'):
                i += 2          # UPDATE OR REPLACE <table>
            if starts:
                j = i + 1
                while True:
                    if j < n and t[j].is_op('('):
                        break       # sub-select in FROM: its own FROM is scanned later
                    if j + 2 < n and t[j].kind == 'id' and t[j + 1].is_op('.') and t[j + 2].kind == 'id' and \
                            t[j].val.lower() in SCHEMAS:
                        j += 2
                    if j >= n or t[j].kind != 'id':
                        break
                    name = t[j].val
                    j += 1
                    al = None
                    if j < n and t[j].is_kw('AS') and j + 1 < n:
                        al = t[j + 1].val
                        j += 2
                    elif j < n and t[j].kind == 'id' and t[j].raw[0] not in '["`' and t[j].val.upper() not in kw:
                        al = t[j].val
                        j += 1
                    if self._known(name):
                        self.tables.append(name)
                        self.alias[(al or name).lower()] = name
                        self.alias.setdefault(name.lower(), name)
                    if x.is_kw('FROM', 'JOIN') and j < n and t[j].is_op(','):
                        j += 1
                        continue
                    break
                i = j
                continue
            i += 1

    def colref_at(self, i):
        """(end index, qualifier, column) if a plain column reference starts at token i."""
        t, n = self.toks, len(self.toks)
        if i >= n or t[i].kind != 'id':
            return None
        if i + 4 < n and t[i].val.lower() in SCHEMAS and t[i + 1].is_op('.') and t[i + 2].kind == 'id' and \
                t[i + 3].is_op('.') and t[i + 4].kind == 'id':
            return i + 5, t[i + 2].val, t[i + 4].val
        if i + 2 < n and t[i + 1].is_op('.') and t[i + 2].kind == 'id':
            return i + 3, t[i].val, t[i + 2].val
        if t[i].raw[0] not in '["`' and t[i].val.upper() in _kw():
            return None
        if i + 1 < n and t[i + 1].is_op('('):
            return None
        return i + 1, None, t[i].val

    def colref_ending(self, j):
        """(start index, qualifier, column) if a plain column reference ends at token j (inclusive)."""
        t = self.toks
        if j < 0 or t[j].kind != 'id':
            return None
        for start in (j - 4, j - 2, j):
            if start < 0:
                continue
            r = self.colref_at(start)
            if r and r[0] == j + 1:
                if start > 0 and t[start - 1].is_op('.'):
                    continue
                return start, r[1], r[2]
        return None

    def resolve(self, q, col):
        """('dom', domain or None, 'table.col') | ('amb', ...) | ('none', ...)"""
        if q is not None:
            ql = q.lower()
            if ql in ('new', 'old') and self.trigger_table:
                tb = self.trigger_table
            elif ql in self.alias:
                tb = self.alias[ql]
            elif self._known(q):
                tb = q
            else:
                return 'none', None, '%s.%s' % (q, col)
            if not self._has_column(tb, col):
                return 'none', None, '%s.%s' % (tb, col)
            return 'dom', self._domain(tb, col), '%s.%s' % (tb, col)
        have = [tb for tb in dict.fromkeys(self.tables) if self._has_column(tb, col)]
        if not have:
            return 'none', None, col
        ds = {self._domain(tb, col) for tb in have}
        if len(ds) > 1:
            return 'amb', None, col
        return 'dom', ds.pop(), '%s.%s' % (have[0], col)


def judge_statement(dom, st, trigger_table=None):
    """-> (pairs, findings): pairs = [(left text, right text, domain)] judged consistent,
    findings = [(left, dl, right, dr, how)]."""
    toks = st.toks
    sc = Scope(dom, toks, trigger_table)
    pairs, finds, skipped = [], [], 0
    n = len(toks)

    def operand_right(i):
        """plain column operand starting at i, or the single output of `( SELECT col FROM`."""
        if i + 2 < n and toks[i].is_op('(') and toks[i + 1].is_kw('SELECT'):
            r = sc.colref_at(i + 2)
            if r and r[0] < n and toks[r[0]].is_kw('FROM'):
                return r, True
            return None, True
        r = sc.colref_at(i)
        if r is None:
            return None, False
        e = r[0]
        if e < n and (toks[e].is_op(*ARITH) or toks[e].is_op('(')):
            return None, False
        return r, False

    def judge(lq, lc, rq, rc, how):
        a = sc.resolve(lq, lc)
        b = sc.resolve(rq, rc)
        if a[0] != 'dom' or b[0] != 'dom' or a[1] is None or b[1] is None:
            return False
        if a[1] == b[1]:
            pairs.append((a[2], b[2], a[1]))
        else:
            finds.append((a[2], a[1], b[2], b[1], how))
        return True

    for i, x in enumerate(toks):
        is_cmp = x.is_op(*CMP_OPS)
        is_in = x.is_kw('IN')
        is_is = x.is_kw('IS')
        if not (is_cmp or is_in or is_is):
            continue
        j = i - 1
        if is_in and j >= 0 and toks[j].is_kw('NOT'):
            j -= 1
        L = sc.colref_ending(j)
        if L is None:
            continue
        if L[0] > 0 and toks[L[0] - 1].is_op(*ARITH):
            continue
        k = i + 1
        if is_is and k < n and toks[k].is_kw('NOT'):
            k += 1
        R, sub = operand_right(k)
        if R is None:
            continue
        judge(L[1], L[2], R[1], R[2], toks[i].raw.upper() + (' (SELECT ...)' if sub else ''))
    # INSERT column list <-> VALUES / SELECT outputs
    if st.kind == 'insert' and st.table and st.columns:
        rows = [r for r in st.rows] if st.rows else []
        if st.select is not None:
            for sel in [st.select] + list(st.select.compound):
                rows.append([e for e, _ in sel.items])
        for row in rows:
            if len(row) != len(st.columns):
                continue
            for c, e in zip(st.columns, row):
                cr = e.column_ref() if hasattr(e, 'column_ref') else None
                if cr is None:
                    continue
                a = ('dom', dom.domain(st.table, c), '%s.%s' % (st.table, c)) if dom.has_column(st.table, c) \
                    else ('none', None, c)
                b = sc.resolve(cr[0], cr[1])
                if a[1] is None or b[0] != 'dom' or b[1] is None:
                    continue
                if a[1] == b[1]:
                    pairs.append((a[2], b[2], a[1]))
                else:
                    finds.append((a[2], a[1], b[2], b[1], 'INSERT column <- value'))
    return pairs, finds


def check_version(cats, gen, label):
    """Judge every trigger body and view of one version.
    -> (n_fk, fk_bad, [(object, pairs, findings)])"""
    dom = Domains(cats, gen)
    nfk, fkbad = dom.fk_consistency()
    out = []
    for alias, cat in cats.items():
        for n, t in sorted(cat.triggers.items()):
            P, F = [], []
            for b in t.body:
                p, f = judge_statement(dom, b, t.table)
                P += p
                F += f
            if t.when is not None:
                st = sqlmod.Stmt('when', t.when.toks if hasattr(t.when, 'toks') else t.when)
                p, f = judge_statement(dom, st, t.table)
                P += p
                F += f
            out.append(('trigger ' + (t.name or n), t.table, P, F))
        for n, v in sorted(cat.views.items()):
            raw = cat.raw.get(('view', n))
            if raw is None:
                continue
            p, f = judge_statement(dom, raw, None)
            out.append(('view ' + (v.name or n), None, p, f))
    return dom, nfk, fkbad, out


def check_library_statements(prog, eff, cats_by_version, versions):
    """Judge the column-to-column relations of every statement the library itself issues
    (outside the schema creators) under each of `versions` whose generation matches the code.
    -> [(func, site, version, pairs, findings)]"""
    out = []
    doms = {}
    for f in prog.functions.values():
        if f.body is None or f.is_pattern or '/schema/' in (f.file or ''):
            continue
        q = f.qualname or ''
        gen = 1 if '::v1::' in q else 2 if '::v2::' in q else None
        if gen is None:
            continue
        for s in eff.sites(f):
            st = s.stored_in
            if st is None or not getattr(st, 'toks', None) or st.kind not in ('select', 'insert', 'update', 'delete'):
                continue
            for en in versions:
                g = 2 if en.startswith('schema_2') or en.startswith('schema_3') else 1
                if g != gen:
                    continue
                if en not in doms:
                    doms[en] = Domains(cats_by_version[en], g)
                p, fi = judge_statement(doms[en], st, None)
                if p or fi:
                    out.append((f, s, en, p, fi))
    return out


def apply_rule(prog, eff, chk, rid, gens=(1, 2), trigger_tables=None, library=True):
    """Report the identifier-domain rule on `chk`: one instance per trigger / view / library
    statement that relates identifier columns, per supported schema version."""
    from . import rowrules
    from .program import locstr
    from .rules import c13
    cats = rowrules.version_catalogs(prog)
    supported = [en for en in rowrules.enum_order(prog) if en in set(c13._supported(prog))]
    if not supported:
        raise AnalysisBroken('no supported schema version found')
    npairs = 0
    for en in supported:
        gen = 2 if rowrules._gen2(en) else 1
        if gen not in gens:
            continue
        dom, nfk, fkbad, out = check_version(cats[en], gen, en)
        for (tb, a, rt, b, d1, d2) in fkbad:
            chk.fail_broken('%s: spec/domains.json puts %s.%s in domain %s but the FOREIGN KEY it declares refers '
                            'to %s.%s in domain %s: the table is out of date' % (en, tb, a, d1, rt, b, d2))
        for name, table, pairs, finds in out:
            if trigger_tables is not None and name.startswith('trigger ') and \
                    (table or '').lower() not in trigger_tables:
                continue
            if trigger_tables is not None and name.startswith('view '):
                continue
            if not pairs and not finds:
                continue
            npairs += len(pairs)
            inst = '%s %s: %d relation(s) between identifier columns, each within one domain' % (en, name, len(pairs))
            if not finds:
                chk.ok(rid, inst, en)
            for (l, dl, r, dr, how) in finds:
                chk.violation(rid, '%s|%s|%s~%s' % (en, name, l.lower(), r.lower()), en,
                              '%s %s relates %s (names a %s) with %s (names a %s) by %s: rows of different kinds '
                              'are matched, so the statement touches the wrong rows or none' % (
                                  en, name, l, dl, r, dr, how))
    if library:
        vs = []
        for g in gens:
            gv = [en for en in supported if (2 if rowrules._gen2(en) else 1) == g]
            if gv:
                vs += [gv[0], gv[-1]] if len(gv) > 1 else gv
        for f, s, en, pairs, finds in check_library_statements(prog, eff, cats, vs):
            npairs += len(pairs)
            short = '::'.join((f.qualname or '').split('::')[-2:])
            inst = '%s (%s): statement at %s relates %d identifier column pair(s) within one domain' % (
                short, en, locstr(s.node), len(pairs))
            if not finds:
                chk.ok(rid, inst, locstr(s.node))
            for (l, dl, r, dr, how) in finds:
                chk.violation(rid, '%s|%s~%s' % (short, l.lower(), r.lower()), locstr(s.node),
                              '%s: the statement relates %s (names a %s) with %s (names a %s) by %s' % (
                                  short, l, dl, r, dr, how))
    return npairs


# ---- identifier domains of C++ values: binds and call arguments -----------------------------------

def _handle_domain(prog, spec_handles, type_or_cls):
    """domain of id() of an object of this class / type string (via its base classes)."""
    from .program import norm_type_name
    t = norm_type_name(type_or_cls or '')
    for junk in ('const ', '&', '*', 'std::optional<', 'std::shared_ptr<', '>'):
        t = t.replace(junk, '')
    t = t.strip()
    seen = set()
    work = [t]
    while work:
        c = work.pop()
        if c in seen:
            continue
        seen.add(c)
        if c in spec_handles and not c.startswith('_'):
            return spec_handles[c]
        r = prog.records.get(c)
        if r is not None:
            for b in (r.bases or []):
                work.append(b if isinstance(b, str) else (b.get('type') or b.get('name') or ''))
    return None


def expr_domain(prog, handles, f, node, depth=0):
    """identifier domain of a C++ expression, when it is the id() of a typed handle (directly or
    through a local initialised with it); None when unknown."""
    from .program import children, strip, walk
    n = strip(node, explicit=True)
    k = n.get('kind')
    if k == 'CXXMemberCallExpr':
        callee = strip(children(n)[0])
        if callee.get('kind') == 'MemberExpr' and callee.get('name') == 'id' and len(children(n)) == 1:
            recv = children(callee)[0] if children(callee) else None
            r = strip(recv, explicit=True) if recv is not None else {}
            if r.get('kind') == 'CXXThisExpr' or recv is None:
                return _handle_domain(prog, handles, f.cls)
            return _handle_domain(prog, handles, r.get('type') or (recv or {}).get('type'))
        return None
    if k == 'CXXOperatorCallExpr':
        # (*opt).id() / opt->id() arrive as member calls on operator results: handled by the type string
        return None
    if k == 'DeclRefExpr' and depth < 3:
        ref = n.get('referencedDecl') or {}
        if ref.get('kind') == 'VarDecl' and f.body is not None:
            for x in walk(f.body):
                if x.get('kind') == 'VarDecl' and x.get('id') == ref.get('id'):
                    init = [y for y in children(x) if not y['kind'].endswith('Attr') and not y['kind'].endswith('Comment')]
                    if init:
                        return expr_domain(prog, handles, f, init[-1], depth + 1)
    if k == 'ConditionalOperator':
        c = children(n)
        ds = {expr_domain(prog, handles, f, c[1], depth + 1), expr_domain(prog, handles, f, c[2], depth + 1)}
        ds.discard(None)
        return ds.pop() if len(ds) == 1 else None
    return None


class BindTyping:
    """use(F, i): the domains of the columns parameter i of F is bound against, in F's own
    statements or (passed on unchanged) in those of its callees; checked against the domain of
    what each call site passes and of what each statement binds directly."""

    def __init__(self, prog, cg, eff, cats_by_version, versions):
        from . import rowrules
        self.prog, self.cg, self.eff = prog, cg, eff
        self.handles = {k: v for k, v in json.load(open(SPEC)).get('handles', {}).items() if not k.startswith('_')}
        self.doms = {}
        for en in versions:
            g = 2 if rowrules._gen2(en) else 1
            self.doms.setdefault(g, []).append(Domains(cats_by_version[en], g))
        self.funcs = [f for f in prog.functions.values() if f.body is not None and not f.is_pattern
                      and '/schema/' not in (f.file or '') and prog.in_repo(f.file)]
        self.maps = rowrules.expand_sites(prog, cg, eff, self.funcs)
        self.use = {}          # (func key, param index) -> set(domain)
        self.direct = []       # (func, site map, column, column domain, source domain)
        self._collect()

    def _gen(self, f):
        q = f.qualname or ''
        return 1 if '::v1::' in q else 2 if '::v2::' in q else None

    def _coldom(self, f, table, col):
        g = self._gen(f)
        out = set()
        for d in self.doms.get(g, []):
            if table and d.known_table(table) and d.has_column(table, col):
                x = d.domain(table, col)
                if x:
                    out.add(x)
        return out

    def _collect(self):
        from .program import children, strip
        for sm in self.maps:
            f = sm.site.func
            t = sm.stmt.table
            pidx = {p.get('id'): i for i, p in enumerate(f.params)}
            for col, src, role, p in sm.col_src:
                if not col or not t or src is None:
                    continue
                cd = self._coldom(f, t, col)
                if not cd:
                    continue
                if src.root and src.root[0] == 'param' and not src.path and not [v for v in src.via if not v.startswith('cast<')]:
                    i = pidx.get(src.root[2])
                    if i is not None:
                        self.use.setdefault((f.key, i), set()).update(cd)
                        continue
                sd = expr_domain(self.prog, self.handles, f, src.node)
                if sd:
                    self.direct.append((f, sm, col, cd, sd))
        # pass-through of parameters to callees, to a fixed point
        self.calls = []        # (caller, call node, callee, [(arg index, arg node)])
        for f in self.funcs:
            pidx = {p.get('id'): i for i, p in enumerate(f.params)}
            for e in self.cg.edges(f):
                if e.node.get('kind') not in ('CallExpr', 'CXXMemberCallExpr') or not e.targets:
                    continue
                args = children(e.node)[1:]
                for g in e.targets:
                    if g.body is None or g.is_pattern and False:
                        continue
                    self.calls.append((f, e.node, g, args, pidx))
        changed = True
        rounds = 0
        while changed and rounds < 8:
            changed = False
            rounds += 1
            for f, node, g, args, pidx in self.calls:
                for j, a in enumerate(args):
                    if j >= len(g.params):
                        break
                    u = self.use.get((g.key, j))
                    if not u:
                        continue
                    r = strip(a, explicit=True)
                    if r.get('kind') == 'DeclRefExpr' and (r.get('referencedDecl') or {}).get('id') in pidx:
                        i = pidx[r['referencedDecl']['id']]
                        cur = self.use.setdefault((f.key, i), set())
                        if not u <= cur:
                            cur |= u
                            changed = True

    def judge(self):
        """-> (oks, findings); each (where, text)."""
        from .program import locstr
        oks, finds = [], []
        for f, sm, col, cd, sd in self.direct:
            short = '::'.join((f.qualname or '').split('::')[-2:])
            txt = '%s binds the id of a %s handle to %s.%s (%s)' % (short, sd, sm.stmt.table, col, '/'.join(sorted(cd)))
            (oks if sd in cd else finds).append((locstr(sm.site.node), '%s|%s.%s' % (short, (sm.stmt.table or '').lower(), col.lower()), txt))
        for f, node, g, args, pidx in self.calls:
            for j, a in enumerate(args):
                if j >= len(g.params):
                    break
                u = self.use.get((g.key, j))
                if not u or len(u) > 1:
                    continue     # unused, or a generic helper bound against columns of several kinds
                sd = expr_domain(self.prog, self.handles, f, a)
                if not sd:
                    continue
                short = '::'.join((f.qualname or '').split('::')[-2:])
                gs = '::'.join((g.qualname or '').split('::')[-2:])
                txt = '%s passes the id of a %s handle as argument %d (%s) of %s, which binds it against %s columns' % (
                    short, sd, j + 1, g.params[j].get('name'), gs, '/'.join(sorted(u)))
                (oks if u == {sd} else finds).append((locstr(node), '%s->%s|arg %s' % (short, gs, g.params[j].get('name')), txt))
        return oks, finds


def apply_bind_rule(prog, cg, eff, chk, rid, gens=(1, 2)):
    """Report BindTyping on `chk`: one instance per statement bind / call argument whose C++ value
    is the id() of a typed handle."""
    from . import rowrules
    from .rules import c13
    cats = rowrules.version_catalogs(prog)
    supported = [en for en in rowrules.enum_order(prog) if en in set(c13._supported(prog))]
    vs = []
    for g in gens:
        gv = [en for en in supported if (2 if rowrules._gen2(en) else 1) == g]
        if gv:
            vs += [gv[0], gv[-1]] if len(gv) > 1 else gv
    bt = BindTyping(prog, cg, eff, cats, vs)
    oks, finds = bt.judge()
    for loc, key, txt in oks:
        chk.ok(rid, txt, loc)
    for loc, key, txt in finds:
        chk.violation(rid, key, loc, txt + ': an identifier of one kind of row is used where another kind is '
                      'expected, so the statement matches the wrong rows or none')
    return len(oks) + len(finds)


_NARROW = ('int', 'unsigned int', 'unsigned', 'int32_t', 'uint32_t', 'short', 'unsigned short', 'int16_t', 'uint16_t',
           'char', 'signed char', 'unsigned char', 'int8_t', 'uint8_t', 'float')


def _int_width_ok(t):
    """True / False for an integral (or optional integral) type string, None when not integral."""
    import re as _re
    x = _re.sub(r'\bconst\b|&|\bstd::|\s+', ' ', t or '').strip()
    x = _re.sub(r'\s+', ' ', x)
    m = _re.match(r'^optional<\s*(.*?)\s*>$', x)
    if m:
        x = m.group(1).strip()
    if x in ('int64_t', 'long', 'long long', 'uint64_t', 'unsigned long', 'unsigned long long', 'sqlite3_int64',
             'sqlite_int64', 'long int', 'long long int'):
        return True
    if x in _NARROW:
        return False
    return None


def apply_width_rule(prog, cg, eff, chk, rid, gens=(1, 2)):
    """Row identifiers are SQLite INTEGERs (64 bit).  Every C++ declaration an identifier passes
    through on its way between a column and a handle must be 64 bits wide: constructor parameters
    and id() of the handle / impl classes, parameters bound against identifier columns (directly
    or through callees), lambda parameters that receive identifier columns.  (A narrower parameter
    truncates silently, e.g. inside make_shared's forwarding, with no cast in the source.)"""
    from . import rowrules
    from .program import locstr
    from .rules import c13
    cats = rowrules.version_catalogs(prog)
    supported = [en for en in rowrules.enum_order(prog) if en in set(c13._supported(prog))]
    vs = []
    for g in gens:
        gv = [en for en in supported if (2 if rowrules._gen2(en) else 1) == g]
        if gv:
            vs += [gv[0], gv[-1]] if len(gv) > 1 else gv
    bt = BindTyping(prog, cg, eff, cats, vs)
    n = 0

    def judge(t, what, loc, key):
        nonlocal n
        ok = _int_width_ok(t)
        if ok is None:
            return
        n += 1
        if ok:
            chk.ok(rid, '%s is %s' % (what, t), loc)
        else:
            chk.violation(rid, key, loc, '%s has type %s: a row identifier (64-bit INTEGER) is truncated when it '
                          'passes through, so the handle or statement refers to another row' % (what, t))
    byk = {f.key: f for f in bt.funcs}
    for (fk, i), doms in sorted(bt.use.items(), key=lambda kv: str(kv[0])):
        f = byk.get(fk)
        if f is None or i >= len(f.params):
            continue
        short = '::'.join((f.qualname or '').split('::')[-2:])
        p = f.params[i]
        judge(p.get('type') or '', 'parameter %s of %s (bound against %s columns)' % (p.get('name'), short, '/'.join(sorted(doms))),
              locstr(f.node), '%s|param %s' % (short, p.get('name')))
    # handle / impl classes: constructor parameters and id()
    for r in prog.records.values():
        if not prog.in_repo(getattr(r, 'file', '') or ''):
            continue
        hd = _handle_domain(prog, bt.handles, r.qualname)
        if not hd:
            continue
        for f in prog.functions.values():
            if f.cls != r.qualname or f.is_pattern:
                continue
            short = '::'.join((f.qualname or '').split('::')[-2:])
            if f.kind == 'CXXConstructorDecl':
                for p in f.params:
                    judge(p.get('type') or '', 'constructor parameter %s of %s (a %s handle)' % (p.get('name'), short, hd),
                          locstr(f.node), '%s|ctor param %s' % (short, p.get('name')))
            elif f.name == 'id' and not f.params:
                judge(f.ret or '', 'return type of %s' % short, locstr(f.node), '%s|id()' % short)
    # lambda parameters that receive identifier columns
    for sm in bt.maps:
        if sm.stmt.kind != 'select' or sm.site.sink is None:
            continue
        f = sm.site.func
        from .program import children, strip, walk
        ptypes = []
        for x in walk(strip(sm.site.sink)):
            if x.get('kind') == 'CXXMethodDecl' and x.get('name') == 'operator()':
                ptypes = [(p.get('name'), p.get('type') or '') for p in children(x) if p.get('kind') == 'ParmVarDecl']
                break
        t = sm.stmt.table
        for i, (text, col, tgt) in enumerate(sm.out):
            if not col or i >= len(ptypes) or not t:
                continue
            cd = bt._coldom(f, t, col)
            if not cd:
                continue
            short = '::'.join((f.qualname or '').split('::')[-2:])
            judge(ptypes[i][1], 'lambda parameter %s of %s receiving %s.%s (%s)' % (ptypes[i][0], short, t, col, '/'.join(sorted(cd))),
                  locstr(sm.site.node), '%s|sink %s.%s' % (short, t.lower(), col.lower()))
    return n
