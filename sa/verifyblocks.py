"""Extraction of the hand-written expectation blocks of the verify_* functions.

A block is a compound statement that constructs one of the four list types of
schema_validate_utils.hpp, takes begin()/end(), and then alternates
validate(iter, end, ...) / ++iter, ending in validate_no_more(iter, end)."""
from .frontend import AnalysisBroken
from .program import children, strip, walk, locstr, decode_string_literal
from . import schemas

LIST_TYPES = {'table_info', 'index_list', 'index_info', 'master_list'}


class Block:
    __slots__ = ('kind', 'db_name', 'target', 'entries', 'problems', 'loc', 'func',
                 'entry_locs', 'terminated')

    def __repr__(self):
        return '<Block %s %s.%s %d entries>' % (self.kind, self.db_name, self.target, len(self.entries))


def _lit(n, env):
    """Literal value of an argument expression (string / int), resolving
    references to parameters through env."""
    x = strip(n, explicit=True)
    k = x.get('kind')
    if k == 'StringLiteral':
        return decode_string_literal(x.get('value'))
    if k == 'IntegerLiteral':
        return int(x['value'])
    if k == 'UnaryOperator' and x.get('opcode') == '-':
        v = _lit(children(x)[0], env)
        return -v if isinstance(v, int) else None
    if k in ('CXXConstructExpr', 'CXXTemporaryObjectExpr'):
        c = [y for y in children(x) if y.get('kind') != 'CXXDefaultArgExpr']
        if len(c) == 1:
            return _lit(c[0], env)
        return None
    if k == 'DeclRefExpr':
        rid = (x.get('referencedDecl') or {}).get('id')
        if rid in env:
            return env[rid]
    return None


def _list_type(t):
    if not t:
        return None
    t = t.replace('const ', '').strip()
    for lt in LIST_TYPES:
        if t.endswith('::' + lt) or t == lt:
            return lt
    return None


def extract_blocks(func, env):
    """Blocks in one function body (env: ParmVarDecl id -> literal)."""
    out = []
    for comp in walk(func.body):
        if comp.get('kind') != 'CompoundStmt':
            continue
        stmts = children(comp)
        if not stmts or stmts[0].get('kind') != 'DeclStmt':
            continue
        vd = [d for d in children(stmts[0]) if d.get('kind') == 'VarDecl']
        if len(vd) != 1:
            continue
        lt = _list_type(vd[0].get('type'))
        if lt is None:
            continue
        out.append(_block(func, comp, stmts, vd[0], lt, env))
    return out


def _block(func, comp, stmts, listvar, lt, env):
    b = Block()
    b.kind = lt
    b.func = func
    b.loc = locstr(comp)
    b.problems = []
    b.entries = []
    b.entry_locs = []
    b.terminated = False
    ctor = None
    for x in walk(listvar):
        if x.get('kind') == 'CXXConstructExpr' and _list_type(x.get('type')) == lt:
            ctor = x
            break
    if ctor is None:
        raise AnalysisBroken('%s: cannot read constructor of %s' % (b.loc, lt))
    args = [_lit(a, env) for a in children(ctor)[1:]]
    if any(a is None for a in args):
        raise AnalysisBroken('%s: non-literal argument to %s constructor' % (b.loc, lt))
    if len(args) == 2:
        b.db_name, b.target = args
    elif len(args) == 1:
        b.db_name, b.target = None, args[0]
    else:
        raise AnalysisBroken('%s: unexpected constructor arity for %s' % (b.loc, lt))
    # iterators
    it_id = end_id = None
    idx = 1
    if len(stmts) > 1 and stmts[1].get('kind') == 'DeclStmt':
        for d in children(stmts[1]):
            if d.get('kind') != 'VarDecl':
                continue
            call = [x for x in walk(d) if x.get('kind') == 'MemberExpr' and x.get('name') in ('begin', 'end', 'cbegin', 'cend')]
            if not call:
                continue
            recv = strip(children(call[0])[0])
            if (recv.get('referencedDecl') or {}).get('id') != listvar['id']:
                b.problems.append('iterator taken from another container')
            if call[0]['name'] in ('begin', 'cbegin'):
                it_id = d['id']
            else:
                end_id = d['id']
        idx = 2
    if it_id is None or end_id is None:
        b.problems.append('begin()/end() iterators not declared after the list')
        return b
    # typestate: (validate ; ++iter)* ; validate_no_more
    state = 'expect_validate'   # or 'expect_inc'
    for s in stmts[idx:]:
        x = strip(s)
        k = x.get('kind')
        if b.terminated:
            b.problems.append('statement after validate_no_more at %s' % locstr(s))
            continue
        if k == 'CallExpr':
            callee = strip(children(x)[0])
            nm = (callee.get('referencedDecl') or {}).get('name')
            a = children(x)[1:]
            ids = [_ref_id(y) for y in a[:2]]
            if nm == 'validate':
                if ids != [it_id, end_id]:
                    b.problems.append('validate at %s is not called with (iter, end) of this block' % locstr(s))
                if state != 'expect_validate':
                    b.problems.append('validate at %s without ++iter since the previous one' % locstr(s))
                vals = [_lit(y, env) for y in a[2:]]
                if any(v is None for v in vals):
                    raise AnalysisBroken('%s: non-literal expectation' % locstr(s))
                b.entries.append(tuple(vals))
                b.entry_locs.append(locstr(s))
                state = 'expect_inc'
                continue
            if nm == 'validate_no_more':
                if ids != [it_id, end_id]:
                    b.problems.append('validate_no_more at %s is not called with (iter, end) of this block' % locstr(s))
                if state == 'expect_inc':
                    b.problems.append('validate_no_more at %s without ++iter after the last validate' % locstr(s))
                b.terminated = True
                continue
            b.problems.append('unexpected call %s at %s' % (nm, locstr(s)))
            continue
        if k == 'CXXOperatorCallExpr':
            callee = strip(children(x)[0])
            nm = (callee.get('referencedDecl') or {}).get('name')
            tgt = _ref_id(children(x)[1]) if len(children(x)) > 1 else None
            if nm == 'operator++' and tgt == it_id:
                if state != 'expect_inc':
                    b.problems.append('++iter at %s without a validate before it (an entry is skipped unchecked)' % locstr(s))
                state = 'expect_validate'
                continue
        b.problems.append('unexpected statement %s at %s' % (k, locstr(s)))
    if not b.terminated:
        b.problems.append('block is not terminated by validate_no_more(iter, end)')
    return b


def _ref_id(n):
    x = strip(n, explicit=True)
    while x.get('kind') in ('CXXConstructExpr',) and len(children(x)) == 1:
        x = strip(children(x)[0], explicit=True)
    return (x.get('referencedDecl') or {}).get('id')


def verify_trace(prog, cls):
    """All blocks reachable from the final overrider of cls::verify, with
    helper parameters (db_name) bound to the literals at the call sites."""
    out = []
    seen_calls = []

    def run(func, env, depth):
        if depth > 6:
            raise AnalysisBroken('verify call depth exceeded at ' + func.qualname)
        out.extend(extract_blocks(func, env))
        for n in walk(func.body):
            if n.get('kind') != 'CXXMemberCallExpr':
                continue
            callee = strip(children(n)[0])
            if callee.get('kind') != 'MemberExpr':
                continue
            recv = strip(children(callee)[0]) if children(callee) else None
            if recv is None or recv.get('kind') != 'CXXThisExpr':
                continue
            name = callee.get('name')
            target = schemas.resolve_this_call(prog, cls, func, callee)
            if target is None:
                raise AnalysisBroken('cannot resolve %s from %s' % (name, func.qualname))
            args = children(n)[1:]
            env2 = {}
            for p, a in zip(target.params, args):
                v = _lit(a, env)
                if v is not None:
                    env2[p['id']] = v
            seen_calls.append((func.qualname, target.qualname))
            run(target, env2, depth + 1)

    f = schemas.final_overrider(prog, cls, 'verify')
    if f is None:
        raise AnalysisBroken('no verify for ' + cls)
    run(f, {}, 0)
    return out
