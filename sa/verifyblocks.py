"""Expectation blocks of the verify_* functions, read by executing them.

A block is one object of the four list types of schema_validate_utils.hpp together with what
is done to it: begin()/end() taken, then validate(iter, end, ...) / ++iter alternating, ending
in validate_no_more(iter, end).  The validator code is interpreted concretely (all its data are
literals): calls into repository helpers and local lambdas are entered with the arguments bound
to the parameters (the list object or the iterators may be made on either side of the call),
loops over constant arrays / initializer lists / index ranges are unrolled, counters counted.
What the interpreter does not understand and touches a list or an iterator is a problem of
that block (V1), as any statement between the parts of a block was before."""
from .frontend import AnalysisBroken
from .program import children, strip, walk, locstr, decode_string_literal
from . import schemas

LIST_TYPES = {'table_info', 'index_list', 'index_info', 'master_list'}


class Block:
    __slots__ = ('kind', 'db_name', 'target', 'entries', 'problems', 'loc', 'func',
                 'entry_locs', 'terminated')

    def __repr__(self):
        return '<Block %s %s.%s %d entries>' % (self.kind, self.db_name, self.target, len(self.entries))


def _lit(n, env):
    """Literal value of an argument expression (string / int), resolving
    references to parameters through env."""
    x = strip(n, explicit=True)
    k = x.get('kind')
    if k == 'StringLiteral':
        return decode_string_literal(x.get('value'))
    if k == 'IntegerLiteral':
        return int(x['value'])
    if k == 'UnaryOperator' and x.get('opcode') == '-':
        v = _lit(children(x)[0], env)
        return -v if isinstance(v, int) else None
    if k in ('CXXConstructExpr', 'CXXTemporaryObjectExpr'):
        c = [y for y in children(x) if y.get('kind') != 'CXXDefaultArgExpr']
        if len(c) == 1:
            return _lit(c[0], env)
        return None
    if k == 'DeclRefExpr':
        rid = (x.get('referencedDecl') or {}).get('id')
        if rid in env:
            return env[rid]
    return None


def _list_type(t):
    if not t:
        return None
    t = t.replace('const ', '').strip()
    for lt in LIST_TYPES:
        if t.endswith('::' + lt) or t == lt:
            return lt
    return None



class ListObj:
    """One list object (master_list / table_info / index_list / index_info) during interpretation."""

    def __init__(self, block):
        self.block = block
        self.state = 'expect_validate'
        self.begun = False
        self.ended = False


class Iter:
    def __init__(self, obj, end):
        self.obj = obj
        self.end = end


class Lambda:
    def __init__(self, node, env):
        self.node = node
        self.env = env


class _Return(Exception):
    pass


UNKNOWN = None
MAXITER = 2000


class Interp:
    def __init__(self, prog, cls):
        self.prog = prog
        self.cls = cls
        self.blocks = []
        self.objs = []
        self.depth = 0

    # ---- values ---------------------------------------------------------
    def ev(self, func, n, env):
        x = strip(n, explicit=True)
        k = x.get('kind')
        if k == 'StringLiteral':
            return decode_string_literal(x.get('value'))
        if k == 'IntegerLiteral':
            return int(x['value'])
        if k == 'CXXBoolLiteralExpr':
            return bool(x.get('value'))
        if k == 'UnaryOperator':
            op = x.get('opcode')
            if op == '-':
                v = self.ev(func, children(x)[0], env)
                return -v if isinstance(v, int) and not isinstance(v, bool) else UNKNOWN
            if op == '*':
                return self.ev(func, children(x)[0], env)
            if op in ('++', '--'):
                t = strip(children(x)[0], explicit=True)
                rid = (t.get('referencedDecl') or {}).get('id')
                old = self.lookup(func, rid, env)
                if isinstance(old, int) and not isinstance(old, bool):
                    new = old + (1 if op == '++' else -1)
                    self.assign(rid, env, new)
                    return old if x.get('isPostfix') else new
                return UNKNOWN
            return UNKNOWN
        if k in ('CXXConstructExpr', 'CXXTemporaryObjectExpr', 'CXXStdInitializerListExpr',
                 'CXXFunctionalCastExpr', 'CXXBindTemporaryExpr', 'MaterializeTemporaryExpr', 'ConstantExpr'):
            c = [y for y in children(x) if y.get('kind') != 'CXXDefaultArgExpr']
            if len(c) == 1:
                return self.ev(func, c[0], env)
            if k in ('CXXConstructExpr', 'CXXTemporaryObjectExpr') and len(c) > 1:
                # std::pair<a, b>{x, y} and the like: positional aggregate
                return [self.ev(func, y, env) for y in c]
            return UNKNOWN
        if k == 'InitListExpr':
            c = [y for y in children(x) if y.get('kind') != 'CXXDefaultArgExpr']
            vals = [self.ev(func, y, env) for y in c]
            t = x.get('type') or ''
            if len(vals) == 1 and isinstance(vals[0], list) and ('array<' in t or 'initializer_list' in t):
                return vals[0]          # std::array: the aggregate around the built-in array
            return vals
        if k == 'DeclRefExpr':
            return self.lookup(func, (x.get('referencedDecl') or {}).get('id'), env)
        if k == 'LambdaExpr':
            return Lambda(x, env)
        if k == 'CXXOperatorCallExpr' and len(children(x)) == 3 and \
                (strip(children(x)[0]).get('referencedDecl') or {}).get('name') == 'operator+':
            # "index_Track_" + col_name: the name of the object a data-driven block inspects
            a_, b_ = self.ev(func, children(x)[1], env), self.ev(func, children(x)[2], env)
            if isinstance(a_, str) and isinstance(b_, str):
                return a_ + b_
        if k == 'ArraySubscriptExpr':
            c = children(x)
            a, i = self.ev(func, c[0], env), self.ev(func, c[1], env)
            if isinstance(a, list) and isinstance(i, int) and 0 <= i < len(a):
                return a[i]
            return UNKNOWN
        if k == 'MemberExpr':
            base = self.ev(func, children(x)[0], env) if children(x) else UNKNOWN
            if isinstance(base, list):
                nm = x.get('name')
                if nm == 'first' and len(base) == 2:
                    return base[0]
                if nm == 'second' and len(base) == 2:
                    return base[1]
                idx = self.field_index(func, x)
                if idx is not None and idx < len(base):
                    return base[idx]
            return UNKNOWN
        if k == 'CXXMemberCallExpr':
            callee = strip(children(x)[0])
            nm = callee.get('name')
            recv = self.ev(func, children(callee)[0], env) if children(callee) else UNKNOWN
            if isinstance(recv, ListObj) and nm in ('begin', 'cbegin', 'end', 'cend'):
                if nm in ('begin', 'cbegin'):
                    recv.begun = True
                else:
                    recv.ended = True
                return Iter(recv, nm in ('end', 'cend'))
            if isinstance(recv, list):
                if nm == 'size':
                    return len(recv)
                if nm in ('at',) and len(children(x)) == 2:
                    i = self.ev(func, children(x)[1], env)
                    return recv[i] if isinstance(i, int) and 0 <= i < len(recv) else UNKNOWN
                if nm in ('begin', 'cbegin', 'end', 'cend', 'data'):
                    return UNKNOWN
            if isinstance(recv, str) and nm in ('c_str', 'data') or (nm or '').startswith('operator'):
                return recv
            return UNKNOWN
        if k == 'CXXOperatorCallExpr':
            c = children(x)
            nm = (strip(c[0]).get('referencedDecl') or {}).get('name')
            if nm == 'operator[]' and len(c) == 3:
                a, i = self.ev(func, c[1], env), self.ev(func, c[2], env)
                if isinstance(a, list) and isinstance(i, int) and 0 <= i < len(a):
                    return a[i]
            if nm == 'operator*' and len(c) == 2:
                return self.ev(func, c[1], env)
            return UNKNOWN
        if k == 'BinaryOperator':
            c = children(x)
            op = x.get('opcode')
            a, b = self.ev(func, c[0], env), self.ev(func, c[1], env)
            if isinstance(a, int) and isinstance(b, int):
                try:
                    return {'<': a < b, '<=': a <= b, '>': a > b, '>=': a >= b, '==': a == b, '!=': a != b,
                            '+': a + b, '-': a - b, '*': a * b}.get(op, UNKNOWN)
                except Exception:
                    return UNKNOWN
            return UNKNOWN
        if k == 'CallExpr':
            nm = (strip(children(x)[0]).get('referencedDecl') or {}).get('name')
            if nm in ('size', 'ssize') and len(children(x)) == 2:
                a = self.ev(func, children(x)[1], env)
                return len(a) if isinstance(a, list) else UNKNOWN
            if nm in ('move', 'forward', 'as_const') and len(children(x)) == 2:
                return self.ev(func, children(x)[1], env)
        return UNKNOWN

    def field_index(self, func, member_expr):
        d = func.tu.ids.get(member_expr.get('referencedMemberDecl'))
        if d is None or d.get('kind') != 'FieldDecl':
            return None
        pid = d.get('_semctx') or func.tu.parent_ctx.get(d['id'])
        rec = func.tu.ids.get(pid)
        if rec is None:
            return None
        fields = [c for c in children(rec) if c.get('kind') == 'FieldDecl']
        for i, f_ in enumerate(fields):
            if f_.get('id') == d.get('id'):
                return i
        return None

    def lookup(self, func, rid, env):
        e = env
        while e is not None:
            if rid in e:
                return e[rid]
            e = e.get('__parent__')
        # a constant at namespace / class scope
        d = func.tu.ids.get(rid)
        if d is not None and d.get('kind') == 'VarDecl':
            c = [y for y in children(d) if not y['kind'].endswith('Attr') and not y['kind'].endswith('Comment')]
            if c:
                return self.ev(func, c[-1], {})
        return UNKNOWN

    def assign(self, rid, env, val):
        e = env
        while e is not None:
            if rid in e:
                e[rid] = val
                return
            e = e.get('__parent__')
        env[rid] = val

    # ---- events ------------------------------------------------------------
    def new_list(self, func, vd, lt, env):
        b = Block()
        b.kind = lt
        b.func = func
        b.loc = locstr(vd)
        b.problems = []
        b.entries = []
        b.entry_locs = []
        b.terminated = False
        ctor = None
        for x in walk(vd):
            if x.get('kind') in ('CXXConstructExpr', 'CXXTemporaryObjectExpr', 'InitListExpr') and \
                    _list_type(x.get('type')) == lt:
                ctor = x
                break
        if ctor is None:
            raise AnalysisBroken('%s: cannot read constructor of %s' % (b.loc, lt))
        args = [self.ev(func, a, env) for a in children(ctor)[1:]]
        if any(not isinstance(a, str) for a in args):
            raise AnalysisBroken('%s: non-literal argument to %s constructor' % (b.loc, lt))
        if len(args) == 2:
            b.db_name, b.target = args
        elif len(args) == 1:
            b.db_name, b.target = None, args[0]
        else:
            raise AnalysisBroken('%s: unexpected constructor arity for %s' % (b.loc, lt))
        o = ListObj(b)
        self.blocks.append(b)
        self.objs.append(o)
        return o

    def touched(self, func, node, env):
        """list objects that a piece of code refers to (directly or through an iterator)"""
        out = []
        for x in walk(node):
            if x.get('kind') == 'DeclRefExpr':
                v = self.lookup_quiet(func, (x.get('referencedDecl') or {}).get('id'), env)
                o = v.obj if isinstance(v, Iter) else v if isinstance(v, ListObj) else None
                if o is not None and o not in out:
                    out.append(o)
        return out

    def lookup_quiet(self, func, rid, env):
        e = env
        while e is not None:
            if rid in e:
                return e[rid]
            e = e.get('__parent__')
        return UNKNOWN

    def unexpected(self, func, s, env, what=None):
        for o in self.touched(func, s, env):
            o.block.problems.append('%s at %s' % (what or ('unexpected statement %s' % strip(s).get('kind')), locstr(s)))

    def validate_call(self, func, s, x, nm, env):
        a = children(x)[1:]
        its = [self.ev(func, y, env) for y in a[:2]]
        objs = [v.obj for v in its if isinstance(v, Iter)]
        if not objs:
            raise AnalysisBroken('%s: %s is not called on iterators of a list the validator made' % (locstr(s), nm))
        o = objs[0]
        b = o.block
        good = len(its) == 2 and isinstance(its[0], Iter) and isinstance(its[1], Iter) and \
            its[0].obj is its[1].obj and not its[0].end and its[1].end
        if b.terminated:
            b.problems.append('statement after validate_no_more at %s' % locstr(s))
            return
        if nm == 'validate':
            if not good:
                b.problems.append('validate at %s is not called with (iter, end) of this block' % locstr(s))
            if o.state != 'expect_validate':
                b.problems.append('validate at %s without ++iter since the previous one' % locstr(s))
            vals = [self.ev(func, y, env) for y in a[2:]]
            if any(v is None or isinstance(v, (list, Iter, ListObj, Lambda)) for v in vals):
                raise AnalysisBroken('%s: non-literal expectation' % locstr(s))
            b.entries.append(tuple(vals))
            b.entry_locs.append(locstr(s))
            o.state = 'expect_inc'
            return
        if not good:
            b.problems.append('validate_no_more at %s is not called with (iter, end) of this block' % locstr(s))
        if o.state == 'expect_inc':
            b.problems.append('validate_no_more at %s without ++iter after the last validate' % locstr(s))
        b.terminated = True

    def advance(self, it, s):
        b = it.obj.block
        if b.terminated:
            b.problems.append('statement after validate_no_more at %s' % locstr(s))
            return
        if it.end:
            b.problems.append('unexpected statement: the end iterator is advanced at %s' % locstr(s))
            return
        if it.obj.state != 'expect_inc':
            b.problems.append('++iter at %s without a validate before it (an entry is skipped unchecked)' % locstr(s))
        it.obj.state = 'expect_validate'

    # ---- statements --------------------------------------------------------
    def run_body(self, func, body, env):
        self.depth += 1
        if self.depth > 12:
            raise AnalysisBroken('verify call depth exceeded at ' + func.qualname)
        try:
            self.stmt(func, body, env)
        except _Return:
            pass
        self.depth -= 1

    def stmt(self, func, s, env):
        k = s.get('kind')
        if k == 'CompoundStmt':
            for c in children(s):
                self.stmt(func, c, env)
            return
        if k == 'NullStmt':
            return
        if k == 'DeclStmt':
            for d in children(s):
                if d.get('kind') == 'VarDecl':
                    self.decl(func, d, env)
                elif d.get('kind') == 'DecompositionDecl':
                    self.decomp(func, d, env)
            return
        if k == 'ReturnStmt':
            if children(s):
                self.expr(func, children(s)[0], env, s)
            raise _Return()
        if k == 'CXXForRangeStmt':
            c = children(s)
            decls = [x for x in c[:-1] if x.get('kind') == 'DeclStmt']
            rng = loopvar = None
            for dst in decls:
                for vd in children(dst):
                    if vd.get('kind') in ('VarDecl', 'DecompositionDecl') and (vd.get('name') or '').startswith('__range'):
                        rng = vd
            if decls:
                lv = [vd for vd in children(decls[-1]) if vd.get('kind') in ('VarDecl', 'DecompositionDecl')]
                loopvar = lv[0] if lv else None
            seq = UNKNOWN
            if rng is not None:
                init = [y for y in children(rng) if not y['kind'].endswith('Attr')]
                seq = self.ev(func, init[-1], env) if init else UNKNOWN
            if not isinstance(seq, list) or loopvar is None:
                self.unexpected(func, s, env, 'loop over a sequence that is not a constant list')
                return
            for el in seq[:MAXITER]:
                if loopvar.get('kind') == 'DecompositionDecl':
                    self.decomp(func, loopvar, env, el)
                else:
                    env[loopvar['id']] = el
                self.stmt(func, c[-1], env)
            return
        if k == 'ForStmt':
            c = s.get('inner') or []
            # [init, condvar, cond, inc, body]
            if len(c) != 5:
                self.unexpected(func, s, env)
                return
            init, _, cond, inc, body = c
            if isinstance(init, dict) and init.get('kind'):
                self.stmt(func, init, env)
            n = 0
            while True:
                v = self.ev(func, cond, env) if isinstance(cond, dict) and cond.get('kind') else UNKNOWN
                if not isinstance(v, bool):
                    self.unexpected(func, s, env, 'loop whose condition is not decided by constants')
                    return
                if not v:
                    return
                n += 1
                if n > MAXITER:
                    raise AnalysisBroken('%s: loop does not end' % locstr(s))
                self.stmt(func, body, env)
                if isinstance(inc, dict) and inc.get('kind'):
                    self.expr(func, inc, env, inc)
        if k == 'CXXTryStmt':
            # the handlers run only when something throws: the expectations are those of the body
            self.stmt(func, children(s)[0], env)
            return
        if k in ('IfStmt', 'WhileStmt', 'DoStmt', 'SwitchStmt', 'BreakStmt', 'ContinueStmt', 'GotoStmt'):
            self.unexpected(func, s, env)
            # control flow that is not executed here must not hide a way out of the validator or a block
            for y in walk(s):
                if y.get('kind') == 'ReturnStmt' or (y.get('kind') == 'VarDecl' and _list_type(y.get('type'))) or \
                        (y.get('kind') == 'CallExpr' and (strip(children(y)[0]).get('referencedDecl') or {}).get('name')
                         in ('validate', 'validate_no_more')):
                    if not self.touched(func, s, env):
                        raise AnalysisBroken('%s: %s in a validator decides whether expectations are checked: '
                                             'outside the modelled subset' % (locstr(s), k))
            if k in ('BreakStmt', 'ContinueStmt'):
                for o in self.objs:
                    if not o.block.terminated:
                        o.block.problems.append('unexpected statement %s at %s' % (k, locstr(s)))
            return
        self.expr(func, s, env, s)

    def decl(self, func, d, env):
        lt = _list_type(d.get('type'))
        t = (d.get('type') or '')
        if lt is not None and not t.rstrip().endswith(('&', '*')):
            env[d['id']] = self.new_list(func, d, lt, env)
            return
        init = [y for y in children(d) if not y['kind'].endswith('Attr') and not y['kind'].endswith('Comment')]
        if not init:
            env[d['id']] = UNKNOWN
            return
        v = self.ev(func, init[-1], env)
        if isinstance(v, Iter):
            v = Iter(v.obj, v.end)      # a copy is an iterator of its own position: not modelled apart
        if v is UNKNOWN and self.touched(func, init[-1], env):
            self.unexpected(func, d, env, 'unexpected use of the list / its iterators in a declaration')
        env[d['id']] = v

    def decomp(self, func, d, env, value=UNKNOWN):
        binds = [b for b in children(d) if b.get('kind') == 'BindingDecl']
        if value is UNKNOWN:
            init = [y for y in children(d) if y.get('kind') not in ('BindingDecl',) and not y['kind'].endswith('Attr')]
            value = self.ev(func, init[-1], env) if init else UNKNOWN
        for i, b in enumerate(binds):
            env[b['id']] = value[i] if isinstance(value, list) and i < len(value) else UNKNOWN

    def expr(self, func, s, env, stmt_node):
        x = strip(s)
        k = x.get('kind')
        if k == 'CallExpr':
            callee = strip(children(x)[0])
            ref = callee.get('referencedDecl') or {}
            nm = ref.get('name')
            qn = func.tu.qn.get(ref.get('id')) or ''
            if nm in ('validate', 'validate_no_more') and qn.startswith(schemas.NS):
                self.validate_call(func, stmt_node, x, nm, env)
                return
            target = schemas._repo_callee(self.prog, func, x)
            if target is not None:
                self.enter(func, target, target.params, children(x)[1:], env, None, target.body)
                return
            self.unexpected(func, stmt_node, env, 'unexpected call %s' % nm)
            return
        if k == 'CXXMemberCallExpr':
            callee = strip(children(x)[0])
            recv = strip(children(callee)[0]) if callee.get('kind') == 'MemberExpr' and children(callee) else None
            if recv is not None and recv.get('kind') == 'CXXThisExpr':
                target = schemas.resolve_this_call(self.prog, self.cls, func, callee)
                if target is None:
                    raise AnalysisBroken('cannot resolve %s from %s' % (callee.get('name'), func.qualname))
                self.enter(func, target, target.params, children(x)[1:], env, None, target.body)
                return
            self.unexpected(func, stmt_node, env)
            return
        if k == 'CXXOperatorCallExpr':
            c = children(x)
            nm = (strip(c[0]).get('referencedDecl') or {}).get('name')
            if nm in ('operator++',) and len(c) >= 2:
                v = self.ev(func, c[1], env)
                if isinstance(v, Iter):
                    self.advance(v, stmt_node)
                    return
            if nm == 'operator()' and len(c) >= 2:
                v = self.ev(func, c[1], env)
                if isinstance(v, Lambda):
                    lam = v.node
                    meth = [m for r in children(lam) if r.get('kind') == 'CXXRecordDecl'
                            for m in children(r) if m.get('kind') == 'CXXMethodDecl' and m.get('name') == 'operator()']
                    body = [y for y in children(lam) if y.get('kind') == 'CompoundStmt']
                    if meth and body:
                        params = [p_ for p_ in children(meth[0]) if p_.get('kind') == 'ParmVarDecl']
                        self.enter(func, func, params, c[2:], env, v.env, body[-1])
                        return
            self.unexpected(func, stmt_node, env)
            return
        if k == 'UnaryOperator' and x.get('opcode') in ('++', '--'):
            t = strip(children(x)[0], explicit=True)
            v = self.ev(func, t, env)
            if isinstance(v, Iter):
                if x.get('opcode') == '++':
                    self.advance(v, stmt_node)
                else:
                    self.unexpected(func, stmt_node, env)
                return
            if self.ev(func, x, env) is UNKNOWN:
                self.assign((t.get('referencedDecl') or {}).get('id'), env, UNKNOWN)
            return
        if k in ('BinaryOperator', 'CompoundAssignOperator') and (x.get('opcode') or '').endswith('=') and \
                x.get('opcode') not in ('==', '!=', '<=', '>='):
            c = children(x)
            t = strip(c[0], explicit=True)
            rid = (t.get('referencedDecl') or {}).get('id')
            if self.touched(func, x, env):
                self.unexpected(func, stmt_node, env)
                return
            r = self.ev(func, c[1], env)
            if x['opcode'] == '=':
                self.assign(rid, env, r)
            else:
                old = self.lookup_quiet(func, rid, env)
                op = x['opcode'][:-1]
                if isinstance(old, int) and isinstance(r, int) and op in ('+', '-'):
                    self.assign(rid, env, old + r if op == '+' else old - r)
                else:
                    self.assign(rid, env, UNKNOWN)
            return
        self.unexpected(func, stmt_node, env)

    def enter(self, func, target, params, args, env, lam_env, body):
        env2 = {'__parent__': lam_env} if lam_env is not None else {}
        for p_, a in zip(params, args):
            v = self.ev(func, a, env)
            if isinstance(a, dict) and a.get('kind') == 'CXXDefaultArgExpr':
                v = UNKNOWN
            env2[p_['id']] = v
        self.run_body(target, body, env2)


def verify_trace(prog, cls):
    """All blocks reachable from the final overrider of cls::verify, in execution order."""
    f = schemas.final_overrider(prog, cls, 'verify')
    if f is None:
        raise AnalysisBroken('no verify for ' + cls)
    it = Interp(prog, cls)
    it.run_body(f, f.body, {})
    for o in it.objs:
        b = o.block
        if not (o.begun and o.ended):
            b.problems.append('begin()/end() iterators not declared after the list')
        elif not b.terminated:
            b.problems.append('block is not terminated by validate_no_more(iter, end)')
    return it.blocks
