"""C10  Everything observed before closing is observed after reopening (statelessness argument).

Argument: an observation is a function of the database content, because handles hold no state of
their own; content is made durable by SQLite at statement / commit boundaries (trusted); loading
attaches the files that were written, in the same roles, and detects the schema that was
created.  The rules discharge the premises that live in this code base.

N1  handles and tables are stateless: fields are ids, shared pointers to storage / library /
    context, table handles; no mutable namespace-scope or function-local static
N2  no statement targets a temporary table or the temp schema
N3  create and load open / attach the same files under the same aliases in the same order, and
    unqualified table names that exist in both attached files are resolved identically
N4  every transaction is committed on every normal path; the guard uses BEGIN / COMMIT /
    ROLLBACK (a savepoint that is never released would keep all later writes uncommitted)
N5  the version triple each creator writes is the triple detect_schema maps to that enumerator
N6  create_or_load_database: created is false on the load path and true exactly in the
    database_not_found handler, which is the only handler
"""
import re

from .. import program, callgraph, effects, atomic, rowrules, schemas, sql, feval
from ..frontend import AnalysisBroken
from ..program import children, strip, walk, locstr, norm_type_name
from ..report import Check
from . import c14, c16

NS = 'djinterop::engine::'
STATELESS = [
    'djinterop::track', 'djinterop::crate', 'djinterop::database',
    'djinterop::track_impl', 'djinterop::crate_impl', 'djinterop::database_impl',
    NS + 'v1::engine_track_impl', NS + 'v1::engine_crate_impl', NS + 'v1::engine_database_impl',
    NS + 'v2::track_impl', NS + 'v2::crate_impl', NS + 'v2::database_impl',
    NS + 'v2::track_table', NS + 'v2::playlist_table', NS + 'v2::playlist_entity_table',
    NS + 'v2::information_table', NS + 'v2::change_log_table', NS + 'v2::engine_library',
]
CONTEXT = [NS + 'v1::engine_storage', NS + 'engine_library_context']
ALLOWED_FIELD = re.compile(
    r'^(const )?(int64_t|long|std::shared_ptr<.*>|shared_ptr<.*>|'
    r'(djinterop::engine::v2::|v2::)?(track_table|playlist_table|playlist_entity_table|information_table|'
    r'change_log_table))$')
ALLOWED_CONTEXT_FIELD = re.compile(
    r'^(const )?(bool|std::string|std::basic_string<char>|sqlite::database|djinterop::engine::engine_schema|'
    r'engine_schema|std::unique_ptr<.*schema_creator_validator.*>|const std::unique_ptr<.*>)$')


def _short(q):
    return q.replace('djinterop::engine::', '').replace('djinterop::', '')


def runtime_statics(prog, chk, rid):
    """A function-local static whose initialiser depends on a parameter or on `this` is computed on
    the first call and then shared by every library opened in the process - state outside the
    database even when it is declared const.  Accepted: statics whose initialiser mentions neither
    (literals, constant expressions, calls of functions of constants)."""
    n = 0
    for f in prog.functions.values():
        if f.body is None or f.is_pattern or not prog.in_repo(f.file):
            continue
        pids = {p.get('id') for p in f.params}
        for v in walk(f.body):
            if v.get('kind') != 'VarDecl' or v.get('storageClass') != 'static':
                continue
            n += 1
            init = [x for x in children(v) if not x['kind'].endswith('Attr') and not x['kind'].endswith('Comment')]
            dyn = None
            for x in (walk(init[-1]) if init else ()):
                k = x.get('kind')
                if k == 'CXXThisExpr':
                    dyn = 'this'
                elif k == 'DeclRefExpr' and (x.get('referencedDecl') or {}).get('id') in pids:
                    dyn = 'parameter %s' % (x.get('referencedDecl') or {}).get('name')
                if dyn:
                    break
            short = '::'.join((f.qualname or '').split('::')[-2:])
            inst = 'static %s in %s is initialised without reference to a parameter or this' % (v.get('name'), short)
            if dyn and not v.get('constexpr'):
                chk.violation(rid, '%s|static %s initialised at run time' % (short, v.get('name')), locstr(v),
                              'static %s %s in %s is initialised from %s: the value is computed on the first call '
                              'and then used for every library the process opens, whatever their content' % (
                                  v.get('type'), v.get('name'), short, dyn))
            else:
                chk.ok(rid, inst, locstr(v))
    return n


def no_process_state(prog, chk, rid):
    """No state outside the database: no function-local static that is computed from a parameter / this or assigned
    after initialisation, no mutable namespace-scope variable (a process-wide memo of what was detected or read
    answers the next call from memory, not from the file)."""
    # statics
    runtime_statics(prog, chk, rid)
    n_static = 0
    for f in prog.functions.values():
        if f.body is None or f.is_pattern or '/schema/' in (f.file or ''):
            continue
        for n in walk(f.body):
            if n.get('kind') == 'VarDecl' and n.get('storageClass') == 'static':
                n_static += 1
                t = n.get('type') or ''
                if not t.startswith('const ') and not n.get('constexpr'):
                    # assigned anywhere?
                    assigned = False
                    for x in walk(f.body):
                        if x.get('kind') in ('BinaryOperator', 'CompoundAssignOperator') and (x.get('opcode') or '').endswith('=') \
                                and x.get('opcode') not in ('==', '!=', '<=', '>='):
                            l = strip(children(x)[0], explicit=True)
                            if (l.get('referencedDecl') or {}).get('id') == n.get('id'):
                                assigned = True
                        if x.get('kind') == 'CXXOperatorCallExpr' and \
                                (strip(children(x)[0]).get('referencedDecl') or {}).get('name') == 'operator=':
                            l = strip(children(x)[1], explicit=True)
                            if (l.get('referencedDecl') or {}).get('id') == n.get('id'):
                                assigned = True
                    inst = 'static %s %s in %s' % (t, n.get('name'), _short(f.qualname))
                    if assigned:
                        chk.violation(rid, '%s|mutable static %s' % (_short(f.qualname), n.get('name')), locstr(n),
                                      inst + ' is assigned after initialisation: state outside the database')
                    else:
                        chk.ok(rid, inst + ' (never assigned)', locstr(n))
    for qn, v in prog.var_nodes.items():
        loc = v.get('loc')
        if not loc or '/src/' not in loc[0]:
            continue
        t = v.get('type') or ''
        if t.startswith('const ') or v.get('constexpr'):
            continue
        ctx = qn.rsplit('::', 1)[0]
        if ctx in prog.records and v.get('storageClass') != 'static':
            continue
        chk.violation(rid, '%s|mutable global' % _short(qn), locstr(v),
                      'namespace-scope variable %s of non-const type %s: state outside the database' % (qn, t))



def handles_stateless(prog, chk, rid):
    """Handles, implementation classes and table classes hold only ids, shared pointers and table handles (no copy
    of stored data): what a getter answers is read from the database at the call."""
    for qn in STATELESS + CONTEXT:
        r = prog.records.get(qn)
        if r is None:
            raise AnalysisBroken('class %s not found' % qn)
        allowed = ALLOWED_CONTEXT_FIELD if qn in CONTEXT else ALLOWED_FIELD
        bad = []
        for fld in r.fields:
            t = (fld.get('type') or '').strip()
            if not allowed.match(t) and not allowed.match((fld.get('dtype') or '').strip()):
                bad.append((fld.get('name'), t))
        inst = '%s fields: %s' % (_short(qn), ', '.join('%s %s' % (f.get('type'), f.get('name')) for f in r.fields)[:100])
        if bad:
            chk.violation(rid, '%s|stateful field %s' % (_short(qn), bad[0][0]), locstr(r.node),
                          '%s holds a field %s of type %s: an observation could depend on cached state instead of '
                          'the database content, and would differ after reopening' % (_short(qn), bad[0][0], bad[0][1]))
        else:
            chk.ok(rid, inst, locstr(r.node))


def run(tier='quick'):
    prog = program.load()
    cg = callgraph.get(prog)
    eff = effects.Effects(prog, cg)
    chk = Check('C10', tier)
    chk.units = len(prog.tus)
    N1 = chk.rule('N1', 'handles, impl classes and table classes hold only ids, shared pointers and table handles; '
                        'storage / context hold only directory, schema, connection; no mutable static state', floor=20)
    N2 = chk.rule('N2', 'no statement creates or targets a TEMP table / the temp schema', floor=100)
    N3 = chk.rule('N3', 'the create side and the load side open / attach the same symbolic paths under the same '
                        'aliases in the same order', floor=4)
    N4 = chk.rule('N4', 'every sqlite_transaction is committed on every normally-leaving path and the guard '
                        'issues BEGIN / COMMIT / ROLLBACK (so nothing stays uncommitted when handles are released)',
                  floor=20)
    N5 = chk.rule('N5', 'each creator binds its own schema_version into Information, and the factory / detection '
                        'map that triple back to the same enumerator', floor=15)
    N6 = chk.rule('N6', 'create_or_load_database sets created = false before loading and created = true only in '
                        'the database_not_found handler, its only handler', floor=1)
    chk.assume('SQLite makes committed (and auto-committed) statements durable in the attached files; the file '
               'system returns what was written')
    chk.note('not decided: durability inside SQLite / the file system; equality of observations is derived from '
             'statelessness, not measured')

    # ---- N1 ------------------------------------------------------------------------------
    handles_stateless(prog, chk, N1)
    no_process_state(prog, chk, N1)
    # ---- N2 ------------------------------------------------------------------------------
    for f in prog.functions.values():
        if f.body is None or f.is_pattern:
            continue
        for s in eff.sites(f):
            st = s.stored_in
            if st is None:
                continue
            txt = st.text().lower()
            temp = re.search(r'\bcreate\s+(temp|temporary)\b', txt) or re.search(r'\btemp\s*\.', txt) \
                or (st.schema or '').lower() == 'temp'
            if temp:
                chk.violation(N2, '%s|temp object' % _short(f.qualname), locstr(s.node),
                              '%s issues a statement on a temporary object (%s): it does not survive the connection'
                              % (_short(f.qualname), st.text()[:80]))
            elif '/schema/' not in (f.file or ''):
                chk.ok(N2, '%s: %s %s' % (_short(f.qualname), st.kind, st.table or st.name or ''), locstr(s.node))

    # ---- N3 ------------------------------------------------------------------------------
    def opens(qn):
        fs = [f for f in prog.by_name(qn) if f.body is not None]
        if not fs:
            raise AnalysisBroken('%s not found' % qn)
        f = fs[0]
        # in execution order, through repository helpers (arguments substituted for parameters)
        return f, [(a, b, c16._show_path(sp)) for a, b, sp in c16.open_sequence(prog, cg, eff, f)]
    pairs = [(NS + 'create_legacy_sqlite_database', NS + 'load_legacy_sqlite_database'),
             (NS + 'create_database2_sqlite_database', NS + 'load_database2_sqlite_database')]
    for cq, lq in pairs:
        cf, co = opens(cq)
        lf, lo = opens(lq)
        chk.analysed(cf)
        chk.analysed(lf)
        inst = '%s / %s open %s' % (_short(cq), _short(lq), co)
        if co == lo and co:
            chk.ok(N3, inst, locstr(lf.node))
        else:
            chk.violation(N3, '%s|create/load differ' % _short(lq), locstr(lf.node),
                          'the create side opens %s but the load side opens %s: after reopening, statements '
                          '(in particular those with unqualified table names, which resolve in attach order) '
                          'address other files' % (co, lo))
    # temporary and on-disk creation use the same creator (same aliases)
    tf, to = opens(NS + 'create_temporary_legacy_sqlite_database')
    cf, co = opens(NS + 'create_legacy_sqlite_database')
    if [(a, b) for a, b, _ in to] == [(a, b) for a, b, _ in co]:
        chk.ok(N3, 'temporary and on-disk legacy creation attach the same aliases in the same order', locstr(tf.node))
    else:
        chk.violation(N3, 'create_temporary_legacy_sqlite_database|aliases', locstr(tf.node),
                      'temporary creation attaches %s, on-disk creation %s' % (to, co))
    # unqualified names that exist in both attached files
    order = rowrules.enum_order(prog)
    cats = rowrules.version_catalogs(prog)
    both = None
    for en, c in cats.items():
        if 'music' in c and 'perfdata' in c:
            s_ = set(c['music'].tables) & set(c['perfdata'].tables)
            both = s_ if both is None else (both | s_)
    amb = 0
    for f in prog.functions.values():
        if f.body is None or f.is_pattern or '/v1/' not in (f.file or ''):
            continue
        for s in eff.sites(f):
            st = s.stored_in
            if st is None or st.kind not in ('select', 'insert', 'update', 'delete'):
                continue
            for (sch, t, al) in (st.tables or [(st.schema, st.table, None)]):
                if t and t.lower() in (both or ()) and not sch:
                    amb += 1
                    chk.ok(N3, '%s names %s unqualified (exists in music and perfdata): resolved by attach order, '
                               'which create and load share' % (_short(f.qualname), t), locstr(s.node))
    chk.extra['unqualified_names_present_in_both_files'] = amb

    # ---- N4 ------------------------------------------------------------------------------
    an = atomic.Analyzer(prog, cg, eff)
    for f in prog.functions.values():
        if f.is_pattern or f.body is None or f.cls == atomic.TXN:
            continue
        if not any(n.get('kind') == 'VarDecl' and cg.record_of_type(n.get('type')) == atomic.TXN for n in walk(f.node)):
            continue
        exits, finds = an.run_entry(f)
        bad = [x for x in finds if x.rule == 'A2' and x.func == f.qualname]
        inst = '%s commits its transaction on every normal path' % _short(f.qualname)
        if bad:
            chk.violation(N4, '%s|not committed' % _short(f.qualname), bad[0].loc, bad[0].what)
        else:
            chk.ok(N4, inst, locstr(f.node))
    c14._guard_shape(prog, eff, chk, N4)

    # ---- N5 ------------------------------------------------------------------------------
    fm = schemas.factory_map(prog)
    from . import c13
    supported = c13._supported(prog)
    for en in supported:
        cls = fm.get(en)
        if cls is None:
            chk.violation(N5, '%s|no creator' % en, '-', 'the factory has no creator for supported schema %s' % en)
            continue
        ver = schemas.version_of_class(prog, cls)
        (tr, variant) = c13._triple(en)
        inst = '%s: creator %s writes %s' % (en, cls.split('::')[-1], ver)
        # the INSERTs into Information the creator executes (its own body, inherited bodies and helpers)
        # bind the members of *this* class's schema_version, not those of a base class
        from . import c12
        ninfo = 0
        for e in schemas.creation_trace(prog, cls):
            if e.stmt.kind == 'insert' and (e.stmt.table or '').lower() == 'information':
                ninfo += 1
                c12._check_info_insert(prog, chk, N5, cls, cls.split('::')[-1], ver, e)
        if ninfo == 0:
            chk.violation(N5, '%s|no Information row' % en, '-',
                          '%s: the creator executes no INSERT INTO Information: the library cannot be detected '
                          'after reopening' % en)
        if ver == tr:
            chk.ok(N5, inst, '-')
        else:
            chk.violation(N5, '%s|version constant' % en, '-',
                          inst + ', the enumerator stands for %s: a library created as %s is detected as another '
                          'version (or rejected) after reopening' % (tr, en))

    # ---- N6 ------------------------------------------------------------------------------
    for f in prog.by_name(NS + 'create_or_load_database'):
        if f.body is None:
            continue
        chk.analysed(f)
        created = [p for p in f.params if p.get('name') == 'created']
        if not created:
            continue
        cid = created[0]['id']
        tries = [n for n in walk(f.body) if n.get('kind') == 'CXXTryStmt']
        inst = '%s %s' % (_short(f.qualname), f.type[:60])
        if not tries and any((strip(children(x)[0]).get('referencedDecl') or {}).get('name') == 'create_or_load_database'
                             for x in walk(f.body) if x.get('kind') == 'CallExpr'):
            chk.ok(N6, inst + ' forwards to the four-argument overload', locstr(f.node))
            continue
        if len(tries) != 1:
            chk.violation(N6, 'create_or_load_database|shape', locstr(f.node), inst + ': expected one try block')
            continue
        c = children(tries[0])
        body, handlers = c[0], c[1:]

        def assigns(node):
            out = []
            for x in walk(node):
                if x.get('kind') == 'BinaryOperator' and x.get('opcode') == '=':
                    l = strip(children(x)[0], explicit=True)
                    if (l.get('referencedDecl') or {}).get('id') == cid:
                        out.append(program.literal_value(children(x)[1]))
            return out

        def calls(node):
            return [(strip(children(x)[0]).get('referencedDecl') or {}).get('name') for x in walk(node)
                    if x.get('kind') == 'CallExpr']
        problems = []
        if assigns(body) != [False] or 'load_database' not in calls(body):
            problems.append('the load path assigns created = %s and calls %s' % (assigns(body), calls(body)))
        if len(handlers) != 1:
            problems.append('%d handlers' % len(handlers))
        else:
            h = handlers[0]
            hv = [x for x in children(h) if x.get('kind') == 'VarDecl']
            ht = norm_type_name(hv[0].get('type')) if hv else '...'
            if 'database_not_found' not in (ht or ''):
                problems.append('the handler catches %s' % ht)
            if assigns(h) != [True] or 'create_database' not in calls(h):
                problems.append('the handler assigns created = %s and calls %s' % (assigns(h), calls(h)))
        if problems:
            chk.violation(N6, 'create_or_load_database|%s' % re.sub(r'[^a-z ]', '', problems[0].lower())[:40],
                          locstr(f.node), inst + ': ' + '; '.join(problems))
        else:
            chk.ok(N6, inst, locstr(f.node))
    N7 = chk.rule('N7', 'a library is created exactly when none exists: the functions that open the files of a new on-disk '
                        'library refuse when any file the load side probes or demands is already present (rule X5 of C12: '
                        'otherwise a second create leaves both layouts in the directory, load reports "not found" and '
                        'create-or-load creates over a library)', floor=2)
    c16.creators_refuse_existing(prog, cg, eff, chk, N7)
    N8 = chk.rule('N8', 'only the transaction guard class issues transaction-control statements (BEGIN / COMMIT / ROLLBACK / '
                        'SAVEPOINT / RELEASE): a hand-written SAVEPOINT ... ROLLBACK TO elsewhere leaves the transaction open '
                        'after a failure, and everything done afterwards is lost when the handles are released', floor=3)
    from . import extra as _extra
    _extra.transaction_control_only_in_guard(prog, cg, eff, chk, N8)
    return chk.finish('declarations of %d handle / table / context classes, all statement sites, symbolic paths of '
                      'the open / attach sites of the create and load sides, transaction path analysis, version '
                      'constants of the creators' % len(STATELESS + CONTEXT))
