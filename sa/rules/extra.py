"""Rules added in the fifth seeded round that are shared by several properties.  Each function takes the
Check object and a rule id of the calling property (the rule text is given by the caller)."""
import re

from .. import program, callgraph, effects, sql
from ..frontend import AnalysisBroken
from ..program import children, strip, walk, locstr

TXN = 'djinterop::util::sqlite_transaction'


def destructors_silent(prog, cg, eff, chk, rid):
    """Releasing the handles of a library is part of observing it: no user-written destructor of the repository
    (storage / context / handle implementation classes; the transaction guard excepted, whose ROLLBACK ends a
    transaction a mutator began) executes a statement with an effect on the database or writes to the file
    system - neither directly nor through what it calls.  `PRAGMA optimize`, `VACUUM`, a checkpoint or a
    clean-up DELETE in a destructor rewrites the file of a library that was only read."""
    n = 0
    for f in prog.functions.values():
        if f.kind != 'CXXDestructorDecl' or f.body is None or f.is_pattern or not prog.in_repo(f.file):
            continue
        if f.defaulted or f.cls == TXN:
            continue
        n += 1
        chk.analysed(f)
        effs, reach = eff.transitive([f])
        bad = [e for e in effs if e.cls in ('write', 'ddl', 'pragma', 'dynsql', 'fs', 'attach')
               and not (e.func.cls == TXN)]
        inst = '%s executes no statement that can change the database' % (f.qualname or '').replace('djinterop::', '')
        if not bad:
            chk.ok(rid, inst, locstr(f.node))
        else:
            e = bad[0]
            chk.violation(rid, '%s|destructor effect %s' % ((f.qualname or '').replace('djinterop::', ''), e.cls),
                          locstr(f.node),
                          '%s: not so - it reaches %s (%s) at %s (in %s): a session that only observed the library '
                          'changes its file when the last handle is released' % (
                              inst, e.cls, (e.stmt.text()[:60] if e.stmt is not None else e.what), e.loc,
                              e.func.qualname))
    # destructors are rare in this code base: the positive control is the transaction guard, which must be seen
    guard = [f for f in prog.functions.values() if f.kind == 'CXXDestructorDecl' and f.cls == TXN and f.body is not None]
    if not guard or not any(e.cls == 'txn' for e in eff.direct(guard[0])):
        raise AnalysisBroken('destructor rule: the transaction guard destructor (positive control: it issues ROLLBACK) '
                             'was not found')
    chk.ok(rid, 'positive control: ~sqlite_transaction is seen to issue ROLLBACK (excepted: it ends a mutator\'s '
                'transaction)', locstr(guard[0].node))
    return n


def _secondary_tables():
    """1.x tables keyed by a track id that are not the Track table itself: their rows exist only if some
    operation has written them (spec/domains.json: `<table>.id` in domain track)."""
    import json
    import os
    d = json.load(open(os.path.join(os.path.dirname(os.path.dirname(os.path.dirname(os.path.abspath(__file__)))),
                                    'spec', 'domains.json')))
    out = set()
    for key, dom in d['columns'].items():
        m = re.match(r'^1:(\w+)\.id$', key)
        if m and dom == 'track' and m.group(1) != 'track':
            out.add(m.group(1))
    return out


def updates_have_rows(prog, cg, eff, chk, rid):
    """A value written with UPDATE is lost when no row matches.  For the handle's own row (Track) a missing row
    means a removed track and is judged elsewhere; the rows of the secondary 1.x tables (MetaData,
    MetaDataInteger, PerformanceData) exist only if something wrote them: a track imported but not analysed has
    no PerformanceData row, a cleared field may have no MetaData row.  So every UPDATE of such a table is
    preceded, in the same function, by an INSERT [OR IGNORE / OR REPLACE] into it (the row is made first), or is
    followed by a test of rows_modified()."""
    sec = _secondary_tables()
    if len(sec) < 3:
        raise AnalysisBroken('row-guarantee rule: secondary tables not found in spec/domains.json (%s)' % sorted(sec))
    n = 0
    writers = 0
    for f in prog.functions.values():
        if f.body is None or f.is_pattern or not prog.in_repo(f.file) or '/schema/' in (f.file or ''):
            continue
        ss = eff.sites(f)
        for i, s_ in enumerate(ss):
            st = s_.stored_in
            if st is None or (getattr(st, 'table', None) or '').lower() not in sec:
                continue
            if st.kind in ('insert', 'delete'):
                writers += 1
            if st.kind != 'update':
                continue
            n += 1
            chk.analysed(f)
            t = st.table
            line = (s_.node.get('loc') or [None, 0])[1]
            made = [x for x in ss[:i] if x.stored_in is not None and x.stored_in.kind == 'insert'
                    and (x.stored_in.table or '').lower() == t.lower()]
            tested = False
            for x in walk(f.body):
                if x.get('kind') == 'CXXMemberCallExpr' and strip(children(x)[0]).get('name') == 'rows_modified':
                    if ((x.get('loc') or [None, 0])[1] or 0) >= (line or 0):
                        tested = True
            inst = '%s: UPDATE %s at %s has a row to update' % (
                (f.qualname or '').replace('djinterop::engine::', ''), t, locstr(s_.node))
            if made or tested:
                chk.ok(rid, inst + (' (row made first at %s)' % locstr(made[0].node) if made else ' (rows_modified() tested)'),
                       locstr(s_.node))
            else:
                chk.violation(rid, '%s|UPDATE %s without a row guarantee' % (
                    (f.qualname or '').replace('djinterop::engine::', ''), t), locstr(s_.node),
                    '%s: not so - no INSERT into %s precedes it in this function and rows_modified() is not tested '
                    'after it: when the track has no %s row for this key (never analysed, field cleared, row removed by '
                    'another setter) the statement matches nothing, the call returns normally and the value is '
                    'lost' % (inst, t, t))
    if writers < 4:
        raise AnalysisBroken('row-guarantee rule: the writers of the secondary tables were not found (%d)' % writers)
    return n


CHAINS = {'playlist': ('nextlistid', 'parentlistid'), 'playlistentity': ('nextentityid', 'listid')}


def chain_listings_complete(prog, cg, eff, chk, rid):
    """The 2.x sibling and entry orders are linked lists inside the table (nextListId / nextEntityId) that the
    library walks from the tail.  A statement that fetches the rows of one chain for that walk (a SELECT that
    yields the next-pointer, in a function returning a sequence) therefore restricts the rows by the group key
    alone (parentListId / listId): any further predicate removes a link, and every row in front of the removed
    one is lost from the listing."""
    n = 0
    for f in prog.functions.values():
        if f.body is None or f.is_pattern or not prog.in_repo(f.file) or '/v2/' not in (f.file or ''):
            continue
        ret = (f.type or '').split('(')[0]
        if not re.search(r'\b(list|vector|deque)\s*<', ret):
            continue
        for s_ in eff.sites(f):
            st = s_.stored_in
            if st is None or st.kind != 'select' or st.select is None:
                continue
            t = (st.table or '').lower()
            if t not in CHAINS or len(st.select.tables) != 1:
                continue
            nxt, group = CHAINS[t]
            outs = []
            for e, alias in st.select.items:
                cr = e.column_ref()
                if cr:
                    outs.append(cr[1].lower())
            if nxt not in outs:
                continue
            n += 1
            chk.analysed(f)
            from .c01 import _conjuncts
            conj = _conjuncts(st.select.where)
            extra_ = [c for c in conj if not re.match(r'^(\w+ \. )?%s = (\?\d*|-?\d+)$' % group, c)]
            inst = '%s: the chain rows of %s are fetched by %s alone' % (
                (f.qualname or '').replace('djinterop::engine::', ''), st.table, group)
            if not conj:
                chk.violation(rid, '%s|chain listing without group key' % (f.qualname or '').replace('djinterop::engine::', ''),
                              locstr(s_.node), inst + ': not so - no restriction at all (rows of other chains are mixed in)')
            elif extra_:
                chk.violation(rid, '%s|chain listing filtered by %s' % (
                    (f.qualname or '').replace('djinterop::engine::', ''), '; '.join(extra_)), locstr(s_.node),
                    '%s: not so - the statement also demands %s: a row that fails it is a missing link, the walk from '
                    'the tail stops there and every row in front of it (and the row itself) is absent from the '
                    'listing' % (inst, ' and '.join(extra_)))
            else:
                chk.ok(rid, inst, locstr(s_.node))
    if n < 3:
        raise AnalysisBroken('chain-listing rule: fewer than three chain listings found (%d): child ids, root ids, '
                             'entries of a list' % n)
    return n
