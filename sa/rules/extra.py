"""Rules added in the fifth seeded round that are shared by several properties.  Each function takes the
Check object and a rule id of the calling property (the rule text is given by the caller)."""
import re

from .. import program, callgraph, effects, sql
from ..frontend import AnalysisBroken
from ..program import children, strip, walk, locstr

TXN = 'djinterop::util::sqlite_transaction'


def destructors_silent(prog, cg, eff, chk, rid):
    """Releasing the handles of a library is part of observing it: no user-written destructor of the repository
    (storage / context / handle implementation classes; the transaction guard excepted, whose ROLLBACK ends a
    transaction a mutator began) executes a statement with an effect on the database or writes to the file
    system - neither directly nor through what it calls.  `PRAGMA optimize`, `VACUUM`, a checkpoint or a
    clean-up DELETE in a destructor rewrites the file of a library that was only read."""
    n = 0
    for f in prog.functions.values():
        if f.kind != 'CXXDestructorDecl' or f.body is None or f.is_pattern or not prog.in_repo(f.file):
            continue
        if f.defaulted or f.cls == TXN:
            continue
        n += 1
        chk.analysed(f)
        effs, reach = eff.transitive([f])
        bad = [e for e in effs if e.cls in ('write', 'ddl', 'pragma', 'dynsql', 'fs', 'attach')
               and not (e.func.cls == TXN)]
        inst = '%s executes no statement that can change the database' % (f.qualname or '').replace('djinterop::', '')
        if not bad:
            chk.ok(rid, inst, locstr(f.node))
        else:
            e = bad[0]
            chk.violation(rid, '%s|destructor effect %s' % ((f.qualname or '').replace('djinterop::', ''), e.cls),
                          locstr(f.node),
                          '%s: not so - it reaches %s (%s) at %s (in %s): a session that only observed the library '
                          'changes its file when the last handle is released' % (
                              inst, e.cls, (e.stmt.text()[:60] if e.stmt is not None else e.what), e.loc,
                              e.func.qualname))
    # destructors are rare in this code base: the positive control is the transaction guard, which must be seen
    guard = [f for f in prog.functions.values() if f.kind == 'CXXDestructorDecl' and f.cls == TXN and f.body is not None]
    if not guard or not any(e.cls == 'txn' for e in eff.direct(guard[0])):
        raise AnalysisBroken('destructor rule: the transaction guard destructor (positive control: it issues ROLLBACK) '
                             'was not found')
    chk.ok(rid, 'positive control: ~sqlite_transaction is seen to issue ROLLBACK (excepted: it ends a mutator\'s '
                'transaction)', locstr(guard[0].node))
    return n
