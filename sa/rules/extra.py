"""Rules added in the fifth seeded round that are shared by several properties.  Each function takes the
Check object and a rule id of the calling property (the rule text is given by the caller)."""
import re

from .. import program, callgraph, effects, sql
from ..frontend import AnalysisBroken
from ..program import children, strip, walk, locstr

TXN = 'djinterop::util::sqlite_transaction'


def destructors_silent(prog, cg, eff, chk, rid):
    """Releasing the handles of a library is part of observing it: no user-written destructor of the repository
    (storage / context / handle implementation classes; the transaction guard excepted, whose ROLLBACK ends a
    transaction a mutator began) executes a statement with an effect on the database or writes to the file
    system - neither directly nor through what it calls.  `PRAGMA optimize`, `VACUUM`, a checkpoint or a
    clean-up DELETE in a destructor rewrites the file of a library that was only read."""
    n = 0
    for f in prog.functions.values():
        if f.kind != 'CXXDestructorDecl' or f.body is None or f.is_pattern or not prog.in_repo(f.file):
            continue
        if f.defaulted or f.cls == TXN:
            continue
        n += 1
        chk.analysed(f)
        effs, reach = eff.transitive([f])
        bad = [e for e in effs if e.cls in ('write', 'ddl', 'pragma', 'dynsql', 'fs', 'attach')
               and not (e.func.cls == TXN)]
        inst = '%s executes no statement that can change the database' % (f.qualname or '').replace('djinterop::', '')
        if not bad:
            chk.ok(rid, inst, locstr(f.node))
        else:
            e = bad[0]
            chk.violation(rid, '%s|destructor effect %s' % ((f.qualname or '').replace('djinterop::', ''), e.cls),
                          locstr(f.node),
                          '%s: not so - it reaches %s (%s) at %s (in %s): a session that only observed the library '
                          'changes its file when the last handle is released' % (
                              inst, e.cls, (e.stmt.text()[:60] if e.stmt is not None else e.what), e.loc,
                              e.func.qualname))
    # destructors are rare in this code base: the positive control is the transaction guard, which must be seen
    guard = [f for f in prog.functions.values() if f.kind == 'CXXDestructorDecl' and f.cls == TXN and f.body is not None]
    if not guard or not any(e.cls == 'txn' for e in eff.direct(guard[0])):
        raise AnalysisBroken('destructor rule: the transaction guard destructor (positive control: it issues ROLLBACK) '
                             'was not found')
    chk.ok(rid, 'positive control: ~sqlite_transaction is seen to issue ROLLBACK (excepted: it ends a mutator\'s '
                'transaction)', locstr(guard[0].node))
    return n


def _secondary_tables():
    """1.x tables keyed by a track id that are not the Track table itself: their rows exist only if some
    operation has written them (spec/domains.json: `<table>.id` in domain track)."""
    import json
    import os
    d = json.load(open(os.path.join(os.path.dirname(os.path.dirname(os.path.dirname(os.path.abspath(__file__)))),
                                    'spec', 'domains.json')))
    out = set()
    for key, dom in d['columns'].items():
        m = re.match(r'^1:(\w+)\.id$', key)
        if m and dom == 'track' and m.group(1) != 'track':
            out.add(m.group(1))
    return out


def updates_have_rows(prog, cg, eff, chk, rid):
    """A value written with UPDATE is lost when no row matches.  For the handle's own row (Track) a missing row
    means a removed track and is judged elsewhere; the rows of the secondary 1.x tables (MetaData,
    MetaDataInteger, PerformanceData) exist only if something wrote them: a track imported but not analysed has
    no PerformanceData row, a cleared field may have no MetaData row.  So every UPDATE of such a table is
    preceded, in the same function, by an INSERT [OR IGNORE / OR REPLACE] into it (the row is made first), or is
    followed by a test of rows_modified()."""
    sec = _secondary_tables()
    if len(sec) < 3:
        raise AnalysisBroken('row-guarantee rule: secondary tables not found in spec/domains.json (%s)' % sorted(sec))
    n = 0
    writers = 0
    for f in prog.functions.values():
        if f.body is None or f.is_pattern or not prog.in_repo(f.file) or '/schema/' in (f.file or ''):
            continue
        ss = eff.sites(f)
        for i, s_ in enumerate(ss):
            st = s_.stored_in
            if st is None or (getattr(st, 'table', None) or '').lower() not in sec:
                continue
            if st.kind in ('insert', 'delete'):
                writers += 1
            if st.kind != 'update':
                continue
            n += 1
            chk.analysed(f)
            t = st.table
            line = (s_.node.get('loc') or [None, 0])[1]
            made = [x for x in ss[:i] if x.stored_in is not None and x.stored_in.kind == 'insert'
                    and (x.stored_in.table or '').lower() == t.lower()]
            tested = False
            for x in walk(f.body):
                if x.get('kind') == 'CXXMemberCallExpr' and strip(children(x)[0]).get('name') == 'rows_modified':
                    if ((x.get('loc') or [None, 0])[1] or 0) >= (line or 0):
                        tested = True
            inst = '%s: UPDATE %s at %s has a row to update' % (
                (f.qualname or '').replace('djinterop::engine::', ''), t, locstr(s_.node))
            if made or tested:
                chk.ok(rid, inst + (' (row made first at %s)' % locstr(made[0].node) if made else ' (rows_modified() tested)'),
                       locstr(s_.node))
            else:
                chk.violation(rid, '%s|UPDATE %s without a row guarantee' % (
                    (f.qualname or '').replace('djinterop::engine::', ''), t), locstr(s_.node),
                    '%s: not so - no INSERT into %s precedes it in this function and rows_modified() is not tested '
                    'after it: when the track has no %s row for this key (never analysed, field cleared, row removed by '
                    'another setter) the statement matches nothing, the call returns normally and the value is '
                    'lost' % (inst, t, t))
    if writers < 4:
        raise AnalysisBroken('row-guarantee rule: the writers of the secondary tables were not found (%d)' % writers)
    return n


CHAINS = {'playlist': ('nextlistid', 'parentlistid'), 'playlistentity': ('nextentityid', 'listid')}


def chain_listings_complete(prog, cg, eff, chk, rid):
    """The 2.x sibling and entry orders are linked lists inside the table (nextListId / nextEntityId) that the
    library walks from the tail.  A statement that fetches the rows of one chain for that walk (a SELECT that
    yields the next-pointer, in a function returning a sequence) therefore restricts the rows by the group key
    alone (parentListId / listId): any further predicate removes a link, and every row in front of the removed
    one is lost from the listing."""
    n = 0
    for f in prog.functions.values():
        if f.body is None or f.is_pattern or not prog.in_repo(f.file) or '/v2/' not in (f.file or ''):
            continue
        ret = (f.type or '').split('(')[0]
        if not re.search(r'\b(list|vector|deque)\s*<', ret):
            continue
        for s_ in eff.sites(f):
            st = s_.stored_in
            if st is None or st.kind != 'select' or st.select is None:
                continue
            t = (st.table or '').lower()
            tabs = [str(x[1] if isinstance(x, (tuple, list)) and len(x) > 1 else x).lower() for x in st.select.tables]
            if t not in CHAINS and len(tabs) > 1:
                t = ([x for x in tabs if x in CHAINS] or [t])[0]
            if t not in CHAINS:
                continue
            nxt, group = CHAINS[t]
            if len(st.select.tables) != 1:
                # a join is a predicate too: an inner join drops the chain rows that have no partner
                outs_j = [e.column_ref()[1].lower() for e, alias in st.select.items if e.column_ref()]
                if nxt not in outs_j:
                    continue
                n += 1
                chk.analysed(f)
                qn_ = (f.qualname or '').replace('djinterop::engine::', '')
                if re.search(r'\bleft\s+(outer\s+)?join\b', st.text().lower()) and not re.search(r'\b(inner|cross)\s+join\b', st.text().lower()):
                    chk.ok(rid, '%s: the chain rows of %s are fetched with outer joins only (no row is dropped)' % (qn_, t),
                           locstr(s_.node))
                else:
                    chk.violation(rid, '%s|chain listing joined with %s' % (qn_, ','.join(x for x in tabs if x != t)),
                                  locstr(s_.node),
                                  '%s: the chain rows of %s are fetched through a join with %s: a chain row without a partner '
                                  'row is a missing link, the walk from the tail stops there and every row in front of it is '
                                  'absent from the listing' % (qn_, t, ','.join(x for x in tabs if x != t)))
                continue
            outs = []
            for e, alias in st.select.items:
                cr = e.column_ref()
                if cr:
                    outs.append(cr[1].lower())
            if nxt not in outs:
                continue
            n += 1
            chk.analysed(f)
            from .c01 import _conjuncts
            conj = _conjuncts(st.select.where)
            extra_ = [c for c in conj if not re.match(r'^(\w+ \. )?%s = (\?\d*|-?\d+)$' % group, c)]
            inst = '%s: the chain rows of %s are fetched by %s alone' % (
                (f.qualname or '').replace('djinterop::engine::', ''), st.table, group)
            if not conj:
                chk.violation(rid, '%s|chain listing without group key' % (f.qualname or '').replace('djinterop::engine::', ''),
                              locstr(s_.node), inst + ': not so - no restriction at all (rows of other chains are mixed in)')
            elif extra_:
                chk.violation(rid, '%s|chain listing filtered by %s' % (
                    (f.qualname or '').replace('djinterop::engine::', ''), '; '.join(extra_)), locstr(s_.node),
                    '%s: not so - the statement also demands %s: a row that fails it is a missing link, the walk from '
                    'the tail stops there and every row in front of it (and the row itself) is absent from the '
                    'listing' % (inst, ' and '.join(extra_)))
            else:
                chk.ok(rid, inst, locstr(s_.node))
    if n < 3:
        raise AnalysisBroken('chain-listing rule: fewer than three chain listings found (%d): child ids, root ids, '
                             'entries of a list' % n)
    return n


def new_tail_linked(prog, cg, eff, chk, rid):
    """Appending to a 2.x entry chain: the function that INSERTs a row into PlaylistEntity makes the previous tail
    point at it.  Two things make that link right: (1) the id written into the old tail's next-pointer is the id
    SQLite gave the inserted row - last_insert_rowid() read after the INSERT - not a prediction (MAX(id) + 1 is
    wrong for an AUTOINCREMENT table once the highest row has been deleted); (2) the old tail is found by what makes
    it the tail - the row of this list whose next-pointer is the sentinel 0 - not by its id or position."""
    n = 0
    for f in prog.functions.values():
        if f.body is None or f.is_pattern or not prog.in_repo(f.file) or '/v2/' not in (f.file or ''):
            continue
        ss = eff.sites(f)
        ins = [s for s in ss if s.stored_in is not None and s.stored_in.kind == 'insert'
               and (s.stored_in.table or '').lower() == 'playlistentity']
        if not ins:
            continue
        nxt, group = CHAINS['playlistentity']
        n += 1
        chk.analysed(f)
        short = (f.qualname or '').replace('djinterop::engine::', '')
        ups = []
        for s in ss:
            st = s.stored_in
            if st is not None and st.kind == 'update' and (st.table or '').lower() == 'playlistentity' and \
                    any(c.lower() == nxt for c, _ in st.sets):
                ups.append(s)
        inst = '%s links the previous tail to the row it inserts' % short
        if not ups:
            chk.violation(rid, '%s|no relink of the previous tail' % short, locstr(ins[0].node),
                          inst + ': not so - no UPDATE of %s follows the INSERT: the chain of the list splits' % nxt)
            continue
        locs = program.single_assignment_locals(f.node)
        for u in ups:
            st = u.stored_in
            from .c01 import _conjuncts
            conj = _conjuncts(st.where) if getattr(st, 'where', None) is not None else []
            has_sentinel = any(re.match(r'^(\w+ \. )?%s = 0$' % nxt, c) for c in conj)
            has_group = any(re.match(r'^(\w+ \. )?%s = \?\d*$' % group, c) for c in conj)
            # the bind of the next-pointer: first bind of the statement (SET nxt = ? comes first)
            pu = [p for p in st.params if p.role == 'set' and (p.column or '').lower() == nxt]
            src_ok = False
            why = 'the value bound to %s was not found' % nxt
            if pu and pu[0].index < len(u.binds):
                b = strip(u.binds[pu[0].index], explicit=True)
                seen = 0
                while b.get('kind') == 'DeclRefExpr' and (b.get('referencedDecl') or {}).get('id') in locs and seen < 4:
                    b = strip(locs[b['referencedDecl']['id']], explicit=True)
                    seen += 1
                calls = [x for x in walk(b) if x.get('kind') == 'CXXMemberCallExpr'
                         and strip(children(x)[0]).get('name') == 'last_insert_rowid']
                if calls:
                    line_c = (calls[0].get('loc') or [None, 0])[1] or 0
                    line_i = (ins[0].node.get('loc') or [None, 0])[1] or 0
                    if line_c >= line_i:
                        src_ok = True
                    else:
                        why = 'last_insert_rowid() is read before the INSERT'
                else:
                    why = 'the id stored in the old tail does not come from last_insert_rowid() after the INSERT ' \
                          '(a predicted id is wrong once the highest row of the AUTOINCREMENT table was deleted)'
            if src_ok and has_sentinel and has_group:
                chk.ok(rid, inst, locstr(u.node))
            elif not src_ok:
                chk.violation(rid, '%s|new tail id not from last_insert_rowid' % short, locstr(u.node),
                              inst + ': not so - ' + why)
            else:
                chk.violation(rid, '%s|previous tail not found by its sentinel' % short, locstr(u.node),
                              '%s: not so - the UPDATE selects the row to relink by %s, not by %s = ? AND %s = 0: '
                              'in a list whose chain order differs from its id order (entries moved by other '
                              'software) another row is relinked and the list ends up with two tails' % (
                                  inst, conj, group, nxt))
    if n < 1:
        raise AnalysisBroken('tail-link rule: no function inserting into PlaylistEntity found')
    return n


def catalog_listing_unfiltered(prog, cg, eff, chk, rid):
    """verify() learns what exists from its listing helpers.  The helper that lists sqlite_master selects by object
    type alone: a further predicate (a name pattern, an exclusion list) hides objects from the comparison, so an
    extra table or index whose name happens to match is never reported."""
    from .. import sites as _sites
    n = 0
    for f in prog.functions.values():
        if f.body is None or f.is_pattern or 'schema_validate_utils' not in (f.file or ''):
            continue
        texts = [(s_.text, s_) for s_ in _sites.find_sites(f)]
        if texts and f.params:
            # the statement may take part of its text from a parameter (a helper shared by two constructors):
            # read it once per caller with the caller's argument in place of the parameter
            for g in prog.functions.values():
                if g.body is None or g.is_pattern or 'schema_validate_utils' not in (g.file or '') or g.key == f.key:
                    continue
                env_g = _sites._string_locals(g)
                for e in cg.edges(g):
                    if f not in e.targets:
                        continue
                    args = children(e.node)[1:]
                    rendered = {}
                    for p_, a in zip(f.params, args):
                        parts = _sites._merge(_sites.sql_parts(a, env_g))
                        rendered[p_.get('name')] = ''.join(x if isinstance(x, str) else '${%s}' % x.desc for x in parts)
                    for txt0, s0 in list(texts):
                        t2 = txt0
                        for pn_, val in rendered.items():
                            t2 = t2.replace('${%s}' % pn_, val)
                        if t2 != txt0:
                            texts.append((t2, s0))
            if any('sqlite_master' in t for t, _ in texts):
                texts = [(t, s0) for t, s0 in texts if 'sqlite_master' in t or not re.search(r'FROM \$\{', t)]
        for txt, s_ in texts:
            m = re.search(r'\bsqlite_master\b(.*)$', txt, re.I | re.S)
            if not m or not re.match(r'^\s*SELECT\b', txt, re.I):
                continue
            n += 1
            chk.analysed(f)
            rest = m.group(1).strip().rstrip(';').strip()
            inst = '%s lists sqlite_master by type alone (%r)' % ((f.qualname or '').split('::')[-1], txt)
            if rest == '' or re.match(r"^WHERE\s+type\s*(=|==)\s*('\$\{\w+\}'|\?|'\w+')\s*(ORDER\s+BY\s+[\w\s,]+)?$", rest, re.I):
                chk.ok(rid, inst, locstr(s_.node))
            else:
                chk.violation(rid, '%s|catalog listing filtered' % (f.qualname or '').split('::')[-1], locstr(s_.node),
                              '%s: not so - the statement restricts the listing further (%s): an object excluded here is '
                              'invisible to verify(), which then accepts a library with an extra table / view / index '
                              'of such a name' % (inst, rest))
    if n < 1:
        raise AnalysisBroken('catalog-listing rule: no sqlite_master listing found in schema_validate_utils')
    return n


# ---- pointers into growable containers stay fresh ------------------------------------------------------
_INVALIDATORS = ('resize', 'reserve', 'push_back', 'emplace_back', 'insert', 'emplace', 'assign', 'clear',
                 'shrink_to_fit', 'erase', 'pop_back', 'swap', 'append')
_DERIVERS = ('data', 'begin', 'end', 'cbegin', 'cend', 'c_str', 'front', 'back')


def pointers_fresh(prog, chk, rid, funcs, floor_note=''):
    """A raw pointer / iterator taken from a growable container (`v.data()`, `&v[i]`, `v.begin()`), kept in a
    local or in a member of a local struct (`strm.next_out`), must not be used after an operation that may
    reallocate the container (resize, reserve, push_back, insert, assign, ...) unless it was taken again in
    between: the old storage is freed.  Decided per function on the structured AST (branches merged, loop
    bodies taken twice, states of break / continue / return / throw kept apart); `use` is any read of the
    variable, and for a struct member any call that is handed the struct or its address."""
    from .. import guards
    ninst = 0
    for f in funcs:
        if f.body is None or f.is_pattern:
            continue
        vecs = {}
        for x in list(f.params) + [y for y in walk(f.body) if y.get('kind') == 'VarDecl']:
            t = x.get('type') or ''
            if ('vector<' in t or 'basic_string<' in t or t.startswith('std::string')) and not t.lstrip().startswith('const') \
                    and '*' not in t:
                vecs['#%s:%s' % (x.get('id'), x.get('name'))] = x
        if not vecs:
            continue
        short = '::'.join((f.qualname or '').split('::')[-2:])
        reports = {}
        derived_sites = {}

        def container_of(e):
            """canonical path of the container an address-ish expression is taken from, or None"""
            for y in walk(e):
                y2 = y
                if y2.get('kind') == 'CXXMemberCallExpr':
                    callee = strip(children(y2)[0])
                    if callee.get('name') in _DERIVERS and children(callee):
                        b = guards.canon(children(callee)[0])
                        if b in vecs:
                            return b
                if y2.get('kind') == 'UnaryOperator' and y2.get('opcode') == '&':
                    z = strip(children(y2)[0], explicit=True)
                    if z.get('kind') == 'CXXOperatorCallExpr':
                        c = children(z)
                        if (strip(c[0]).get('referencedDecl') or {}).get('name') == 'operator[]' and len(c) > 2:
                            b = guards.canon(c[1])
                            if b in vecs:
                                return b
            return None

        def is_ptr_target(lhs):
            t = (strip(lhs).get('type') or '')
            return '*' in t or 'iterator' in t or '__normal_iterator' in t

        def expr(e, st):
            """process an expression in (approximate) evaluation order; st: key -> [container, stale, site]"""
            k = e.get('kind')
            c = children(e)
            if k == 'LambdaExpr':
                return
            if k in ('BinaryOperator', 'CompoundAssignOperator') and e.get('opcode') == '=' and len(c) == 2:
                expr(c[1], st)
                assign(c[0], c[1], st, e)
                return
            if k == 'CXXOperatorCallExpr' and len(c) == 3 and \
                    (strip(c[0]).get('referencedDecl') or {}).get('name') == 'operator=':
                expr(c[2], st)
                b = guards.canon(c[1])
                if b in vecs:
                    invalidate(b, st)
                else:
                    assign(c[1], c[2], st, e)
                return
            if k == 'CXXMemberCallExpr' and c:
                callee = strip(c[0])
                if callee.get('name') in _INVALIDATORS and children(callee):
                    b = guards.canon(children(callee)[0])
                    for a in c[1:]:
                        expr(a, st)
                    if b in vecs:
                        invalidate(b, st)
                        return
            if k == 'CallExpr':
                for a in c[1:]:
                    expr(a, st)
                    z = strip(a, explicit=True)
                    if z.get('kind') == 'UnaryOperator' and z.get('opcode') == '&':
                        z = strip(children(z)[0], explicit=True)
                    p = guards.canon(z) if z.get('kind') in ('DeclRefExpr', 'MemberExpr') else None
                    if p:
                        for key, v in st.items():
                            if key.startswith(p + '.') and v[1]:
                                use(key, v, e)
                return
            if k in ('DeclRefExpr', 'MemberExpr'):
                p = guards.canon(e)
                if p in st and st[p][1]:
                    use(p, st[p], e)
                if k == 'DeclRefExpr':
                    return
            for y in c:
                expr(y, st)

        def use(key, v, node):
            reports.setdefault((key, v[2]), (node, v))

        def invalidate(b, st):
            for key, v in st.items():
                if v[0] == b:
                    v[1] = True

        def assign(lhs, rhs, st, node):
            p = guards.canon(lhs)
            if p is None:
                expr(lhs, st)
                return
            b = container_of(rhs)
            if b is not None and is_ptr_target(lhs):
                st[p] = [b, False, locstr(node)]
                derived_sites[(p, locstr(node))] = b
                return
            # a pointer computed from another tracked pointer inherits its container and state
            for y in walk(rhs):
                if y.get('kind') in ('DeclRefExpr', 'MemberExpr'):
                    q = guards.canon(y)
                    if q in st and is_ptr_target(lhs) and q != p:
                        st[p] = [st[q][0], st[q][1], st[q][2]]
                        return
            if p in st:
                del st[p]

        def merge(states):
            states = [s for s in states if s is not None]
            if not states:
                return None
            out = {}
            for s in states:
                for key, v in s.items():
                    if key in out:
                        out[key][1] = out[key][1] or v[1]
                    else:
                        out[key] = list(v)
            return out

        def copy(st):
            return {k_: list(v_) for k_, v_ in st.items()}

        def stmt(n, st, loop):
            """-> state after n, or None when control does not continue behind it"""
            if st is None or n is None:
                return st
            k = n.get('kind')
            c = children(n)
            if k == 'CompoundStmt':
                for y in c:
                    st = stmt(y, st, loop)
                    if st is None:
                        return None
                return st
            if k == 'DeclStmt':
                for d in c:
                    if d.get('kind') == 'VarDecl':
                        init = [y for y in children(d) if not y['kind'].endswith('Attr')]
                        if init:
                            expr(init[-1], st)
                            b = container_of(init[-1])
                            t = d.get('type') or ''
                            key = '#%s:%s' % (d.get('id'), d.get('name'))
                            if b is not None and ('*' in t or 'iterator' in t or t == 'auto'):
                                st[key] = [b, False, locstr(d)]
                                derived_sites[(key, locstr(d))] = b
                            else:
                                for y in walk(init[-1]):
                                    if y.get('kind') in ('DeclRefExpr', 'MemberExpr'):
                                        q = guards.canon(y)
                                        if q in st and ('*' in t or 'iterator' in t):
                                            st[key] = list(st[q])
                                            break
                return st
            if k == 'IfStmt':
                cs = [y for y in c]
                cond = cs[0] if cs else None
                # (init statements / condition variables are rare here; treat every non-branch child as condition)
                branches = cs[1:]
                if cond is not None:
                    expr(cond, st)
                a = stmt(branches[0], copy(st), loop) if branches else st
                b = stmt(branches[1], copy(st), loop) if len(branches) > 1 else copy(st)
                return merge([a, b])
            if k in ('WhileStmt', 'DoStmt', 'ForStmt', 'CXXForRangeStmt'):
                ctx = {'break': [], 'continue': []}
                body = c[-1] if k != 'DoStmt' else c[0]
                others = [y for y in c if y is not body]
                cur = st
                for _ in range(2):
                    if k != 'DoStmt':
                        for y in others[:-1] if k == 'ForStmt' else others:
                            if y.get('kind'):
                                cur = stmt(y, cur, loop) if y.get('kind', '').endswith('Stmt') else (expr(y, cur) or cur)
                    after = stmt(body, copy(cur), ctx)
                    after = merge([after] + ctx['continue'])
                    ctx['continue'] = []
                    if after is None:
                        break
                    if k == 'ForStmt' and others and others[-1].get('kind'):
                        expr(others[-1], after)
                    if k == 'DoStmt':
                        for y in others:
                            if y.get('kind'):
                                expr(y, after)
                    cur = merge([cur, after])
                return merge([cur] + ctx['break'])
            if k == 'BreakStmt':
                if loop is not None:
                    loop['break'].append(copy(st))
                return None
            if k == 'ContinueStmt':
                if loop is not None:
                    loop['continue'].append(copy(st))
                return None
            if k == 'ReturnStmt':
                for y in c:
                    expr(y, st)
                return None
            if k == 'SwitchStmt':
                if c:
                    expr(c[0], st)
                ctx = {'break': [], 'continue': loop['continue'] if loop else []}
                outs = []
                body = c[-1]
                cur = None
                for y in children(body) if body.get('kind') == 'CompoundStmt' else [body]:
                    z = y
                    entered = False
                    while z.get('kind') in ('CaseStmt', 'DefaultStmt'):
                        entered = True
                        z = children(z)[-1]
                    if entered:
                        cur = merge([cur, copy(st)])
                    if cur is not None:
                        cur = stmt(z, cur, ctx)
                return merge([cur, copy(st)] + ctx['break'])
            if k == 'CXXTryStmt':
                a = stmt(c[0], copy(st), loop)
                outs = [a]
                for h in c[1:]:
                    hb = children(h)[-1] if children(h) else None
                    outs.append(stmt(hb, copy(st), loop))
                return merge(outs)
            if k in ('CaseStmt', 'DefaultStmt', 'LabelStmt', 'AttributedStmt'):
                return stmt(c[-1], st, loop) if c else st
            if k == 'NullStmt':
                return st
            # expression statement
            thrown = any(y.get('kind') == 'CXXThrowExpr' for y in walk(n)) and strip(n).get('kind') in (
                'CXXThrowExpr', 'ExprWithCleanups')
            expr(n, st)
            return None if thrown and strip(n, explicit=True).get('kind') == 'CXXThrowExpr' or \
                (n.get('kind') == 'ExprWithCleanups' and c and strip(c[0], explicit=True).get('kind') == 'CXXThrowExpr') \
                else st

        stmt(f.body, {}, None)
        for (key, site), b in sorted(derived_sites.items()):
            ninst += 1
            hit = reports.get((key, site))
            name = key.split(':', 1)[-1]
            inst = '%s: %s (taken from %s at %s)' % (short, name, b.split(':', 1)[-1], site)
            if hit is None:
                chk.ok(rid, inst + ' is never used after the container may have been reallocated', site)
            else:
                node, v = hit
                chk.violation(rid, '%s|%s used after %s may have been reallocated' % (short, name, b.split(':', 1)[-1]),
                              locstr(node),
                              '%s: used at %s after an operation that may reallocate %s (resize / insert / push_back ...) '
                              'without being taken again: the old storage is freed, the access is a use after free' % (
                                  inst, locstr(node), b.split(':', 1)[-1]))
        if derived_sites:
            chk.analysed(f)
    if not str(getattr(prog, 'repo', '')).endswith('controls/repo'):
        positive_control(chk, rid, lambda p_, rec, r_: pointers_fresh(p_, rec, r_, list(p_.functions.values())),
                         ['control_stale_pointer', 'control_stale_member'])
    return ninst


def inflated_length_is_result_length(prog, chk, rid):
    """The decompressor returns exactly the bytes inflate() produced: in every repository function that calls
    inflate(), some operation that sizes the returned vector (resize / insert / assign / append / push_back) is
    computed from the stream's output counters (`avail_out`, `total_out`, through locals), or a test of those
    counters guards a throw.  A result sized only from the length prefix of the blob has as many bytes as the
    prefix announces, whatever the stream holds: a foreign blob with an over-stated prefix grows a zero tail that
    is kept as trailing data and written back on every re-encode."""
    n = 0
    for f in prog.functions.values():
        if f.body is None or f.is_pattern or not prog.in_repo(f.file):
            continue
        calls = [x for x in walk(f.body) if x.get('kind') == 'CallExpr' and
                 (strip(children(x)[0]).get('referencedDecl') or {}).get('name') == 'inflate']
        if not calls:
            continue
        n += 1
        chk.analysed(f)
        sids = {x['id'] for x in walk(f.body) if x.get('kind') == 'VarDecl' and 'z_stream' in (x.get('type') or '')}
        sids |= {p['id'] for p in f.params if 'z_stream' in (p.get('type') or '')}
        defs = {}
        for x in walk(f.body):
            k = x.get('kind')
            if k == 'VarDecl':
                init = [y for y in children(x) if not y['kind'].endswith('Attr')]
                if init:
                    defs.setdefault(x['id'], []).append(init[-1])
            elif k in ('BinaryOperator', 'CompoundAssignOperator') and (x.get('opcode') or '').endswith('=') \
                    and x.get('opcode') not in ('==', '!=', '<=', '>='):
                l = strip(children(x)[0], explicit=True)
                if l.get('kind') == 'DeclRefExpr':
                    defs.setdefault(l['referencedDecl']['id'], []).append(children(x)[1])

        def from_counters(e, seen=None):
            seen = seen if seen is not None else set()
            for y in walk(e):
                if y.get('kind') == 'MemberExpr' and y.get('name') in ('avail_out', 'total_out') and children(y):
                    b = strip(children(y)[0], explicit=True)
                    while b.get('kind') in ('UnaryOperator', 'ParenExpr') and children(b):
                        b = strip(children(b)[0], explicit=True)
                    if b.get('kind') == 'DeclRefExpr' and (b.get('referencedDecl') or {}).get('id') in sids:
                        return True
                if y.get('kind') == 'DeclRefExpr':
                    i = (y.get('referencedDecl') or {}).get('id')
                    if i in defs and i not in seen:
                        seen.add(i)
                        if any(from_counters(d, seen) for d in defs[i]):
                            return True
            return False

        sizing = []
        for x in walk(f.body):
            if x.get('kind') == 'CXXMemberCallExpr' and children(x):
                callee = strip(children(x)[0])
                if callee.get('name') in ('resize', 'insert', 'assign', 'append', 'push_back', 'emplace_back', 'erase') and \
                        children(callee) and 'vector<' in (strip(children(callee)[0]).get('type') or ''):
                    sizing.append((x, any(from_counters(a) for a in children(x)[1:])))
        guarded = False
        for x in walk(f.body):
            if x.get('kind') == 'IfStmt' and len(children(x)) >= 2 and from_counters(children(x)[0]) and \
                    any(y.get('kind') == 'CXXThrowExpr' for y in walk(children(x)[1])):
                guarded = True
        short = '::'.join((f.qualname or '').split('::')[-2:])
        inst = '%s: %d operation(s) size the result' % (short, len(sizing))
        if any(dep for _, dep in sizing):
            chk.ok(rid, inst + ', at least one from the stream\'s output counters', locstr(f.node))
        elif guarded:
            chk.ok(rid, inst + '; a test of the stream\'s output counters guards a throw', locstr(f.node))
        else:
            at = locstr(sizing[0][0]) if sizing else locstr(f.node)
            chk.violation(rid, '%s|result length not taken from inflate' % short, at,
                          '%s, none of them computed from avail_out / total_out, and no test of those counters rejects a '
                          'mismatch: the length of the decompressed payload is whatever the length prefix says, not what '
                          'the stream holds' % inst)
    if n == 0:
        chk.fail_broken('%s: no repository function calls inflate()' % rid)
    if not str(getattr(prog, 'repo', '')).endswith('controls/repo'):
        positive_control(chk, rid, inflated_length_is_result_length, ['control_prefix_sized'])
    return n


def primitives_exact(prog, chk, rid):
    """Rule L1 of C02 under another property: every fixed-width primitive places byte i at the bit position its
    byte order prescribes, composes 64-bit values from two 32-bit halves (shifts 0 and 32, no sign extension of
    the low half), carries doubles bit-exactly and advances by its width."""
    from .. import codec
    facts = codec.primitive_facts(prog)
    for name, (ok, why, *rest) in facts.items():
        f = rest[0] if rest else None
        loc = locstr(f.node) if f is not None else name
        if f is not None:
            chk.analysed(f)
        if ok is None:
            chk.unknown(rid, name, why)
        elif ok:
            chk.ok(rid, name, loc, detail=why)
        else:
            chk.violation(rid, 'primitive|%s' % name, loc, '%s: %s' % (name, why))
    return len(facts)


def deflate_complete(prog, chk, rid):
    """Rule S6 of C03 under another property: finite evaluation of the compressor's chunk loop."""
    from . import c02
    ENG = 'djinterop::engine::'
    zc = prog.func(ENG + 'zlib_compress')
    chk.analysed(zc)
    try:
        c02._deflate_complete(prog, chk, rid, zc)
        c02._pending_output(prog, chk, rid, zc, 'deflate')
    except AnalysisBroken as e:
        chk.fail_broken('%s: %s' % (rid, e))


_ENV_DEPENDENT = ('mktime', 'localtime', 'localtime_r', 'localtime_s', 'tzset', 'setlocale', 'getenv', 'secure_getenv',
                  'strtod', 'strtof', 'atof', 'wcsftime', 'strptime', 'ctime', 'asctime')


def environment_independent(prog, chk, rid, floor_functions=20):
    """What is stored and what is read back does not depend on the process environment: no repository function
    calls a C library routine whose result depends on the time zone (`mktime`, `localtime*`, `ctime`), the locale
    (`strtod`, `atof`, `setlocale`, `strptime`) or an environment variable.  A formatter that writes UTC and a
    parser that reads local time agree only where the two coincide - which is where the tests run."""
    n = 0
    for f in prog.functions.values():
        if f.body is None or f.is_pattern or not prog.in_repo(f.file) or '/src/' not in (f.file or ''):
            continue
        n += 1
        for x in walk(f.body):
            if x.get('kind') != 'CallExpr' or not children(x):
                continue
            ref = strip(children(x)[0]).get('referencedDecl') or {}
            if ref.get('name') in _ENV_DEPENDENT and ref.get('kind') == 'FunctionDecl':
                short = '::'.join((f.qualname or '').split('::')[-2:])
                chk.violation(rid, '%s|calls %s' % (short, ref['name']), locstr(x),
                              '%s calls %s(), whose result depends on the time zone / locale / environment of the '
                              'process: a value converted there is stored or read back differently on another machine '
                              'or under another TZ' % (short, ref['name']))
    if n < floor_functions:
        chk.fail_broken('%s: only %d repository functions scanned' % (rid, n))
    chk.ok(rid, '%d repository functions call no time-zone / locale / environment dependent C routine' % n, site='env')
    if not str(getattr(prog, 'repo', '')).endswith('controls/repo'):
        positive_control(chk, rid, lambda p_, rec, r_: environment_independent(p_, rec, r_, floor_functions=1),
                         ['control_local_time|calls mktime', 'control_locale_number|calls strtod'])
    return n


def bytes_read_unsigned(prog, chk, rid):
    """A byte taken from a blob means 0..255: wherever a `char` / `signed char` obtained by dereferencing or
    indexing a pointer is converted to a wider integer, the conversion goes through an unsigned 8-bit type.  A
    plain `char` is signed on x86, so `std::ptrdiff_t n = chars[0]` reads a length byte of 128..255 as negative."""
    n = 0
    hits = 0
    for f in prog.functions.values():
        if f.body is None or f.is_pattern or not prog.in_repo(f.file) or '/engine/' not in (f.file or ''):
            continue
        n += 1
        # the usual arithmetic conversions inside a comparison (`s[0] == ';'`, `*p < 'a'`) are not reads of a quantity
        in_compare = set()
        for x in walk(f.body):
            if x.get('kind') == 'BinaryOperator' and x.get('opcode') in ('==', '!=', '<', '>', '<=', '>='):
                cs = children(x)
                if any(strip(c, explicit=True).get('kind') == 'CharacterLiteral' for c in cs):
                    in_compare.update(id(c) for c in cs)
        for x in walk(f.body):
            if x.get('kind') != 'ImplicitCastExpr' or x.get('castKind') != 'IntegralCast' or not children(x):
                continue
            if id(x) in in_compare:
                continue
            dst = (x.get('type') or '').replace('const ', '').strip()
            src_node = children(x)[0]
            src = (src_node.get('type') or '').replace('const ', '').strip()
            if src not in ('char', 'signed char') or dst in ('char', 'signed char', 'unsigned char', 'uint8_t', 'std::uint8_t', 'bool'):
                continue
            y = strip(src_node, explicit=False)
            if y.get('kind') not in ('ArraySubscriptExpr', 'UnaryOperator'):
                continue
            if y.get('kind') == 'UnaryOperator' and y.get('opcode') != '*':
                continue
            # promotions inside a comparison with a character literal are not reads of a quantity
            hits += 1
            short = '::'.join((f.qualname or '').split('::')[-2:])
            chk.violation(rid, '%s|signed byte widened to %s' % (short, dst), locstr(x),
                          '%s widens a (signed) char read through a pointer to %s without going through an unsigned '
                          '8-bit type: a byte of 128..255 becomes negative' % (short, dst))
    if n < 20:
        chk.fail_broken('%s: only %d functions scanned' % (rid, n))
    if not hits:
        chk.ok(rid, '%d functions under src/djinterop/engine: no signed byte read through a pointer is widened' % n, site='bytes')
    if not str(getattr(prog, 'repo', '')).endswith('controls/repo'):
        positive_control(chk, rid, bytes_read_unsigned, ['control_signed_length'])
    return n


# ---- positive controls for rules that expect no report on the library --------------------------------------
_CONTROL_PROG = []


def control_program():
    """A Program built from sa/controls/repo (one translation unit of deliberately violating functions,
    parsed with the same front end); cached by the content of the unit."""
    if _CONTROL_PROG:
        return _CONTROL_PROG[0]
    import hashlib
    import os
    import pickle
    from .. import frontend
    from ..program import Program, TU
    root = os.path.join(os.path.dirname(os.path.dirname(os.path.abspath(__file__))), 'controls', 'repo')
    src = os.path.join(root, 'src', 'djinterop', 'engine', 'positive.cpp')
    with open(src, 'rb') as f:
        key = hashlib.sha1(f.read() + str(frontend.FORMAT_VERSION).encode()).hexdigest()[:16]
    outdir = os.path.join(frontend.CACHE, 'control-' + key)
    pkl = os.path.join(outdir, hashlib.sha1(src.encode()).hexdigest() + '.pkl')
    if not os.path.exists(pkl):
        os.makedirs(outdir, exist_ok=True)
        r = frontend._dump_unit((src, ['-std=gnu++17'], outdir))
        if r[1] is None:
            raise AnalysisBroken('positive-control unit does not parse: %s' % (r[2] or '')[-400:])
    with open(pkl, 'rb') as f:
        u = pickle.load(f)
    p = Program.__new__(Program)
    p.repo = root
    p.meta = {'units': [{'src': src}]}
    p.tus = [TU(u['src'], u['tops'])]
    p.functions, p.by_qualname, p.records, p.enums, p.enum_nodes = {}, {}, {}, {}, {}
    p.consts, p.var_nodes, p.derived, p.tu_of_node, p.def_by_declloc = {}, {}, {}, {}, {}
    for tu in p.tus:
        p._index_tu(tu)
    p._link_records()
    _CONTROL_PROG.append(p)
    return p


class _ControlRecorder:
    def __init__(self):
        self.hits = []

    def violation(self, rid, key, *a, **k):
        self.hits.append(key)

    def ok(self, *a, **k):
        pass

    def analysed(self, *a, **k):
        pass

    def unknown(self, *a, **k):
        pass

    def fail_broken(self, *a, **k):
        pass


def positive_control(chk, rid, rule, expected):
    """Run `rule(control program, recorder, rid)` and demand a report for each function named in `expected`."""
    p = control_program()
    rec = _ControlRecorder()
    rule(p, rec, rid)
    missing = [e for e in expected if not any(e in h for h in rec.hits)]
    if missing:
        chk.fail_broken('%s: the rule no longer reports the positive control(s) %s in sa/controls/repo (it saw: %s)' % (
            rid, ', '.join(missing), rec.hits[:4]))
    else:
        chk.extra.setdefault('positive_controls', {})[rid] = sorted(expected)


def writes_not_skipped_on_stored_state(prog, cg, eff, chk, rid, funcs, assume_schema=None, enum_order=None):
    """A mutator stores what it is given whatever is stored already: none of its writes that carry an argument
    is made under a path condition that compares the argument with what the database holds now (`if (stored ==
    wanted) return;`, `if (wanted != current()) write`).  Such a short cut is only as exact as the read side it
    compares with - a NULL that reads back as a default, a derived accessor that looks at a column the function
    has just overwritten - and then the call returns normally with the old value left in place.  (A test of
    stored state alone - does the row exist - and a test of the argument alone are not comparisons of the two.)"""
    from .. import valueflow as vf
    n = 0
    for f in funcs:
        if f.body is None or f.is_pattern:
            continue
        ip = vf.Interp(prog, cg, eff, assume_schema, enum_order)
        try:
            ip.run(f)
        except AnalysisBroken:
            raise
        short = '::'.join((f.qualname or '').split('::')[-2:])
        bad = None
        nw = 0
        by_loc = {}
        for w in ip.writes:
            vin = any(x[0] == 'in' for x in vf.leaves(w.value))
            if not vin:
                continue
            nw += 1
            gates = {}
            for c in w.conds:
                for cmp_, pol in _comparisons(c):
                    ls = list(vf.leaves(cmp_))
                    if any(x[0] == 'loc' for x in ls) and any(x[0] == 'in' for x in ls):
                        # comparing the wanted value with the very column this write stores (and nothing else) is
                        # exact: equal means there is nothing to write
                        # (a raw column of the written row, carried by copies only - not a value that a getter or a
                        # derived accessor computed from it - compared with the wanted value)
                        from .c06 import _plain_copy
                        sides = [a for a in cmp_[2] if any(x[0] == 'loc' for x in vf.leaves(a))]
                        if sides and any(_plain_copy(a) and all(x[1].lower() == w.table.lower() for x in vf.leaves(a)
                                                                 if x[0] == 'loc') for a in sides):
                            continue
                        gates[(vf.shape(cmp_), pol)] = cmp_
            by_loc.setdefault((w.table, w.column, w.disc), []).append((w, gates))
        # a location is skipped (not merely written differently in two branches) when one and the same comparison,
        # with one polarity, stands above every write of it
        for loc_, lst in by_loc.items():
            common = set(lst[0][1])
            for _, g in lst[1:]:
                common &= set(g)
            if common and bad is None:
                k_ = sorted(common)[0]
                bad = (lst[0][0], lst[0][1][k_])
        if not nw:
            continue
        n += 1
        chk.analysed(f)
        if bad is None:
            chk.ok(rid, '%s: %d argument-carrying write(s), none under a comparison of the argument with stored state' % (
                short, nw), locstr(f.node))
        else:
            w, c = bad
            chk.violation(rid, '%s|write of %s.%s skipped on a comparison with stored state' % (short, w.table, w.column),
                          locstr(f.node),
                          '%s writes %s.%s only when %s - a comparison of the argument with what is stored now: the call '
                          'returns normally without writing whenever the read side makes the two look equal' % (
                              short, w.table, w.column, vf.shape(c)[:160]))
    return n


def _comparisons(t, depth=0, pol=True):
    """the ==, != sub-terms of a condition term (through !, &&, ||, helper calls that were inlined)"""
    out = []
    if not isinstance(t, tuple) or not t or depth > 30:
        return out
    if t[0] == 'op' and t[1] in ('==', '!='):
        out.append((t, pol))
        return out
    if t[0] == 'op':
        for a in t[2]:
            out += _comparisons(a, depth + 1, (not pol) if t[1] == '!' else pol)
    elif t[0] in ('call', 'callm') and len(t) > 3 and isinstance(t[3], tuple):
        out += _comparisons(t[3], depth + 1, pol)
    elif t[0] == 'phi':
        for a in t[1]:
            out += _comparisons(a, depth + 1, pol)
    elif t[0] == 'ite':
        for a in t[1:]:
            out += _comparisons(a, depth + 1, pol)
    return out

def _mutators_of(prog, classes):
    return [f for f in prog.functions.values() if f.cls in classes and f.body is not None and not f.is_pattern and
            (f.name.startswith('set_') or f.name in ('update', 'add', 'add_back', 'remove', 'add_track', 'remove_track'))]


def transaction_control_only_in_guard(prog, cg, eff, chk, rid):
    """Only the transaction guard class issues transaction-control statements (BEGIN, COMMIT, ROLLBACK, SAVEPOINT,
    RELEASE, END): a hand-written `SAVEPOINT x` ... `ROLLBACK TO x` elsewhere is outside everything the guard-shape
    and scope rules decide (ROLLBACK TO does not end the transaction: without RELEASE the connection stays inside
    it, and all later work is lost when the last handle is released)."""
    n = bad = 0
    for f in prog.functions.values():
        if f.body is None or f.is_pattern or not prog.in_repo(f.file):
            continue
        for s_ in eff.sites(f):
            st = s_.stored_in
            text = (st.text() if st is not None else '') or ''
            head = text.strip().split(' ')[0].upper() if text.strip() else ''
            if head not in ('BEGIN', 'COMMIT', 'ROLLBACK', 'SAVEPOINT', 'RELEASE', 'END'):
                continue
            n += 1
            short = '::'.join((f.qualname or '').split('::')[-2:])
            if f.cls == TXN:
                chk.ok(rid, '%s issues %s (the guard class)' % (short, head), locstr(s_.node))
            else:
                bad += 1
                chk.violation(rid, '%s|issues %s outside the guard class' % (short, head), locstr(s_.node),
                              '%s issues `%s` itself: transaction control outside the guard class is not covered by the '
                              'guard-shape and scope rules (a ROLLBACK TO without RELEASE leaves the transaction open)' % (
                                  short, text.strip()[:60]))
    if n < 3:
        chk.fail_broken('%s: fewer than three transaction-control statements found (%d) - the guard class was not seen' % (rid, n))
    return n


def no_pattern_match_in_writes(prog, cg, eff, chk, rid):
    """Which rows a DELETE / UPDATE touches is decided by equality on keys, never by LIKE / GLOB against text the
    caller supplied or the database holds: LIKE is case-insensitive and treats `_` and `%` in the text as wildcards,
    so rows of other crates / tracks whose names merely resemble the pattern are hit as well."""
    n = 0
    for f in prog.functions.values():
        if f.body is None or f.is_pattern or not prog.in_repo(f.file) or '/schema/' in (f.file or ''):
            continue
        for s_ in eff.sites(f):
            st = s_.stored_in
            if st is None or st.kind not in ('delete', 'update'):
                continue
            n += 1
            text = ' ' + (st.text() or '').upper() + ' '
            short = '::'.join((f.qualname or '').split('::')[-2:])
            m = re.search(r'\b(NOT\s+)?(LIKE|GLOB)\s+(\?|[A-Z_]+\s*\|\|)', text)
            if m:
                chk.violation(rid, '%s|%s selects rows by %s' % (short, st.kind.upper(), m.group(2)), locstr(s_.node),
                              '%s: `%s` selects the rows it changes by %s against a bound / computed pattern: names that '
                              'differ only in case, or names containing _ or %%, match rows of other objects' % (
                                  short, (st.text() or '')[:90], m.group(2)))
            else:
                chk.ok(rid, '%s: %s of %s selects its rows without pattern matching' % (short, st.kind, st.table), locstr(s_.node))
    if n < 20:
        chk.fail_broken('%s: only %d DELETE / UPDATE statements found' % (rid, n))
    return n


def ddl_only_in_creators(prog, cg, eff, chk, rid):
    """What a created library contains is what the creator class of its version executes - nothing else: no function
    outside the schema creator classes (src/djinterop/engine/schema/) issues CREATE / ALTER / DROP.  An extra
    trigger or index added by the library class after `creator->create(db)` is in no reference dump."""
    n = 0
    outside = 0
    for f in prog.functions.values():
        if f.body is None or f.is_pattern or not prog.in_repo(f.file):
            continue
        in_schema = '/engine/schema/' in (f.file or '')
        for s_ in eff.sites(f):
            st = s_.stored_in
            text = ((st.text() if st is not None else '') or '').strip()
            head = text.split(' ')[0].upper() if text else ''
            if head not in ('CREATE', 'ALTER', 'DROP'):
                continue
            n += 1
            if in_schema:
                continue
            outside += 1
            short = '::'.join((f.qualname or '').split('::')[-2:])
            chk.violation(rid, '%s|issues %s outside the creator classes' % (short, ' '.join(text.upper().split(' ')[:2])),
                          locstr(s_.node),
                          '%s executes `%s`: an object the creator class of the version does not define is in no reference '
                          'dump of that version' % (short, text[:70]))
    if n < 100:
        chk.fail_broken('%s: only %d DDL statements found in the repository' % (rid, n))
    if not outside:
        chk.ok(rid, '%d DDL statements, all in the schema creator classes' % n, site='ddl')
    return n


def no_unbounded_lock_wait(prog, chk, rid):
    """A public call on a locked database ends (SQLite reports SQLITE_BUSY, the library throws): the repository
    installs no busy handler (`sqlite3_busy_handler`), whose callback decides for itself whether to keep waiting -
    one that always asks for another try makes every call wait for as long as another connection holds the lock.
    (`sqlite3_busy_timeout` is bounded by its argument and is accepted.)"""
    n = 0
    hits = 0
    for f in prog.functions.values():
        if f.body is None or f.is_pattern or not prog.in_repo(f.file) or '/src/' not in (f.file or ''):
            continue
        n += 1
        for x in walk(f.body):
            if x.get('kind') == 'CallExpr' and children(x) and \
                    (strip(children(x)[0]).get('referencedDecl') or {}).get('name') == 'sqlite3_busy_handler':
                hits += 1
                short = '::'.join((f.qualname or '').split('::')[-2:])
                chk.violation(rid, '%s|installs a busy handler' % short, locstr(x),
                              '%s installs a busy handler: whether a call on a locked database ever returns is then up to '
                              'that callback, not to SQLite\'s bounded default (report SQLITE_BUSY at once)' % short)
    if not hits:
        chk.ok(rid, '%d repository functions install no busy handler' % n, site='busy')
    return n
