"""C14  A failed mutating call leaves no partial update.

A1  on every path of every mutating operation, nothing executes after the first
    completed write unit (a unit = one write statement outside a transaction, or one
    transaction containing writes); i.e. >= 2 writes => one transaction
A2  every transaction is committed on every path that leaves its scope normally
A3  no transaction is opened while one is live
A4  no handler on a mutator's call tree can swallow an SQL error
A5  shape of the guard class: BEGIN in the constructor, ROLLBACK in the destructor
    iff not committed, commit() issues COMMIT before setting the flag
"""
import json
import re

from .. import program, callgraph, effects, atomic
from ..frontend import AnalysisBroken
from ..program import children, strip, walk, locstr
from ..report import Check
from . import c16

TXN = atomic.TXN
CREATION = re.compile(r'::(create_database|create_temporary_database|create_database_from_scripts|'
                      r'create_or_load_database|engine_library::create|engine_library::create_temporary)\b')
SQL_ERROR_BASES = ('sqlite_exception', 'sqlite::sqlite_exception', 'std::exception', 'exception',
                   'std::runtime_error', 'runtime_error')


def _short(q):
    return q.replace('djinterop::engine::', '').replace('djinterop::', '')


def _disc(f):
    st = f.stmt or ''
    m = re.match(r'(\w+)(?:\s+OR\s+REPLACE)?(?:\s+INTO|\s+FROM)?\s+(?:music\s*\.\s*|perfdata\s*\.\s*)?(\w+)', st)
    kind = 'write' if f.rule == 'A1' else 'read'
    if st.upper().startswith('SELECT'):
        m2 = re.search(r'FROM\s+(\w+)', st)
        return 'read %s' % (m2.group(1) if m2 else '?')
    if m:
        return '%s %s %s' % (kind, m.group(1).upper(), m.group(2))
    return '%s %s' % (kind, st[:30])


def swallowed_errors(prog, cg, chk, A4, reach_roots):
    """No catch handler reachable from a mutating operation completes normally on an SQL error.  An SQL error is
    sqlite::sqlite_exception (or a base of it) - and every type that some handler in the library throws in its
    place (a handler for an SQL error type whose body throws T makes T carry SQL failures from then on: catching
    T somewhere else without rethrowing swallows a failed statement just the same)."""
    reach = cg.reachable(reach_roots)
    carriers = set(SQL_ERROR_BASES)
    handlers = []
    for f in prog.functions.values():
        if f.body is None or f.is_pattern or not prog.in_repo(f.file):
            continue
        for n in walk(f.node):
            if n.get('kind') != 'CXXCatchStmt':
                continue
            c = children(n)
            var = c[0] if c and c[0].get('kind') == 'VarDecl' else None
            htype = program.norm_type_name(var.get('type')) if var is not None else '...'
            body = c[-1] if c else None
            thrown = set()
            for x in (walk(body) if body is not None else []):
                if x.get('kind') == 'CXXThrowExpr' and children(x):
                    t = strip(children(x)[0]).get('type') or children(x)[0].get('type') or ''
                    thrown.add(program.norm_type_name(t))
            handlers.append((f, n, htype, body, thrown))
    changed = True
    while changed:
        changed = False
        for f, n, htype, body, thrown in handlers:
            if htype in carriers or htype == '...':
                new = {t for t in thrown if t and t not in carriers}
                if new:
                    carriers |= new
                    changed = True
    n_catch = 0
    for f, n, htype, body, thrown in handlers:
        if f.key not in reach:
            continue
        n_catch += 1
        rethrows = body is not None and any(x.get('kind') == 'CXXThrowExpr' for x in walk(body))
        inst = '%s catches %s' % (f.qualname, htype)
        if rethrows:
            chk.ok(A4, inst, locstr(n), detail='handler throws')
        elif f.cls == TXN and f.kind == 'CXXDestructorDecl':
            chk.ok(A4, inst, locstr(n), detail='reasoned exception: a failing ROLLBACK after '
                   'an automatic rollback is harmless (SQLite documentation); the original '
                   'exception is still propagating')
        elif htype in carriers or htype == '...':
            via = '' if htype in SQL_ERROR_BASES or htype == '...' else \
                ' (%s carries SQL failures: a handler for an SQL error type throws it in their place)' % htype
            chk.violation(A4, '%s|%s' % (_short(f.qualname), htype), locstr(n),
                          'handler for %s in %s (reachable from a mutating operation) does not '
                          'rethrow: a failing statement would be swallowed%s' % (htype, f.qualname, via))
        else:
            chk.ok(A4, inst, locstr(n), detail='handler type is not an SQL error type')
    if n_catch == 0:
        # positive control for the zero case: the guard destructor's handler must be visible
        dt = [f for f in prog.functions.values() if f.cls == TXN and f.kind == 'CXXDestructorDecl']
        if not dt or not any(x.get('kind') == 'CXXCatchStmt' for x in walk(dt[0].node)):
            chk.fail_broken('A4: no catch site visible at all, not even the transaction destructor\'s')


def run(tier='quick'):
    prog = program.load()
    cg = callgraph.get(prog)
    eff = atomic.ResolvedEffects(prog, cg)
    chk = Check('C14', tier)
    chk.units = len(prog.tus)
    A1 = chk.rule('A1', 'on every path of a mutating operation nothing is executed after the first '
                        'completed write unit: two or more writes lie inside one live '
                        'sqlite_transaction, and no statement (not even a SELECT, whose failure would '
                        'make the call throw with the unit already persisted) follows a unit', floor=110)
    A2 = chk.rule('A2', 'a sqlite_transaction is committed on every path that leaves its scope '
                        'without throwing', floor=15)
    A3 = chk.rule('A3', 'no sqlite_transaction is constructed while another is live on the path '
                        '(SQLite refuses a nested BEGIN)', floor=15)
    A4 = chk.rule('A4', 'no catch handler reachable from a mutating operation can swallow an SQL '
                        'error (handler type is not a base of sqlite_exception, or it rethrows); '
                        'the transaction destructor is the one reasoned exception', floor=1)
    A5 = chk.rule('A5', 'sqlite_transaction: constructor issues BEGIN, destructor issues ROLLBACK '
                        'exactly when commit() has not completed, commit() issues COMMIT and only '
                        'then sets the flag', floor=4)
    A6 = chk.rule('A6', 'every SQL statement executes where it is written: its binder is a temporary of the '
                        'full expression, not a named object (a named database_binder runs in its destructor, at '
                        'the end of the scope - after a COMMIT written before that point)', floor=300)
    chk.assume('SQLite executes one statement atomically, including the triggers it fires')
    chk.assume('BEGIN .. COMMIT is atomic and ROLLBACK restores the state at BEGIN (both attached '
               'files share the connection)')
    chk.note('scope: mutating operations on an existing library (tracks, crates, membership, fields '
             '- the objects the property names); library creation (create_database*, '
             'engine_library::create*) writes many DDL statements without a transaction and is not '
             'judged by A1')

    obs, mut, skipped = c16.api_surface(prog)
    an = atomic.Analyzer(prog, cg, eff)
    seen_keys = {}
    n_entries = 0
    txn_scopes = set()
    for label, defs, kind in mut:
        if CREATION.search(label):
            continue
        for d in defs:
            n_entries += 1
            chk.analysed(d)
            exits, finds = an.run_entry(d)
            where = '%s:%s' % (program.rel(d.file), d.line)
            mine = {'A1': [], 'A2': [], 'A3': []}
            for f in finds:
                r = 'A1' if f.rule in ('A1', 'A1r') else f.rule
                mine.setdefault(r, []).append(f)
            for r in ('A1', 'A2', 'A3'):
                if not mine[r]:
                    if r == 'A1':
                        chk.ok(r, label, where, detail={'exit_states': len(exits)})
                    continue
                for f in mine[r]:
                    anc = f.anc or f.func
                    if r == 'A1':
                        key = '%s|%s' % (_short(anc), _disc(f))
                    else:
                        key = '%s|%s' % (_short(f.func or anc), r)
                    if (r, key) in seen_keys:
                        continue
                    seen_keys[(r, key)] = 1
                    msg = '%s; first write unit at %s; reached from %s via %s' % (
                        f.what, f.first, label.split(' ')[0], ' > '.join(_short(c) for c in f.chain))
                    if r == 'A1':
                        msg = ('in %s: %s [%s]' % (_short(anc), msg, f.stmt))
                    chk.violation(r, key, f.loc, msg,
                                  facts={'entry': label, 'call_chain': f.chain,
                                         'first_write_unit': f.first, 'statement': f.stmt,
                                         'joining_function': anc},
                                  instance=label)
    for k in an.seen_funcs:
        chk.analysed(k)

    # A2 / A3 instances: every transaction scope in the library
    txn_funcs = []
    for f in prog.functions.values():
        if f.is_pattern or f.body is None or f.cls == TXN:
            continue
        for n in walk(f.node):
            if n.get('kind') == 'VarDecl' and cg.record_of_type(n.get('type')) == TXN:
                txn_funcs.append((f, n))
    reported_a2 = {k for (r, k) in seen_keys if r == 'A2'}
    reported_a3 = {k for (r, k) in seen_keys if r == 'A3'}
    for f, n in txn_funcs:
        # stand-alone evaluation of the function (covers scopes not reachable from the API)
        exits, finds = an.run_entry(f)
        for r, rep in (('A2', reported_a2), ('A3', reported_a3)):
            bad = [x for x in finds if x.rule == r and (x.func == f.qualname)]
            key = '%s|%s' % (_short(f.qualname), r)
            if bad and key not in rep:
                rep.add(key)
                chk.violation(r, key, bad[0].loc, bad[0].what, facts={'function': f.qualname})
            elif not bad and key not in rep:
                chk.ok(r, '%s: %s' % (f.qualname, n.get('name')), locstr(n))

    # A4
    swallowed_errors(prog, cg, chk, A4, [d for label, defs, kind in mut for d in defs])

    # A5
    _guard_shape(prog, eff, chk, A5)
    immediate_statements(prog, eff, chk, A6)

    A9 = chk.rule('A9', 'a public operation written as a template in a header is one write unit too: it does not call a '
                        'mutating operation of its class in a loop (every call commits on its own, so a failure at the k-th '
                        'element leaves the first k - 1 applied)', floor=1)
    header_templates(prog, chk, A9, mut)
    A7 = chk.rule('A7', 'creating a library is all-or-nothing: the call that runs the creator statements sits in a try block '
                        'whose catch-all handler removes the files this call created and rethrows (the DDL runs statement '
                        'by statement in autocommit; a failure part-way otherwise leaves files that load rejects and '
                        'create refuses to overwrite)', floor=2)
    creation_is_atomic(prog, cg, chk, A7)
    A8 = chk.rule('A8', 'a connection on which transactions span several attached files has a file as its main database: '
                        'SQLite makes a multi-file COMMIT atomic through a super-journal next to the main database file, '
                        'and writes none when the main database is :memory:', floor=2)
    multi_file_commit(prog, cg, eff, chk, A8)

    chk.extra['entry_points'] = n_entries
    chk.extra['transaction_scopes'] = len(txn_funcs)
    chk.extra['statement_site_executions_walked'] = an.stats['sites']
    chk.extra['calls_inlined'] = an.stats['calls']
    if n_entries < 110:
        chk.fail_broken('only %d mutating entry points found (floor 110)' % n_entries)
    A10 = chk.rule('A10', 'only the transaction guard class issues transaction-control statements, so that the scope rules '
                          'above (A1 - A3, A5) see every transaction there is', floor=3)
    from . import extra as _extra
    _extra.transaction_control_only_in_guard(prog, cg, eff, chk, A10)
    return chk.finish(
        'path analysis of write units over the structured AST of %d mutating entry points '
        '(façade methods of track / crate / database and the mutators of the five 2.x table '
        'classes), callees inlined through the resolved call graph with memoisation, branches '
        'forked, loops iterated twice, lambda bodies as loops; %d transaction scopes checked for '
        'commit-on-all-normal-exits and nesting' % (n_entries, len(txn_funcs)))


def header_templates(prog, chk, A9, mut):
    mutators = {}
    for label, defs, kind in mut:
        q = label.split(' ')[0]
        cls, _, name = q.rpartition('::')
        mutators.setdefault(cls, set()).add(name)
    n = 0
    src_cache = {}
    for f in sorted(prog.functions.values(), key=lambda x: (x.file or '', x.line)):
        if not f.is_pattern or f.body is None or f.cls not in ('djinterop::crate', 'djinterop::track', 'djinterop::database'):
            continue
        n += 1
        chk.analysed(f)
        short = f.qualname.replace('djinterop::', '')
        bad = None
        for lp in walk(f.body):
            if lp.get('kind') not in ('ForStmt', 'CXXForRangeStmt', 'WhileStmt', 'DoStmt'):
                continue
            for c in walk(lp):
                if c.get('kind') not in ('CallExpr', 'CXXMemberCallExpr'):
                    continue
                callee = strip(children(c)[0]) if children(c) else {}
                name = callee.get('name')
                if name is None and callee.get('kind') in ('UnresolvedMemberExpr', 'UnresolvedLookupExpr',
                                                           'CXXDependentScopeMemberExpr') and callee.get('loc'):
                    path, _, _, off = callee['loc'][:4]
                    if path not in src_cache:
                        try:
                            src_cache[path] = open(path, 'rb').read()
                        except OSError:
                            src_cache[path] = b''
                    m = re.match(rb'(?:this\s*->\s*)?([A-Za-z_]\w*)', src_cache[path][off:off + 80])
                    name = m.group(1).decode() if m else None
                if name in mutators.get(f.cls, ()):
                    bad = (name, c)
        inst = '%s (header template)' % short
        if bad:
            chk.violation(A9, '%s|loops over %s' % (short, bad[0]), locstr(bad[1]),
                          '%s calls %s once per element: each call is a write unit of its own (its own statement or '
                          'transaction), so when the statements of the k-th element fail the call throws with the '
                          'first k - 1 elements applied' % (inst, bad[0]))
        else:
            chk.ok(A9, inst + ' contains no loop over a mutating operation', locstr(f.node))
    if n == 0:
        raise AnalysisBroken('A9: no member template of the handle classes found (crate::add_tracks is one)')


def creation_is_atomic(prog, cg, chk, A7):
    from . import c17
    n = 0
    # the calls `<creator>->create(db)` outside the schema classes' own members, and the calls of the helpers that
    # hand their database parameter on to one (`create_schema(schema, db)`, wherever it is defined), transitively
    vc = c17.validator_calls(prog, 'create')
    for f in vc.funcs.values():
        if 'temporary' in f.name:
            continue        # nothing on disk to leave behind
        opens_files = any(e.name and e.name.split('::')[-1] in ('create_legacy_sqlite_database',
                                                                'create_database2_sqlite_database')
                          for e in cg.edges(f))
        if not opens_files:
            continue
        parent = vc.parents(f)
        standing = {id(call) for call, t in vc.sites.get(f.key, [])}
        # a helper of the repository that runs the creator on a database it reaches otherwise (a member)
        standing |= {id(e.node) for e in cg.edges(f)
                     if any(t.key in vc.direct and t.key != f.key for t in e.targets)}
        for call in walk(f.body):
            if id(call) not in standing:
                continue
            n += 1
            chk.analysed(f)
            short = f.qualname.replace('djinterop::engine::', '')
            ok = False
            x = call
            while id(x) in parent:
                x = parent[id(x)]
                if x.get('kind') != 'CXXTryStmt':
                    continue
                for h in children(x)[1:]:
                    if h.get('kind') != 'CXXCatchStmt':
                        continue
                    hv = [c for c in children(h) if c.get('kind') == 'VarDecl']
                    catch_all = not hv or 'std::exception' in (hv[0].get('type') or '')
                    removes = False
                    for y in walk(h):
                        if y.get('kind') in ('CallExpr', 'CXXMemberCallExpr'):
                            e = cg.edge_for(f, y)
                            names = [e.name] if e is not None and e.name else []
                            names += [t.qualname for t in (e.targets if e is not None else ())]
                            if any(re.search(r'(^|::)(remove|unlink|remove_all|_unlink|DeleteFileA)$', nm or '')
                                   or 'remove' in (nm or '').split('::')[-1] for nm in names):
                                removes = True
                    rethrows = any(y.get('kind') == 'CXXThrowExpr' for y in walk(h))
                    if catch_all and removes and rethrows:
                        ok = True
            if ok:
                chk.ok(A7, '%s removes what it created when the creator throws' % short, locstr(call))
            else:
                chk.violation(A7, '%s|failed creation leaves files' % short, locstr(call),
                              '%s runs the creator statements (40 - 100 statements in autocommit) with no handler that '
                              'removes the database files opened just before: when one of them fails, a half-built m.db '
                              '(and p.db) stays; database_exists then throws instead of answering, load_database throws '
                              'and create_database refuses because a file exists' % short)
    if n < 2:
        raise AnalysisBroken('A7: fewer than two on-disk creation sites found (%d)' % n)


def multi_file_commit(prog, cg, eff, chk, A8):
    from . import c16
    n = 0
    repo_funcs = [f for f in prog.functions.values()
                  if not f.is_pattern and f.body is not None and prog.in_repo(f.file)]
    callers = None

    def callers_of(f):
        nonlocal callers
        if callers is None:
            callers = {}
            for g in repo_funcs:
                for ed in cg.edges(g):
                    if ed.node.get('kind') in ('CallExpr', 'CXXMemberCallExpr'):
                        for t in ed.targets:
                            callers.setdefault(t.key, []).append((g, ed.node))
        return callers.get(f.key, [])

    def bare_param(sp):
        return sp is not None and len(sp) == 1 and isinstance(sp[0], tuple)

    for f in repo_funcs:
        attaches = [s_ for s_ in eff.sites(f) if s_.stored_in is not None and s_.stored_in.kind == 'attach' and s_.binds]
        paths = [c16._sym_path(prog, f, s_.binds[0]) for s_ in attaches]
        files = [sp for sp in paths if sp not in (None, (':memory:',))]
        if len(files) < 2:
            continue
        mains = [c16._sym_path(prog, f, arg) for g, node, arg in c16._open_sites(prog, cg, {f.key: (f, None, None)})]
        # the connection belongs to the function that says which files it spans.  A helper that is handed the
        # complete paths (`open_pair(m_db_path, p_db_path)`, shared by the creating and the loading function)
        # stands for each of its callers, with the arguments in place of the parameters.
        owners = [(f, mains)]
        if all(bare_param(sp) for sp in files) and callers_of(f):
            names = [p_.get('name') for p_ in f.params]
            owners = []
            for g, c in callers_of(f):
                args = children(c)[1:]
                gm = []
                for m in mains:
                    if bare_param(m) and m[0][1] in names and names.index(m[0][1]) < len(args):
                        gm.append(c16._sym_path(prog, g, args[names.index(m[0][1])]))
                    else:
                        gm.append(m)
                if not any(o.key == g.key for o, _ in owners):
                    owners.append((g, gm))
        for g, gm in owners:
            n += 1
            chk.analysed(g)
            short = g.qualname.replace('djinterop::engine::', '')
            if gm and all(m is not None and m != (':memory:',) for m in gm):
                chk.ok(A8, '%s attaches %d files to a file-backed main database' % (short, len(files)), locstr(g.node))
            else:
                chk.violation(A8, '%s|multi-file commit without super-journal' % short, locstr(g.node),
                              '%s opens an in-memory main database and attaches %d files: a transaction that writes both '
                              '(create_track, track::update, set_key, set_sample_count, set_sample_rate on 1.x) is committed '
                              'file by file, so a failure between the two leaves the m.db half committed although the call '
                              'throws' % (short, len(files)))
    if n < 2:
        raise AnalysisBroken('A8: fewer than two functions attaching several files found (%d)' % n)


def immediate_statements(prog, eff, chk, A6):
    """sqlite_modern_cpp executes a statement when its database_binder is destroyed.  For the
    usual `db << "..." << a << b;` that is the end of the full expression.  A binder kept in a
    named variable (or member, or returned) is executed at the end of its scope instead, so the
    write unit analysis - which places a statement where it is written - would be wrong, and so
    is the code if a COMMIT sits in between."""
    n = 0
    for f in prog.functions.values():
        if f.body is None or f.is_pattern or not prog.in_repo(f.file):
            continue
        ss = eff.sites(f)
        if not ss:
            continue
        held = {}
        for x in walk(f.body):
            if x.get('kind') in ('VarDecl', 'FieldDecl', 'ReturnStmt'):
                t = (x.get('type') or '')
                if x.get('kind') == 'ReturnStmt' or 'database_binder' in t or t.strip() in ('auto', 'auto &&', 'auto &'):
                    for y in walk(x):
                        held[id(y)] = x
        for s_ in ss:
            n += 1
            h = held.get(id(s_.node))
            inst = '%s: statement at %s executes at the end of its own full expression' % (
                '::'.join((f.qualname or '').split('::')[-2:]), locstr(s_.node))
            if h is None or (h.get('kind') == 'ReturnStmt' and 'database_binder' not in (strip(children(h)[0]).get('type') or '' if children(h) else '')):
                chk.ok(A6, inst, locstr(s_.node))
            else:
                chk.violation(A6, '%s|statement held in %s' % ('::'.join((f.qualname or '').split('::')[-2:]),
                                                               h.get('name') or h.get('kind')), locstr(s_.node),
                              '%s: not so - the binder is kept in %s %s, so the statement (%s...) runs when that '
                              'object is destroyed at the end of its scope; a COMMIT or any statement written '
                              'after this point executes before it, and a failure then leaves the earlier '
                              'statements of the operation committed' % (
                                  inst, h.get('kind'), h.get('name') or '', s_.text[:50]))
    return n


def _guard_shape(prog, eff, chk, A5):
    ctor = [f for f in prog.functions.values() if f.cls == TXN and f.kind == 'CXXConstructorDecl'
            and f.body is not None and not f.defaulted]
    dtor = [f for f in prog.functions.values() if f.cls == TXN and f.kind == 'CXXDestructorDecl']
    commit = prog.by_name(TXN + '::commit')
    if not ctor or not dtor or not commit:
        raise AnalysisBroken('sqlite_transaction: constructor / destructor / commit not found')

    def role(st):
        """begin / commit / rollback role of a statement; the savepoint form (SAVEPOINT x /
        RELEASE x / ROLLBACK TO x followed by RELEASE x) is accepted as equivalent."""
        if st is None:
            return None
        t = st.text().upper()
        if st.kind == 'begin' or t.startswith('SAVEPOINT'):
            return 'begin'
        if st.kind == 'commit' or t.startswith('RELEASE'):
            return 'commit'
        if st.kind == 'rollback':
            return 'rollback-to' if ' TO ' in (' ' + t + ' ') else 'rollback'
        return st.kind

    def kinds(f):
        return [(effects.classify(s.stored_in), role(s.stored_in), s)
                for s in eff.sites(f)]
    # constructor
    for f in ctor:
        ks = kinds(f)
        if any(x.get('kind') == 'IfStmt' for x in walk(f.body)):
            continue        # conditional BEGIN: judged below by evaluating the constructor
        if [k for _, k, _ in ks] == ['begin']:
            chk.ok(A5, 'constructor issues exactly BEGIN', locstr(f.node))
        else:
            chk.violation(A5, 'sqlite_transaction|ctor', locstr(f.node),
                          'constructor statements are %s, expected exactly BEGIN' % [k for _, k, _ in ks])
    # the flag: the bool member of the guard (whatever its name)
    r = prog.records.get(TXN)
    flags = [x for x in (r.fields if r else []) if (x.get('type') or '').strip() in ('bool', 'const bool')]
    if len(flags) > 1:
        # the committed flag is the one commit() assigns; the others are fixed at construction
        asg = set()
        for x in walk(commit[0].body):
            if x.get('kind') == 'BinaryOperator' and x.get('opcode') == '=':
                l = strip(children(x)[0])
                if l.get('kind') == 'MemberExpr':
                    asg.add(l.get('name'))
            if x.get('kind') == 'CallExpr' and (strip(children(x)[0]).get('referencedDecl') or {}).get('name') == 'exchange':
                l = strip(children(x)[1], explicit=True)
                if l.get('kind') == 'MemberExpr':
                    asg.add(l.get('name'))
        cands = [x for x in flags if x.get('name') in asg]
        others = [x for x in flags if x.get('name') not in asg]
        if len(cands) != 1:
            chk.unknown(A5, 'sqlite_transaction', 'expected exactly one bool member assigned by commit(), found %d' % len(cands))
            return
        flags = cands
    else:
        others = []
    if len(flags) != 1:
        chk.unknown(A5, 'sqlite_transaction', 'expected exactly one bool member as committed flag, found %d' % len(flags))
        return
    flag = flags[0].get('name')
    fixed = {}          # further bool members: name -> value at construction (no transaction open: autocommit != 0)
    autocommit = [0]    # what sqlite3_get_autocommit() yields in the state being evaluated

    class Unknown(Exception):
        pass
    # locals of the guard's functions that are initialised once (`const bool active = ...;`)
    local_inits = {}
    for g_ in list(ctor) + list(dtor) + list(commit):
        if g_.body is None:
            continue
        for x_ in walk(g_.body):
            if x_.get('kind') == 'VarDecl':
                init_ = [y_ for y_ in children(x_) if not y_['kind'].endswith('Attr') and not y_['kind'].endswith('Comment')]
                if init_:
                    local_inits[x_.get('id')] = init_[-1]

    side = []

    def cond_value(cond, val):
        """Value of a condition of the guard in the state (flag == val, the transaction the
        constructor began is still open).  sqlite3_get_autocommit() is 0 while a transaction is open."""
        c = strip(cond, explicit=True)
        if c.get('kind') == 'UnaryOperator' and c.get('opcode') == '!':
            return not cond_value(children(c)[0], val)
        if c.get('kind') == 'MemberExpr' and c.get('name') == flag:
            return val
        if c.get('kind') == 'MemberExpr' and c.get('name') in fixed:
            return fixed[c['name']]
        if c.get('kind') == 'CXXMemberCallExpr':
            # a predicate member of the guard (`bool in_transaction() const { return ...; }`)
            nm_ = strip(children(c)[0]).get('name')
            gs_ = [g for g in prog.functions.values() if g.cls == TXN and g.name == nm_ and g.body is not None]
            if len(gs_) == 1:
                b_ = [x for x in children(gs_[0].body)]
                if len(b_) == 1 and b_[0].get('kind') == 'ReturnStmt' and children(b_[0]):
                    return cond_value(children(b_[0])[0], val)
        if c.get('kind') == 'BinaryOperator' and c.get('opcode') in ('&&', '||'):
            a_, b_ = children(c)
            if c['opcode'] == '&&':
                return bool(cond_value(a_, val)) and bool(cond_value(b_, val))
            return bool(cond_value(a_, val)) or bool(cond_value(b_, val))
        if c.get('kind') == 'CallExpr':
            nm = (strip(children(c)[0]).get('referencedDecl') or {}).get('name')
            if nm == 'sqlite3_get_autocommit':
                return autocommit[0]
            if nm == 'exchange' and len(children(c)) == 3:
                # std::exchange(flag, v): yields the old value and stores v
                tgt = strip(children(c)[1], explicit=True)
                nv = program.literal_value(children(c)[2])
                if tgt.get('kind') == 'MemberExpr' and tgt.get('name') == flag and isinstance(nv, bool):
                    side.append(nv)
                    return val
        lit = program.literal_value(c)
        if lit is not None and isinstance(lit, (bool, int)):
            return lit
        if c.get('kind') == 'DeclRefExpr' and (c.get('referencedDecl') or {}).get('id') in local_inits:
            return cond_value(local_inits[c['referencedDecl']['id']], val)
        if c.get('kind') == 'BinaryOperator' and c.get('opcode') in ('==', '!='):
            a_, b_ = children(c)
            lv = program.literal_value(b_)
            if strip(a_, explicit=True).get('name') == flag and isinstance(lv, bool):
                return (val == lv) if c['opcode'] == '==' else (val != lv)
            x, y = cond_value(a_, val), cond_value(b_, val)
            return (x == y) if c['opcode'] == '==' else (x != y)
        raise Unknown('condition %s' % locstr(cond))

    def events(f, node, val, out):
        """-> False when the path has returned."""
        k = node.get('kind')
        if k == 'CompoundStmt':
            for st in children(node):
                if not events(f, st, val, out):
                    return False
            return True
        if k == 'IfStmt':
            c = children(node)
            del side[:]
            v = cond_value(c[0], val[0])
            for nv in side:
                out.append(('assign', nv))
                val[0] = nv
            del side[:]
            if v:
                return events(f, c[1], val, out)
            if node.get('hasElse'):
                return events(f, c[2], val, out)
            return True
        if k == 'CXXTryStmt':
            return events(f, children(node)[0], val, out)
        if k == 'ReturnStmt':
            return False
        if k in ('NullStmt',):
            return True
        ss = [x for x in eff.sites(f) if any(y is x.node for y in walk(node))]
        for x in ss:
            out.append(('stmt', role(x.stored_in)))
        for x in walk(node):
            if x.get('kind') == 'BinaryOperator' and x.get('opcode') == '=':
                l = strip(children(x)[0])
                if l.get('kind') == 'MemberExpr' and l.get('name') == flag:
                    v = program.literal_value(children(x)[1])
                    out.append(('assign', v))
                    if isinstance(v, bool):
                        val[0] = v
        if any(x.get('kind') in ('IfStmt', 'ForStmt', 'WhileStmt', 'SwitchStmt') for x in walk(node)) and not ss:
            raise Unknown('statement %s' % locstr(node))
        return True
    try:
        # construction of the outermost guard: no transaction is open, sqlite3_get_autocommit() != 0
        autocommit[0] = 1
        for o_ in others:
            ini = None
            for f in ctor:
                for ci in f.inits:
                    if (ci.get('anyInit') or {}).get('name') == o_.get('name') and children(ci):
                        ini = children(ci)[-1]
            if ini is None:
                dm = [y for y in children(o_) if not y['kind'].endswith('Attr') and not y['kind'].endswith('Comment')]
                ini = dm[-1] if dm else None
            if ini is None:
                raise Unknown('member %s has no initialiser' % o_.get('name'))
            while strip(ini).get('kind') == 'InitListExpr' and len(children(strip(ini))) == 1:
                ini = children(strip(ini))[0]
            fixed[o_.get('name')] = bool(cond_value(ini, False))
        if others:
            for f in ctor:
                out = []
                events(f, f.body, [False], out)
                got = [x[1] for x in out if x[0] == 'stmt']
                if got == ['begin']:
                    chk.ok(A5, 'constructor of the outermost guard (%s) issues BEGIN' % fixed, locstr(f.node))
                else:
                    chk.violation(A5, 'sqlite_transaction|ctor', locstr(f.node),
                                  'constructed while no transaction is open (sqlite3_get_autocommit() != 0, so %s) the '
                                  'guard issues %s, expected BEGIN: the statements it is meant to group run in autocommit '
                                  'mode, each on its own' % (fixed, got or 'nothing'))
        autocommit[0] = 0       # from here on the guard's transaction is open
        f = dtor[0]
        for v0, want in ((False, (['rollback'], ['rollback-to', 'commit'])), (True, ([],))):
            out = []
            events(f, f.body, [v0], out)
            got = [x[1] for x in out if x[0] == 'stmt']
            inst = 'destructor with %s = %s issues %s' % (flag, str(v0).lower(), got or 'nothing')
            if got in list(want):
                chk.ok(A5, inst, locstr(f.node))
            else:
                chk.violation(A5, 'sqlite_transaction|dtor', locstr(f.node),
                              inst + ', expected %s: %s' % (' or '.join(map(str, want)),
                                                            'an uncommitted transaction is not rolled back (or, for the '
                                                            'savepoint form, never released: every later write stays '
                                                            'uncommitted)' if not v0 else 'a committed transaction is touched again'))
        f = commit[0]
        out = []
        events(f, f.body, [False], out)
        inst = 'commit() performs %s' % out
        if out == [('stmt', 'commit'), ('assign', True)]:
            chk.ok(A5, 'commit() issues COMMIT / RELEASE and only then sets %s' % flag, locstr(f.node))
        else:
            chk.violation(A5, 'sqlite_transaction|commit', locstr(f.node),
                          inst + ', expected the commit statement followed by %s = true: if the flag is set first and '
                          'the statement fails, the destructor does not roll back' % flag)
    except Unknown as e:
        chk.unknown(A5, 'sqlite_transaction', 'guard implementation outside the modelled subset: %s' % e)
        return
    if program.literal_value(flags[0]) is False:
        chk.ok(A5, '%s starts false' % flag, locstr(flags[0]))
    else:
        chk.violation(A5, 'sqlite_transaction|flag init', locstr(flags[0]),
                      '%s has no default member initialiser false' % flag)
