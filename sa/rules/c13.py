"""C13  Schema and layout detection is exact.

Y1  total decision table of detect_schema over version triples
Y2  1.18.0 variant marker separates the two 1.18.0 creators' DDL
Y3  truth table of detect_is_database2 over the 12 presence combinations
Y4  dispatch in load_database / create_database / database_exists
"""
import re

from .. import program, schemas, sites, sql, feval
from ..feval import Evaluator, UNKNOWN, Enum, Choice
from ..frontend import AnalysisBroken
from ..program import children, strip, walk, locstr, decode_string_literal
from ..report import Check

NS = 'djinterop::engine::'


class Sym:
    def __init__(self, name):
        self.name = name

    def __repr__(self):
        return '$' + self.name


def _supported(prog):
    """Enumerator names in supported_schemas (read from the initialiser)."""
    v = prog.var_nodes.get(NS + 'supported_schemas')
    if v is None:
        raise AnalysisBroken('supported_schemas not found')
    names = []
    for x in walk(v):
        if x.get('kind') == 'DeclRefExpr' and (x.get('referencedDecl') or {}).get('kind') == 'EnumConstantDecl':
            names.append(x['referencedDecl']['name'])
    if len(names) < 10:
        raise AnalysisBroken('supported_schemas: could not read the initialiser')
    return names


def _triple(name):
    m = re.match(r'schema_(\d+)_(\d+)_(\d+)(?:_(\w+))?$', name)
    return (int(m.group(1)), int(m.group(2)), int(m.group(3))), m.group(4)


def run(tier='quick'):
    prog = program.load()
    chk = Check('C13', tier)
    chk.units = len(prog.tus)
    Y9 = chk.rule('Y9', 'detection reads the library every time: no process-wide memory of what was detected (no mutable '
                        'namespace-scope variable, no assigned or parameter-initialised function-local static) - a memo keyed '
                        'on the file name and the schema cookie is not invalidated by an UPDATE of the Information row '
                        '(rule N1 of C10)', floor=1)
    from . import c10 as _c10
    _c10.no_process_state(prog, chk, Y9)
    try:
        return _run_rules(prog, chk, tier)
    except AnalysisBroken as e:
        # a rule could not be decided on this form of the code: exit 2 - unless a rule that was decided reports a
        # violation, which stands on its own
        chk.fail_broken(str(e))
        return chk.finish('finite evaluation aborted: %s' % e)


def _run_rules(prog, chk, tier):
    Y1 = chk.rule('Y1', 'detect_schema maps each supported version triple to its own enumerator and '
                        'every other triple in the surrounding box to throw unsupported_database; the '
                        'three Information columns feed major/minor/patch in that order', floor=200)
    Y2 = chk.rule('Y2', 'the column/type the 1.18.0 branch inspects separates the DDL of the two '
                        '1.18.0 creators, and selects each for its own DDL', floor=2)
    Y3 = chk.rule('Y3', 'detect_is_database2 over all presence combinations of (directory, m.db, '
                        'Database2/m.db): missing/none/both -> database_not_found, else the layout',
                  floor=8)
    Y4 = chk.rule('Y4', 'load_database / create_database / create_temporary_database / '
                        'database_exists / create_or_load_database dispatch on the detected layout '
                        'and schema, report the detected schema, and load reaches detect_schema on '
                        'every accepting path', floor=10)
    chk.assume('SQLite returns the stored Information row unchanged')

    supported = _supported(prog)
    enum = prog.enums.get(schemas.ENUM) or {}
    f = prog.func(schemas.NS + 'detect_schema')
    chk.analysed(f)

    # ---- which variable receives which column --------------------------------
    vsite = None
    for s in sites.find_sites(f):
        if 'schemaVersionMajor' in s.text and s.sink is not None:
            vsite = s
    if vsite is None:
        raise AnalysisBroken('detect_schema: version SELECT not found')
    st = sql.parse(vsite.text)
    cols = [c.lower() for c in st.columns]
    sink = strip(vsite.sink)
    tie_args = [strip(a) for a in children(sink)[1:]] if sink.get('kind') == 'CallExpr' else []
    local_ids = None
    # further columns of the same statement that report the storage class of a version column
    # (typeof(col)): their locals are fixed to 'integer' for Y1 and varied by Y7
    type_locals = {}
    if len(tie_args) == len(cols) and len(cols) > 3 and all(a.get('kind') == 'DeclRefExpr' for a in tie_args):
        keep = []
        for c, a in zip(cols, tie_args):
            m = re.match(r'^typeof \( (schemaversion(?:major|minor|patch)) \)$', c)
            if m:
                type_locals[(a.get('referencedDecl') or {}).get('id')] = m.group(1)
            else:
                keep.append((c, a))
        cols = [c for c, a in keep]
        tie_args = [a for c, a in keep]
    if len(tie_args) == 3 and len(cols) == 3 and all(a.get('kind') == 'DeclRefExpr' for a in tie_args):
        # std::tie(x, y, z) into three locals, from which a `semantic_version v{cast(x), cast(y), cast(z)}`
        # is built: the columns feed the members through the locals
        local_ids = [(a.get('referencedDecl') or {}).get('id') for a in tie_args]
        vid = None
        role = {}
        for d in walk(f.body):
            if d.get('kind') != 'VarDecl':
                continue
            rec = prog.records.get(program.norm_type_name(d.get('type') or ''))
            if rec is None or [x.get('name') for x in rec.fields] != ['maj', 'min', 'pat']:
                continue
            ini = [x for x in walk(d) if x.get('kind') == 'InitListExpr']
            if not ini or len(children(ini[0])) != 3:
                continue
            refs = []
            for a in children(ini[0]):
                ids = [(x.get('referencedDecl') or {}).get('id') for x in walk(a) if x.get('kind') == 'DeclRefExpr']
                refs.append([i for i in ids if i in local_ids])
            if all(len(r) == 1 for r in refs):
                vid = d['id']
                for fd, r in zip(rec.fields, refs):
                    role[cols[local_ids.index(r[0])]] = fd.get('name')
        if vid is None:
            raise AnalysisBroken('detect_schema: the three fetched locals do not initialise a semantic_version')
    elif len(tie_args) != 3 or len(cols) != 3 or not all(a.get('kind') == 'MemberExpr' for a in tie_args):
        raise AnalysisBroken('detect_schema: version sink is not std::tie(a.x, a.y, a.z)')
    else:
        var_ids = set()
        role = {}
        for c, a in zip(cols, tie_args):
            b = strip(children(a)[0])
            vid = (b.get('referencedDecl') or {}).get('id')
            var_ids.add(vid)
            role[c] = a.get('name')
        if len(var_ids) != 1:
            raise AnalysisBroken('detect_schema: version sink spans several variables')
        vid = var_ids.pop()
    want_role = {'schemaversionmajor': 'maj', 'schemaversionminor': 'min', 'schemaversionpatch': 'pat'}
    for c, m in want_role.items():
        if role.get(c) == m:
            chk.ok(Y1, 'Information.%s -> version.%s' % (c, m), locstr(vsite.node))
        else:
            chk.violation(Y1, 'detect_schema|column-role|%s' % c, locstr(vsite.node),
                          'column %s is read into version.%s, expected version.%s' % (c, role.get(c), m))
    _tbl_strs = set()
    for _p in vsite.sql_parts:
        if not isinstance(_p, str):
            for _x in program.walk_expanded(_p.node, f.node):
                if _x.get('kind') == 'StringLiteral':
                    _tbl_strs.add(decode_string_literal(_x.get('value')).lower())
    if (st.table or '').lower() != '${conditionaloperator}' and (st.table or '').lower() != 'information' \
            and 'information' not in vsite.text.lower() and not any('information' in z for z in _tbl_strs):
        chk.violation(Y1, 'detect_schema|table', locstr(vsite.node), 'version is not read from Information')

    # ---- candidate values: every case label, +-1, and far values ------------
    # The box is exhaustive when every test of a version component is `component <op> constant`
    # (equality, a case label or an ordering test): the constants and their neighbours cut the
    # integers into cells on which the outcome is constant.  Anything else - components combined
    # arithmetically (a packed version number), compared with each other - is found by following
    # the components through f and the repository callees that receive them.
    from .. import callgraph
    cg0 = callgraph.get(prog)
    flow = _component_flow(prog, cg0, f, vid, {lid: role[cn] for lid, cn in zip(local_ids, cols)} if local_ids else None)
    labels = {'maj': set(), 'min': set(), 'pat': set()}
    for v in flow['literals']:
        for k in labels:
            labels[k].update((v - 1, v, v + 1))
    for k in labels:
        labels[k].update((-1, 0, 1, 2, 3, 4, 99, 2 ** 31 - 1))
    for en in enum:
        (a, b, c), _ = _triple(en)
        labels['maj'].add(a)
        labels['min'].add(b)
        labels['pat'].add(c)
    packed = flow['packed']
    extra_cells = []
    if packed:
        # not exhaustive by construction: look for colliding triples.  For a packing such as
        # maj * M + min * N + pat the triples that share an image differ by multiples of the
        # literals and of their ratios, so cells at those offsets from every supported triple
        # are evaluated on top of the box.
        lits = sorted(v for v in flow['literals'] if v >= 2)
        offs = set(lits)
        for x in lits:
            for y in lits:
                if x > y >= 2 and x % y == 0:
                    offs.add(x // y)
        steps = {0, 1, -1}
        for o in offs:
            steps.update((o, -o))
        seen_cells = set()
        for en in enum:
            (a, b, c), _ = _triple(en)
            for i in (-1, 0, 1):
                for j in sorted(steps):
                    for k in sorted(steps):
                        t = (a + i, b + j, c + k)
                        if t not in seen_cells:
                            seen_cells.add(t)
                            extra_cells.append(t)
        chk.extra['packed_version_arithmetic'] = [w for w, _ in packed]
    expected = {}
    for en in supported:
        t, var = _triple(en)
        expected.setdefault(t, set()).add(en)
    all_enum_triples = {}
    for en in enum:
        t, var = _triple(en)
        all_enum_triples.setdefault(t, set()).add(en)

    def hook(ev, qn, args, env, node, stmt=False):
        return NotImplemented

    ncell = 0
    majs = sorted(labels['maj'])
    mins = sorted(labels['min'])
    pats = sorted(labels['pat'])
    # restrict the box: majors near supported ones x all minors x all patches
    majs = [m for m in majs if -1 <= m <= 5 or m in (99, 2 ** 31 - 1)]
    bad_cells = []
    box_cells = [(a, b, c) for a in majs for b in mins for c in pats]
    in_box = set(box_cells)
    for (a, b, c) in box_cells + [t for t in extra_cells if t not in in_box]:
        for _once in (0,):
            for _once2 in (0,):
                env = {('member', vid, 'maj'): a, ('member', vid, 'min'): b, ('member', vid, 'pat'): c}
                if local_ids is not None:
                    by_role = {'maj': a, 'min': b, 'pat': c}
                    env = {lid: by_role[role[cn]] for lid, cn in zip(local_ids, cols)}
                    for tl in type_locals:
                        env[tl] = ('integer',)
                ev = Evaluator(prog, f, hook)
                outs = ev.run(env)
                # outcomes before the version is known: precondition failures
                res = set()
                for o in outs:
                    if o.kind == 'throw' and not any(t[0] == 'case' for t in o.trace):
                        continue
                    if o.kind == 'return':
                        v = o.value
                        if isinstance(v, Enum):
                            res.add(('enum', v.name))
                        elif isinstance(v, Choice) and isinstance(v.a, Enum) and isinstance(v.b, Enum):
                            res.add(('enum', v.a.name))
                            res.add(('enum', v.b.name))
                        else:
                            res.add(('return?', repr(v)))
                    elif o.kind == 'throw':
                        res.add(('throw', o.value.split('::')[-1]))
                    else:
                        res.add((o.kind, None))
                ncell += 1
                t = (a, b, c)
                if t in expected:
                    want = {('enum', e) for e in expected[t]}
                else:
                    want = {('throw', 'unsupported_database')}
                if res == want:
                    if t in all_enum_triples or (abs(a) <= 3 and ncell % 7 == 0):
                        chk.ok(Y1, 'triple %d.%d.%d -> %s' % (a, b, c, sorted(x[1] for x in res)),
                               locstr(f.node), site='cell|%d.%d.%d' % t)
                    else:
                        chk.rules[Y1]['instances'] += 1
                        chk.rules[Y1]['ok'] += 1
                        chk._sites.add((Y1, 'cell|%d.%d.%d' % t))
                else:
                    bad_cells.append((t, res, want))
    for t, res, want in bad_cells:
        chk.violation(Y1, 'detect_schema|triple %d.%d.%d' % t, locstr(f.node),
                      'version %d.%d.%d yields %s, expected %s' % (
                          t + (sorted(res), sorted(want))),
                      facts={'triple': t, 'outcomes': sorted(map(str, res)), 'expected': sorted(map(str, want))})
    if packed and not [t for t, _, _ in bad_cells if t not in all_enum_triples]:
        raise AnalysisBroken('detect_schema combines or compares version components other than with a constant (%s): '
                             'the finite box is not exhaustive for that and no colliding triple was found in it'
                             % '; '.join(w for w, _ in packed))
    chk.extra['decision_table_cells'] = ncell
    chk.extra['box'] = {'major': majs, 'minor': mins, 'patch': pats}

    # ---- Y7 storage class of the stored components ------------------------------
    Y7 = chk.rule('Y7', 'a stored version component that is not an integer (NULL, text, a fraction, a blob) is not a '
                        'version: the fetch would coerce it (NULL and text to 0, 6.9 to 6), so detect_schema reads the '
                        'storage class of each component and rejects the library before the version switch', floor=12)
    by_col = {v: k for k, v in type_locals.items()}
    some = sorted(expected)[0] if expected else (1, 6, 0)
    for col in ('schemaversionmajor', 'schemaversionminor', 'schemaversionpatch'):
        for cls in ('null', 'text', 'real', 'blob'):
            inst = 'Information.%s stored as %s' % (col, cls)
            if col not in by_col or local_ids is None:
                chk.violation(Y7, 'detect_schema|storage class of %s not read' % col, locstr(vsite.node),
                              '%s: the statement does not select typeof(%s): a %s component is fetched as an integer '
                              '(NULL / text as 0, a fraction truncated) and the triple is identified as a version it is '
                              'not' % (inst, col, cls))
                continue
            by_role = dict(zip(('maj', 'min', 'pat'), some))
            env = {lid: by_role[role[cn]] for lid, cn in zip(local_ids, cols)}
            for tl in type_locals:
                env[tl] = ('integer',)
            env[by_col[col]] = (cls,)
            outs = Evaluator(prog, f, hook).run(env)
            res = set()
            for o in outs:
                if o.kind == 'throw' and o.value.split('::')[-1] == 'database_inconsistency' and \
                        not any(t[0] == 'case' for t in o.trace):
                    continue        # precondition: no Information table
                if o.kind == 'throw':
                    res.add(('throw', o.value.split('::')[-1]))
                elif o.kind == 'return':
                    res.add(('return', getattr(o.value, 'name', repr(o.value))))
                else:
                    res.add((o.kind, None))
            if res == {('throw', 'unsupported_database')}:
                chk.ok(Y7, inst + ' -> unsupported_database', locstr(vsite.node))
            else:
                chk.violation(Y7, 'detect_schema|%s as %s accepted' % (col, cls), locstr(vsite.node),
                              '%s with the triple %d.%d.%d yields %s, expected unsupported_database' % (
                                  (inst,) + tuple(some) + (sorted(map(str, res)),)))

    # ---- Y2 variant marker ----------------------------------------------------
    _variant(prog, chk, Y2, f)
    # ---- Y3 layout ------------------------------------------------------------
    _layout(prog, chk, Y3)
    # ---- Y4 dispatch ----------------------------------------------------------
    _dispatch(prog, chk, Y4, supported, enum)
    # ---- Y5: what the loaders probe is what they open; what creators stamp is what detection maps back
    from .. import callgraph, effects
    from . import c16, c12
    cg = callgraph.get(prog)
    eff = effects.Effects(prog, cg)
    Y5 = chk.rule('Y5', 'every loader (load_database, database_exists, the engine_library / engine_storage load '
                        'functions) opens or attaches only a path whose existence it tested; each supported creator '
                        'stamps the Information row(s) with the triple of its own class, which detect_schema maps '
                        'back to its enumerator', floor=20)
    roots = [f for f in prog.functions.values() if f.body is not None and not f.is_pattern and prog.in_repo(f.file)
             and f.name in ('load_database', 'database_exists', 'load') and
             (f.qualname or '').startswith('djinterop::engine::')]
    if len(roots) < 3:
        raise AnalysisBroken('Y5: loader entry points not found')
    for f in roots:
        chk.analysed(f)
    c16.guarded_opens(prog, cg, eff, chk, Y5, roots)
    version_stamp(prog, chk, Y5, supported)
    Y6 = chk.rule('Y6', 'the stored version triple is fetched into 64-bit integers before it is compared', floor=3)
    _version_fetch_width(prog, chk, Y6)
    Y8 = chk.rule('Y8', 'the exception by which detection rejects a library reaches the caller as thrown: no try block '
                        'on the way from a loader to detect_schema / detect_is_database2 has a handler that catches '
                        'unsupported_database / database_not_found (or a base class of it) and does anything but rethrow',
                  floor=2)
    _rejection_type_preserved(prog, chk, Y8, cg)
    return chk.finish(
        'Finite evaluation of the decision code read from the clang AST: detect_schema is evaluated for '
        'every (major, minor, patch) in a box built from all case labels and their neighbours (%d cells; '
        'the code compares version members only by equality, checked, so the box is exhaustive), '
        'detect_is_database2 for all 8 presence combinations, the dispatch functions for all enumerators '
        'and both layouts. No code is executed.' % ncell, exhaustive=True)


_ARITH = {'+', '-', '*', '/', '%', '<<', '>>', '&', '|', '^'}
_RELOPS = {'<', '>', '<=', '>=', '==', '!='}


def _component_flow(prog, cg, f, vid, local_roles):
    """Follows the three version components through f and every repository function that receives one:
    returns the integer literals of the functions that test a component (candidate cut points) and the sites
    where components are combined arithmetically or compared with something that is neither a constant nor
    another representation of the same component ('packed')."""
    literals = set()
    packed = []
    seen = set()

    const_params = set()

    def const_side(n):
        n = strip(n)
        k = n.get('kind')
        if k in ('IntegerLiteral', 'CharacterLiteral', 'CXXBoolLiteralExpr'):
            return True
        if k == 'UnaryOperator' and n.get('opcode') in ('-', '+'):
            return const_side(children(n)[0])
        if k == 'DeclRefExpr':
            ref = n.get('referencedDecl') or {}
            if ref.get('id') in const_params:
                return True
            return ref.get('kind') == 'EnumConstantDecl' or 'const' in (ref.get('type') or '')
        return False

    # parameters of local lambdas that only ever receive literals (`require_patch(0)`, a macro turned into a
    # lambda): constants of the decision, their values are among the literals of f
    lam = {}
    for d in walk(f.body):
        if d.get('kind') == 'VarDecl':
            for y in walk(d):
                if y.get('kind') == 'LambdaExpr':
                    for z in children(y):
                        if z.get('kind') == 'CXXRecordDecl':
                            for m in children(z):
                                if m.get('kind') == 'CXXMethodDecl' and m.get('name') == 'operator()':
                                    lam[d['id']] = [p for p in children(m) if p.get('kind') == 'ParmVarDecl']
                    break
    passed = {}
    for x in walk(f.body):
        if x.get('kind') == 'CXXOperatorCallExpr':
            c = children(x)
            if len(c) >= 2 and (strip(c[0]).get('referencedDecl') or {}).get('name') == 'operator()':
                o = strip(c[1])
                ps = lam.get((o.get('referencedDecl') or {}).get('id')) if o.get('kind') == 'DeclRefExpr' else None
                if ps and len(ps) == len(c) - 2:
                    for p_, a in zip(ps, c[2:]):
                        passed.setdefault(p_['id'], []).append(a)
    for pid, args_ in passed.items():
        if all(const_side(a) for a in args_):
            const_params.add(pid)

    def visit(g, tainted, whole_ids, top=False):
        key = (g.key, tuple(sorted((k, tuple(sorted(v))) for k, v in tainted.items())), tuple(sorted(whole_ids)))
        if key in seen or g.body is None:
            return
        seen.add(key)
        tainted = dict(tainted)

        def roles(n):
            out = set()
            for x in walk(n):
                k = x.get('kind')
                if k == 'DeclRefExpr':
                    out |= tainted.get((x.get('referencedDecl') or {}).get('id'), set())
                elif k == 'MemberExpr' and x.get('name') in ('maj', 'min', 'pat'):
                    b = strip(children(x)[0]) if children(x) else {}
                    if (b.get('referencedDecl') or {}).get('id') in whole_ids:
                        out.add(x.get('name'))
            return out

        def whole(n):
            n = strip(n)
            return n.get('kind') == 'DeclRefExpr' and (n.get('referencedDecl') or {}).get('id') in whole_ids

        # integer locals initialised from a component are components too
        changed = True
        while changed:
            changed = False
            for d in walk(g.body):
                if d.get('kind') == 'VarDecl' and d.get('id') not in tainted and children(d) and \
                        re.search(r'\b(int|long|short|unsigned|int\d+_t|uint\d+_t|size_t|auto)\b', d.get('type') or ''):
                    r = roles(children(d)[-1])
                    if r:
                        tainted[d['id']] = r
                        changed = True
        tests = top
        for n in walk(g.body):
            k = n.get('kind')
            if k in ('BinaryOperator', 'CompoundAssignOperator'):
                op = n.get('opcode') or ''
                c = children(n)
                if len(c) != 2:
                    continue
                if op in _ARITH or k == 'CompoundAssignOperator':
                    if roles(n):
                        packed.append(('%s: version components in arithmetic `%s` at %s' % (g.name, op, locstr(n)), n))
                elif op in _RELOPS:
                    ra, rb = roles(c[0]), roles(c[1])
                    if ra or rb:
                        tests = True
                    if ra and rb:
                        if not (ra == rb and len(ra) == 1):
                            packed.append(('%s: different version components compared by `%s` at %s'
                                           % (g.name, op, locstr(n)), n))
                    elif (ra and not const_side(c[1])) or (rb and not const_side(c[0])):
                        packed.append(('%s: version component compared with a non-constant by `%s` at %s'
                                       % (g.name, op, locstr(n)), n))
            elif k == 'SwitchStmt':
                cond = [x for x in children(n) if x.get('kind') not in ('CompoundStmt',)]
                if cond and roles(cond[0]):
                    tests = True
        if tests or any(w.startswith(g.name + ':') for w, _ in packed):
            for n in walk(g.body):
                if n.get('kind') == 'IntegerLiteral':
                    literals.add(int(n['value']))
        for e in cg.edges(g):
            args = [a for a in children(e.node)]
            if e.node.get('kind') in ('CallExpr', 'CXXMemberCallExpr', 'CXXOperatorCallExpr'):
                args = args[1:]
            for t in e.targets:
                if t.body is None or not prog.in_repo(t.file) or t.key == g.key:
                    continue
                t_ids, w_ids = {}, set()
                for p_, a in zip(t.params, args):
                    pid = p_.get('id')
                    if pid is None:
                        continue
                    if whole(a):
                        w_ids.add(pid)
                    else:
                        r = roles(a)
                        if r:
                            t_ids[pid] = r
                if t_ids or w_ids:
                    visit(t, t_ids, frozenset(w_ids))

    visit(f, {i: {r} for i, r in (local_roles or {}).items()}, frozenset([vid]), top=True)
    return {'literals': literals, 'packed': packed}


_STD_BASES = {'runtime_error': ['exception'], 'logic_error': ['exception'], 'invalid_argument': ['logic_error', 'exception'],
              'out_of_range': ['logic_error', 'exception'], 'domain_error': ['logic_error', 'exception'],
              'length_error': ['logic_error', 'exception'], 'system_error': ['runtime_error', 'exception'],
              'range_error': ['runtime_error', 'exception'], 'overflow_error': ['runtime_error', 'exception']}


def _exc_bases(prog, short):
    """Short names of the classes an exception class of the repository derives from (std hierarchy included)."""
    out = []
    for q in prog.records:
        if q.split('::')[-1] == short:
            for b in prog.all_bases(q):
                out.append(b.split('::')[-1])
    for b in list(out):
        out.extend(_STD_BASES.get(b, []))
    return set(out)


def _rejection_type_preserved(prog, chk, Y8, cg):
    sinks = {}
    for qn, exc in ((schemas.NS + 'detect_schema', 'unsupported_database'),
                    (NS + 'detect_is_database2', 'database_not_found')):
        fs = [x for x in prog.by_name(qn) if x.body is not None]
        if not fs:
            raise AnalysisBroken('Y8: %s not found' % qn)
        for x in fs:
            sinks[x.key] = (qn.split('::')[-1], exc)
    vetted = ('database_exists', 'create_or_load_database')      # their database_not_found handler is judged by Y4
    ntry = 0
    for g in prog.functions.values():
        if g.body is None or g.is_pattern or not prog.in_repo(g.file):
            continue
        tries = [n for n in walk(g.node) if n.get('kind') == 'CXXTryStmt']
        if not tries:
            continue
        edges = cg.edges(g)
        for tr in tries:
            c = children(tr)
            inside = {id(x) for x in walk(c[0])}
            roots = []
            direct = set()
            for e in edges:
                if id(e.node) in inside:
                    for t in e.targets:
                        roots.append(t)
                        if t.key in sinks:
                            direct.add(t.key)
            seen = cg.reachable(roots)
            hit = sorted({sinks[k] for k in seen if k in sinks} | {sinks[k] for k in direct})
            if not hit:
                continue
            ntry += 1
            chk.analysed(g)
            for h in c[1:]:
                if h.get('kind') != 'CXXCatchStmt':
                    continue
                hc = children(h)
                var = hc[0] if hc and hc[0].get('kind') == 'VarDecl' else None
                ht = (var.get('type') if var else None)
                hs = None if ht is None else ht.replace('const ', '').replace('&', '').strip().split('::')[-1]
                body = hc[-1] if hc else None
                stmts = [x for x in children(body)] if body is not None and body.get('kind') == 'CompoundStmt' else []
                rethrow_only = len(stmts) == 1 and strip(stmts[0]).get('kind') == 'CXXThrowExpr' and \
                    not children(strip(stmts[0]))
                for fn, exc in hit:
                    inst = '%s: handler %s around the way to %s' % (g.name, hs or '(...)', fn)
                    catches_it = hs is None or hs == exc or hs in _exc_bases(prog, exc)
                    if not catches_it or rethrow_only:
                        chk.ok(Y8, inst, locstr(h))
                    elif hs == exc and exc == 'database_not_found' and g.name in vetted:
                        chk.ok(Y8, inst + ' (create-or-load / exists: judged by Y4)', locstr(h))
                    else:
                        chk.violation(Y8, '%s|handler %s|%s' % (g.name, hs or '...', exc), locstr(h),
                                      '%s catches %s in a try block from which %s is reached and does not rethrow it: '
                                      'the %s by which %s rejects a library is swallowed or leaves as another type'
                                      % (g.qualname, hs or 'everything', fn, exc, fn))
    if ntry == 0:
        raise AnalysisBroken('Y8: no try block reaches the detection functions (create_or_load_database has one)')


def _variant(prog, chk, Y2, f):
    """The 1.18.0 branch chooses between the two enumerators of that triple by a marker test: either
    `marker ? A : B` or `if (marker) return A; [else] return B;`, the marker possibly held in a named flag or
    negated."""
    def resolve(n, depth=0):
        n = strip(n)
        neg = False
        while n.get('kind') == 'UnaryOperator' and n.get('opcode') == '!':
            neg = not neg
            n = strip(children(n)[0])
        if n.get('kind') == 'DeclRefExpr' and depth < 3:
            d = f.tu.ids.get((n.get('referencedDecl') or {}).get('id'))
            ch = [x for x in children(d) if not x['kind'].endswith('Attr')] if d and d.get('kind') == 'VarDecl' else []
            if ch:
                r, ng = resolve(ch[-1], depth + 1)
                return r, (ng != neg)
        return n, neg

    def enum_of(n):
        for x in walk(n):
            if x.get('kind') == 'DeclRefExpr' and (x.get('referencedDecl') or {}).get('kind') == 'EnumConstantDecl':
                return x['referencedDecl']['name']
        return None

    def is_marker(n):
        for x in program.walk_expanded(n, f.node):
            if x.get('kind') == 'CallExpr':
                d, q, _, _ = prog.resolve_callee(f.tu, x)
                if q and q.endswith('get_column_type'):
                    return True
        return False

    found = []
    for n in walk(f.body):
        if n.get('kind') == 'ConditionalOperator' and 'engine_schema' in (n.get('type') or ''):
            c = children(n)
            e, neg = resolve(c[0])
            if is_marker(e):
                found.append((n, e, neg, enum_of(c[1]), enum_of(c[2])))
        elif n.get('kind') == 'IfStmt':
            c = children(n)
            e, neg = resolve(c[0])
            if not is_marker(e):
                continue
            then_ret = [x for x in walk(c[1]) if x.get('kind') == 'ReturnStmt']
            if not then_ret:
                continue
            a_ = enum_of(then_ret[0])
            b_ = None
            if n.get('hasElse') and len(c) > 2:
                er = [x for x in walk(c[2]) if x.get('kind') == 'ReturnStmt']
                b_ = enum_of(er[0]) if er else None
            else:
                # the return that follows the if in the enclosing statement list
                for par in walk(f.body):
                    ch = children(par)
                    if n in ch:
                        for later in ch[ch.index(n) + 1:]:
                            er = [x for x in walk(later) if x.get('kind') == 'ReturnStmt']
                            if er:
                                b_ = enum_of(er[0])
                                break
            found.append((n, e, neg, a_, b_))
    if len(found) != 1 or not found[0][3] or not found[0][4]:
        raise AnalysisBroken('detect_schema: expected exactly one variant selection on a get_column_type marker, '
                             'found %d' % len(found))
    co, init, neg, tn, fn = found[0]
    if neg:
        tn, fn = fn, tn
    xinit = list(program.walk_expanded(init, f.node))
    strs = [decode_string_literal(x['value']) for x in xinit if x.get('kind') == 'StringLiteral']
    # call arguments first, then the compared literal, whatever the order the sub-expressions are met in
    _call_strs = [decode_string_literal(y['value']) for x in xinit if x.get('kind') == 'CallExpr'
                  and (prog.resolve_callee(f.tu, x)[1] or '').endswith('get_column_type')
                  for y in walk(x) if y.get('kind') == 'StringLiteral']
    if len(_call_strs) == 2 and len(strs) == 3:
        strs = _call_strs + [z for z in strs if z not in _call_strs][:1]
    calls = [x for x in xinit if x.get('kind') == 'CallExpr']
    gq = None
    for x in calls:
        d, q, _, _ = prog.resolve_callee(f.tu, x)
        if q and q.endswith('get_column_type'):
            gq = x
    ops = [x for x in xinit if x.get('kind') == 'CXXOperatorCallExpr']
    opname = None
    for x in ops:
        nm = (strip(children(x)[0]).get('referencedDecl') or {}).get('name')
        if nm in ('operator==', 'operator!='):
            opname = nm
    if gq is None or len(strs) != 3 or opname is None:
        raise AnalysisBroken('detect_schema: variant condition is not get_column_type(db, T, C) ==/!= "X" '
                             '(strings %r)' % strs)
    table, column, typ = strs[0], strs[1], strs[2]
    for en, expect_true in ((tn, True), (fn, False)):
        cls = schemas.NS + en
        trace = schemas.creation_trace(prog, cls)
        cats = schemas.split_catalogs(trace, 1)
        ti = cats['music'].table_info(table) if 'music' in cats else None
        ctype = None
        for row in ti or ():
            if row[0] == column:
                ctype = row[1]
        val = (ctype == typ) if opname == 'operator==' else (ctype != typ)
        if ctype is None and opname == 'operator==':
            val = False
        if val == expect_true:
            chk.ok(Y2, '%s: %s.%s has type %r; marker (%s %r) -> %s' % (
                en, table, column, ctype, opname[8:], typ, en), locstr(co))
        else:
            chk.violation(Y2, 'variant|%s' % en, locstr(co),
                          'a library created as %s has %s.%s of type %r, so the marker test '
                          '(%s %r) selects %s instead' % (en, table, column, ctype, opname[8:], typ,
                                                          tn if val else fn))
    # and the helper reads the type of the named column
    g = [x for x in prog.functions.values() if x.qualname.endswith('::get_column_type')]
    if len(g) != 1:
        raise AnalysisBroken('get_column_type not found')
    g = g[0]
    chk.analysed(g)
    ss = sites.find_sites(g)
    okh = False
    if len(ss) == 1 and ss[0].sink is not None and 'table_info' in ss[0].text.lower():
        lam = strip(ss[0].sink)
        # lambda params: (cid, name, type, notnull, dflt, pk): the compared param
        # must be #1 and the assigned one #2
        m = [x for x in walk(lam) if x.get('kind') == 'CXXMethodDecl' and x.get('name') == 'operator()']
        if m:
            ps = [x for x in children(m[0]) if x.get('kind') == 'ParmVarDecl']
            cmp_ids = set()
            asg_ids = set()
            for x in walk(m[0]):
                if x.get('kind') == 'CXXOperatorCallExpr':
                    nm = (strip(children(x)[0]).get('referencedDecl') or {}).get('name')
                    refs = [(y.get('referencedDecl') or {}).get('id') for y in walk(x) if y.get('kind') == 'DeclRefExpr']
                    if nm in ('operator==', 'operator!='):
                        cmp_ids.update(refs)
                    if nm == 'operator=':
                        asg_ids.update(refs)
            if len(ps) == 6 and ps[1]['id'] in cmp_ids and ps[2]['id'] in asg_ids and \
                    ps[2]['id'] not in cmp_ids:
                okh = True
    if okh:
        chk.ok(Y2, 'get_column_type compares table_info.name and returns table_info.type', locstr(g.node))
    else:
        chk.violation(Y2, 'get_column_type|shape', locstr(g.node),
                      'get_column_type does not compare column 1 (name) of PRAGMA table_info and return '
                      'column 2 (type)')


def _version_fetch_width(prog, chk, Y6):
    """The version triple decides everything: it must be fetched into 64-bit integers (SQLite INTEGERs
    are 64 bit).  Fetched into `int`, a stored major of 2^32 + 2 is truncated to 2 and another triple
    is identified as a supported version."""
    from .. import sites as _sites
    from ..domains import _int_width_ok
    n = 0
    for f in prog.functions.values():
        if f.body is None or f.is_pattern or not prog.in_repo(f.file) or '/schema/schema_' in (f.file or ''):
            continue
        for st in _sites.find_sites(f):
            if 'schemaversionmajor' not in st.text.lower() or not st.text.lower().lstrip().startswith('select'):
                continue
            if st.sink is None:
                continue
            targets = []
            sk = strip(st.sink, explicit=True)
            for x in walk(sk):
                if x.get('kind') == 'CallExpr' and (strip(children(x)[0]).get('referencedDecl') or {}).get('name') == 'tie':
                    targets = [strip(a, explicit=True) for a in children(x)[1:]]
                    break
            if not targets:
                for x in walk(sk):
                    if x.get('kind') == 'CXXMethodDecl' and x.get('name') == 'operator()':
                        targets = [p for p in children(x) if p.get('kind') == 'ParmVarDecl']
                        break
            for t in targets[:3]:
                ty = t.get('type') or ''
                ok = _int_width_ok(ty)
                n += 1
                short = '::'.join((f.qualname or '').split('::')[-2:])
                inst = '%s fetches a version column into %s' % (short, ty)
                if ok is False:
                    chk.violation(Y6, '%s|version column fetched into %s' % (short, ty), locstr(st.node),
                                  inst + ': a stored value outside the range of that type is truncated, so a triple '
                                  'that is not a supported version (major 4294967298) is identified as one (2)')
                else:
                    chk.ok(Y6, inst, locstr(st.node))
    if n < 3:
        chk.fail_broken('Y6: the statement that reads the version triple was not found')


def version_stamp(prog, chk, Y5, supported=None):
    """Each supported creator stamps the Information row(s) with the triple of its own class, the one
    detect_schema maps back to its enumerator (shared with C11)."""
    from . import c12
    if supported is None:
        supported = _supported(prog)
    fmap = schemas.factory_map(prog)
    for en in supported:
        cls = fmap.get(en)
        if cls is None:
            continue
        ver = schemas.version_of_class(prog, cls)
        tr, variant = _triple(en)
        short = cls.split('::')[-1]
        if ver == tr:
            chk.ok(Y5, '%s: class constant %s is the triple detect_schema maps to %s' % (short, ver, en), '-')
        else:
            chk.violation(Y5, '%s|class constant' % en, '-',
                          '%s declares schema_version %s (own or inherited); the enumerator %s stands for %s: a '
                          'library created as %s is detected as another version after reopening' % (short, ver, en, tr, en))
        for e in schemas.creation_trace(prog, cls):
            if e.stmt.kind == 'insert' and (e.stmt.table or '').lower() == 'information':
                c12._check_info_insert(prog, chk, Y5, cls, short, ver, e)


def _layout(prog, chk, Y3):
    f = prog.func(NS + 'detect_is_database2')
    chk.analysed(f)
    if len(f.params) != 1:
        raise AnalysisBroken('detect_is_database2: unexpected signature')
    pid = f.params[0]['id']
    d = Sym('directory')
    for dir_exists in (False, True):
        for legacy in (False, True):
            for db2, db2dir in ((False, False), (False, True), (True, True)):
                def hook(ev, qn, args, env, node, stmt=False, _a=(dir_exists, legacy, db2, db2dir)):
                    if qn and _exist_func(prog, qn):
                        v = ev.ev(args[0], env)
                        if isinstance(v, tuple) and v and v[0] is d:
                            rest = ''.join(x for x in v[1:] if isinstance(x, str))
                            if len(v) == 1:
                                return _a[0]
                            if rest == '/m.db':
                                return _a[0] and _a[1]
                            if rest == '/Database2/m.db':
                                return _a[0] and _a[2]
                            if rest in ('/Database2', '/Database2/'):
                                return _a[0] and _a[3]
                        return UNKNOWN
                    return NotImplemented
                ev = Evaluator(prog, f, hook)
                outs = ev.run({pid: (d,)})
                res = set()
                for o in outs:
                    if o.kind == 'throw':
                        res.add(('throw', o.value.split('::')[-1]))
                    elif o.kind == 'return':
                        res.add(('return', o.value if not isinstance(o.value, (Choice,)) else repr(o.value)))
                    else:
                        res.add((o.kind, None))
                if not dir_exists or legacy == db2:
                    want = {('throw', 'database_not_found')}
                else:
                    want = {('return', db2)}
                inst = 'dir=%s m.db=%s Database2/=%s Database2/m.db=%s' % (dir_exists, legacy, db2dir, db2)
                if res == want:
                    chk.ok(Y3, inst + ' -> ' + str(sorted(map(str, res))), locstr(f.node), site=inst)
                elif any(r[1] is UNKNOWN or 'UNKNOWN' in str(r[1]) for r in res):
                    chk.unknown(Y3, inst, 'the layout detection uses a construct the finite evaluator does not '
                                          'model (outcomes %s)' % sorted(map(str, res)))
                else:
                    chk.violation(Y3, 'detect_is_database2|' + inst, locstr(f.node),
                                  '%s yields %s, expected %s' % (inst, sorted(map(str, res)), sorted(map(str, want))))


_EXIST = {}


def _exist_func(prog, qn):
    """qn names a file-existence test: a repository function returning bool whose body calls
    stat / access / std::filesystem::exists (whatever the function itself is called)."""
    if qn in _EXIST:
        return _EXIST[qn]
    ok = False
    for g in prog.by_name(qn):
        if g.body is None or 'bool' not in (g.ret or ''):
            continue
        for x in walk(g.body):
            if x.get('kind') == 'CallExpr':
                nm = (strip(children(x)[0]).get('referencedDecl') or {}).get('name')
                if nm in ('stat', '_stat', 'access', '_access', 'exists', 'is_regular_file'):
                    ok = True
    _EXIST[qn] = ok
    return ok


def _dispatch(prog, chk, Y4, supported, enum):
    from .. import callgraph as _cgm
    cg_ = _cgm.get(prog)
    # --- load_database(directory, loaded_schema)
    fs = [x for x in prog.by_name(NS + 'load_database') if len(x.params) == 2]
    if len(fs) != 1:
        raise AnalysisBroken('load_database(directory, loaded_schema) not found')
    f = fs[0]
    chk.analysed(f)
    out_param = f.params[1]
    boundary = 'schema_2_18_0'
    for is_db2 in (False, True):
        for en, val in enum.items():
            calls = []

            def hook(ev, qn, args, env, node, stmt=False, _d=is_db2, _e=en, _v=val):
                if qn == NS + 'detect_is_database2':
                    return _d
                if qn == schemas.NS + 'detect_schema':
                    calls.append('detect_schema')
                    return Enum(_e, _v)
                return NotImplemented
            ev = Evaluator(prog, f, hook)
            env0 = {}
            if not is_db2:
                # the legacy branch takes the schema from the storage object it constructs: the detected
                # enumerator is the `schema` member of that object
                bodies = [f.body] + [t.body for e_ in cg_.edges(f) for t in e_.targets
                                     if t.body is not None and t.cls is None and prog.in_repo(t.file)]
                for b_ in bodies:
                    for d in walk(b_):
                        if d.get('kind') == 'VarDecl' and 'engine_storage' in (d.get('type') or ''):
                            env0[('member', d['id'], 'schema')] = Enum(en, val)
            outs = ev.run(env0)
            res = set()
            assigned = []
            for o in outs:
                if o.kind == 'throw':
                    res.add(('throw', o.value.split('::')[-1]))
                elif o.kind == 'return':
                    res.add(('return', _ret_class(o)))
                else:
                    res.add((o.kind, None))
            if not is_db2:
                inst = 'legacy layout, detected %s' % en
                if val < enum[boundary]:
                    want = {('return', 'v1')}
                else:
                    want = {('throw', 'database_inconsistency')}
            else:
                inst = 'Database2 layout, detected %s' % en
                if val >= enum[boundary] and en in supported:
                    want = {('return', 'v2')}
                elif val >= enum[boundary]:
                    want = {('throw', 'unsupported_database')}
                else:
                    want = {('throw', 'database_inconsistency')}
            # classify returns by the implementation class constructed on the path
            got = set()
            for o in outs:
                if o.kind == 'return':
                    got.add(('return', _which_impl(prog, f, o)))
                elif o.kind == 'throw':
                    got.add(('throw', o.value.split('::')[-1]))
            if got == want:
                chk.ok(Y4, 'load_database: %s -> %s' % (inst, sorted(map(str, got))), locstr(f.node),
                       site='load|' + inst)
            else:
                chk.violation(Y4, 'load_database|%s' % inst, locstr(f.node),
                              '%s: load_database yields %s, expected %s' % (inst, sorted(map(str, got)),
                                                                           sorted(map(str, want))))
    # out-parameter assigned from the detected schema on every returning path
    _out_param(prog, chk, Y4, f, out_param)

    # --- the library class of the Database2 family loads a Database2 file itself (v2::engine_library{directory}):
    # it must refuse a triple of the other generation too
    g = prog.func(NS + 'base_engine_library::load')
    chk.analysed(g)
    for en, val in enum.items():
        def hook2(ev, qn, args, env, node, stmt=False, _e=en, _v=val):
            if qn == schemas.NS + 'detect_schema':
                return Enum(_e, _v)
            return NotImplemented
        outs = Evaluator(prog, g, hook2).run({})
        got = set()
        for o in outs:
            got.add(('throw', o.value.split('::')[-1]) if o.kind == 'throw' else (o.kind, None))
        if val < enum[boundary]:
            want = {('throw', 'database_inconsistency')}
        elif en in supported:
            want = {('return', None)}
        else:
            want = {('throw', 'unsupported_database')}
        inst = 'base_engine_library::load, detected %s' % en
        if got == want:
            chk.ok(Y4, '%s -> %s' % (inst, sorted(map(str, got))), locstr(g.node), site='libload|' + en)
        else:
            chk.violation(Y4, 'base_engine_library::load|%s' % en, locstr(g.node),
                          '%s yields %s, expected %s: a Database2 file that carries a 1.x triple is handed to the 2.x '
                          'table layer under a 1.x schema id' % (inst, sorted(map(str, got)), sorted(map(str, want))))

    create_dispatch(prog, chk, Y4, enum, boundary)
    # --- the v1 loader reaches detect_schema too
    es = [x for x in prog.functions.values()
          if x.qualname.endswith('v1::(anon)::load_existing')]
    if len(es) == 1:
        g = es[0]
        chk.analysed(g)
        hit = False
        for n in walk(g.body):
            if n.get('kind') == 'CallExpr':
                d, q, _, _ = prog.resolve_callee(g.tu, n)
                if q == schemas.NS + 'detect_schema':
                    hit = True
        if hit:
            chk.ok(Y4, 'legacy loader detects the schema from the music database', locstr(g.node))
        else:
            chk.violation(Y4, 'load_existing|detect', locstr(g.node),
                          'legacy loader does not call detect_schema')
    else:
        raise AnalysisBroken('v1 load_existing not found')
    # --- database_exists / create_or_load: the only handler is database_not_found
    for name, expect in (('database_exists', None), ('create_or_load_database', None)):
        gs = [x for x in prog.by_name(NS + name)
              if any(n.get('kind') == 'CXXTryStmt' for n in walk(x.body))]
        if len(gs) != 1:
            raise AnalysisBroken('%s: expected one definition with a try block, found %d' % (name, len(gs)))
        g = gs[0]
        chk.analysed(g)
        handlers = [n for n in walk(g.body) if n.get('kind') == 'CXXCatchStmt']
        types = []
        for h in handlers:
            hc = children(h)
            types.append((hc[0].get('type') or '...') if hc and hc[0].get('kind') == 'VarDecl' else '...')
        norm = [t.replace('&', '').replace('const', '').strip().split('::')[-1] for t in types]
        if norm == ['database_not_found']:
            chk.ok(Y4, '%s handles exactly database_not_found' % name, locstr(g.node))
        else:
            chk.violation(Y4, '%s|handlers' % name, locstr(g.node),
                          '%s catches %s; it must catch exactly database_not_found so that an '
                          'unsupported or inconsistent library is still reported' % (name, norm))


def create_dispatch(prog, chk, Y4, enum=None, boundary='schema_2_18_0'):
    """create_database / create_temporary_database hand every enumerator to the library class of its generation
    (finite evaluation over all enumerators, 3.0.0 included: it has a creator and a reference dump).  Shared with
    C12: a library created through the other generation's class is not the reference schema of its version and
    is not recognised on load."""
    if enum is None:
        enum = prog.enums.get(schemas.ENUM) or {}
    for name in ('create_database', 'create_temporary_database'):
        g = prog.func(NS + name)
        chk.analysed(g)
        sp = [p for p in g.params if 'engine_schema' in (p.get('type') or '')]
        if not sp:
            raise AnalysisBroken(name + ': no engine_schema parameter')
        bad = []
        for en, val in enum.items():
            ev = Evaluator(prog, g, None)
            outs = ev.run({sp[0]['id']: Enum(en, val)})
            got = set()
            for o in outs:
                if o.kind == 'return':
                    got.add(_which_impl(prog, g, o))
                else:
                    got.add(o.kind)
            want = {'v2'} if val >= enum[boundary] else {'v1'}
            if got != want:
                bad.append((en, got, want))
        if bad:
            for en, got, want in bad:
                chk.violation(Y4, '%s|%s' % (name, en), locstr(g.node),
                              '%s(%s) builds %s, expected %s' % (name, en, sorted(got), sorted(want)))
        else:
            chk.ok(Y4, '%s routes all %d enumerators by the generation boundary' % (name, len(enum)),
                   locstr(g.node))


def _ret_class(o):
    return repr(o.value)


def _which_impl(prog, f, o):
    """Which generation's implementation is constructed on the path to this
    return: decided by the make_shared / constructor types in the return
    statement and the statements of the taken branch."""
    # find the ReturnStmt node by location and look at the enclosing block
    line = int(o.at.rsplit(':', 1)[1])
    if getattr(o, 'func', None) is not None and o.func.body is not None:
        f = o.func
    block = _enclosing_block(f.body, line)
    txt = set()
    for n in walk(block):
        t = (n.get('type') or '')
        if 'v1::' in t:
            txt.add('v1')
        if 'v2::' in t:
            txt.add('v2')
    if txt == {'v1'}:
        return 'v1'
    if txt == {'v2'}:
        return 'v2'
    return 'mixed:%s' % sorted(txt)


def _enclosing_block(body, line):
    """Innermost statement list that contains the return at `line`, limited
    to the statements of that branch (so that v1 and v2 arms are not mixed)."""
    best = body

    def rec(n):
        nonlocal best
        for c in children(n):
            if c.get('kind') == 'IfStmt':
                cc = children(c)
                for arm in cc[1:]:
                    if _has_line(arm, line):
                        best = arm
                        rec(arm)
                        return
            if c.get('kind') in ('CompoundStmt', 'CXXTryStmt', 'CXXCatchStmt'):
                if _has_line(c, line):
                    rec(c)
                    return
    rec(body)
    if best is body:
        # the return is in the function's top-level tail: take the statements
        # after the last top-level if that returns
        stmts = children(body)
        idx = 0
        for i, s in enumerate(stmts):
            if s.get('kind') == 'IfStmt' and (s.get('loc') or (0, 0))[1] < line:
                idx = i + 1
        return {'kind': 'CompoundStmt', 'inner': stmts[idx:]}
    return best


def _has_line(n, line):
    for x in walk(n):
        if x.get('kind') == 'ReturnStmt' and (x.get('loc') or (0, 0))[1] == line:
            return True
    return False


def _out_param(prog, chk, Y4, f, out_param):
    """Every path of load_database that returns normally assigns the
    out-parameter `loaded_schema` (must-assign analysis over the structured body)."""
    pid = out_param['id']
    missing = _unassigned_returns(prog, f, pid, 0)
    if missing:
        for m in missing:
            chk.violation(Y4, 'load_database|loaded_schema-unassigned', m,
                          'load_database returns at %s without assigning the out-parameter '
                          'loaded_schema: the caller is not told the detected schema' % m)
    else:
        chk.ok(Y4, 'load_database assigns loaded_schema on every returning path', locstr(f.node))


def _unassigned_returns(prog, f, pid, depth):
    """Locations of the return statements of f that can be reached without the reference parameter / variable
    `pid` having been assigned (directly, or by a repository callee that receives it by reference and assigns it
    on all of its returning paths)."""
    def assigns(n):
        for x in walk(n):
            if x.get('kind') == 'BinaryOperator' and x.get('opcode') == '=':
                l = strip(children(x)[0])
                if l.get('kind') == 'DeclRefExpr' and (l.get('referencedDecl') or {}).get('id') == pid:
                    return True
            if x.get('kind') == 'CallExpr' and depth < 3:
                args = children(x)[1:]
                idx = [i for i, a in enumerate(args) if strip(a).get('kind') == 'DeclRefExpr'
                       and (strip(a).get('referencedDecl') or {}).get('id') == pid]
                if not idx:
                    continue
                d, qn, _, _ = prog.resolve_callee(f.tu, x)
                gs = [g for g in prog.by_name(qn) if g.body is not None and not g.is_pattern] if qn else []
                if len(gs) == 1 and len(gs[0].params) == len(args):
                    p_ = gs[0].params[idx[0]]
                    t = p_.get('type') or ''
                    if '&' in t and 'const' not in t and not _unassigned_returns(prog, gs[0], p_['id'], depth + 1):
                        return True
        return False

    missing = []

    def walk_block(stmts, assigned):
        for s in stmts:
            k = s.get('kind')
            if k == 'IfStmt':
                c = children(s)
                then = c[1] if len(c) > 1 else None
                els = c[2] if len(c) > 2 else None
                a1 = walk_block(children(then) if then and then.get('kind') == 'CompoundStmt' else ([then] if then else []), assigned)
                a2 = walk_block(children(els) if els and els.get('kind') == 'CompoundStmt' else ([els] if els else []), assigned) if els else assigned
                # paths that fall through both arms
                t_ret = _always_leaves(then)
                e_ret = _always_leaves(els) if els else False
                if t_ret and not e_ret:
                    assigned = a2
                elif e_ret and not t_ret:
                    assigned = a1
                else:
                    assigned = a1 and a2
                continue
            if k == 'ReturnStmt':
                if not (assigned or assigns(s)):
                    missing.append(locstr(s))
                return assigned
            if k == 'CompoundStmt':
                assigned = walk_block(children(s), assigned)
                continue
            if assigns(s):
                assigned = True
        return assigned

    walk_block(children(f.body), False)
    return missing


def _always_leaves(n):
    if n is None:
        return False
    k = n.get('kind')
    if k == 'ReturnStmt':
        return True
    x = strip(n)
    if x.get('kind') == 'CXXThrowExpr':
        return True
    if k == 'CompoundStmt':
        c = children(n)
        return bool(c) and _always_leaves(c[-1])
    if k == 'IfStmt':
        c = children(n)
        return len(c) > 2 and _always_leaves(c[1]) and _always_leaves(c[2])
    return False
