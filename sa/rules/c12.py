"""C12  A created library matches the reference schema of its version.

X1  creator DDL (interpreted over the catalog model) == reference dump DDL,
    object by object, for every referenced version / variant.
X2  version numbers written into Information are the class's own
    schema_version, which equals the triple in the class / enumerator name
    and in to_string().
X3  the factory maps every enumerator to the class of the same name; on-disk
    and temporary creation run the same creator.
"""
import re

from .. import program, schemas, sites, sql
from ..frontend import AnalysisBroken
from ..program import children, strip, walk, locstr
from ..report import Check


def _diff_sigs(a, b):
    """differences between two object-signature dicts"""
    out = []
    for k in sorted(set(a) | set(b)):
        if k not in a:
            out.append(('missing', k, None, b[k]))
        elif k not in b:
            out.append(('extra', k, a[k], None))
        elif a[k] != b[k]:
            out.append(('differs', k, a[k], b[k]))
    return out


def _explain(kind, key, mine, ref):
    what = '%s %s' % (key[0], (mine or ref)[1])
    if kind == 'missing':
        return '%s exists in the reference but is not created' % what
    if kind == 'extra':
        return '%s is created but does not exist in the reference' % what
    # first differing component
    if key[0] == 'table':
        mc, rc = mine[2], ref[2]
        if len(mc) != len(rc):
            mn = [c[0] for c in mc]
            rn = [c[0] for c in rc]
            return '%s: column list differs: created %s, reference %s' % (
                what, [c for c in mn if c not in rn] or len(mn),
                [c for c in rn if c not in mn] or len(rn))
        for x, y in zip(mc, rc):
            if x != y:
                return '%s: column %r differs: created %r, reference %r' % (what, x[0], x, y)
        return '%s: table constraints differ: created %r, reference %r' % (what, mine[3:], ref[3:])
    return '%s differs: created %r | reference %r' % (what, _short(mine[2:]), _short(ref[2:]))


def _short(x):
    s = repr(x)
    return s if len(s) < 400 else s[:400] + '...'


def run(tier='quick'):
    prog = program.load()
    chk = Check('C12', tier)
    chk.units = len(prog.tus)
    X1 = chk.rule('X1', 'every object (table with ordered column definitions and constraints, '
                        'index, view, trigger) created by a schema creator equals the object of the '
                        'same name in a reference dump of the same version/variant, and vice versa',
                  floor=900)
    X2 = chk.rule('X2', 'version triple bound into Information == schema_version of the creating '
                        'class == triple in class/enumerator name == to_string()', floor=50)
    X3 = chk.rule('X3', 'factory maps each engine_schema enumerator to the creator class of the same '
                        'name; create_database and create_temporary_database use the same factory',
                  floor=19)
    chk.assume('reference dumps under testdata/ref are authoritative for their version')
    chk.assume('schema creators are straight-line statement lists (checked: any control flow '
               'in a creator is an analysis error)')

    classes = schemas.creator_classes(prog)
    if len(classes) < 19:
        raise AnalysisBroken('only %d creator classes found' % len(classes))
    refs = schemas.load_references(prog.repo)
    if len(refs) < 57:
        raise AnalysisBroken('only %d reference libraries found' % len(refs))
    chk.extra['reference_libraries'] = len(refs)
    chk.extra['reference_statements'] = sum(r.nstatements for r in refs)

    uncovered = []
    pairwise = []
    for cls in classes:
        short = cls.split('::')[-1]
        ver = schemas.version_of_class(prog, cls)
        trace = schemas.creation_trace(prog, cls)
        for e in trace:
            chk.analysed(e.func)
        gen = 1 if ver and ver[0] == 1 else 2
        cats = schemas.split_catalogs(trace, gen)
        for alias, c in cats.items():
            for pr in c.problems:
                chk.violation(X1, '%s|%s|%s' % (short, alias, pr), short,
                              'creator DDL is not well-formed: ' + pr)
        variant = None
        if short.endswith('_desktop'):
            variant = 'desktop'
        elif short.endswith('_os'):
            variant = 'os'
        mine = {a: c.object_sigs() for a, c in cats.items()}
        cands = [r for r in refs if r.version == ver and (r.variant == variant or ver != (1, 18, 0))]
        if not cands:
            uncovered.append(short)
            chk.note('%s: no reference dump for version %s - X1 not evaluated' % (short, ver))
        else:
            results = []
            for r in cands:
                diffs = []
                for alias in sorted(set(mine) | set(r.catalogs)):
                    a = mine.get(alias, {})
                    b = r.catalogs[alias].object_sigs() if alias in r.catalogs else {}
                    for d in _diff_sigs(a, b):
                        diffs.append((alias,) + d)
                results.append((r, diffs))
            best = min(results, key=lambda x: len(x[1]))
            # record differences among the references themselves
            base = cands[0]
            for r in cands[1:]:
                for alias in base.catalogs:
                    if alias in r.catalogs:
                        dd = _diff_sigs(base.catalogs[alias].object_sigs(),
                                        r.catalogs[alias].object_sigs())
                        for d in dd:
                            pairwise.append('%s vs %s: %s %s %s' % (base.label, r.label, alias, d[0], d[1]))
            nobj = sum(len(v) for v in mine.values())
            if not best[1]:
                for alias, sigs in mine.items():
                    for key in sigs:
                        chk.ok(X1, '%s %s.%s %s' % (short, alias, key[0], sigs[key][1]),
                               detail='equals ' + best[0].label, site='%s|%s|%s' % (short, alias, key))
            else:
                bad = set()
                for alias, kind, key, m, rf in best[1]:
                    bad.add((alias, key))
                    chk.violation(
                        X1, '%s|%s|%s %s' % (short, alias, key[0], (m or rf)[1]),
                        _loc_of(cats, alias, key, short),
                        _explain(kind, key, m, rf) + ' (closest reference: %s; %d reference(s) of this version)'
                        % (best[0].label, len(cands)),
                        facts={'class': cls, 'alias': alias, 'created': m, 'reference': rf,
                               'references_compared': [r.label for r in cands]})
                for alias, sigs in mine.items():
                    for key in sigs:
                        if (alias, key) not in bad:
                            chk.ok(X1, '%s %s.%s %s' % (short, alias, key[0], sigs[key][1]),
                                   site='%s|%s|%s' % (short, alias, key))

        # ---- X2 ------------------------------------------------------------
        m = re.match(r'schema_(\d+)_(\d+)_(\d+)', short)
        name_ver = tuple(int(x) for x in m.groups())
        if ver != name_ver:
            chk.violation(X2, '%s|schema_version' % short, locstr(prog.records[cls].node),
                          'schema_version %s differs from the version in the class name %s' % (ver, name_ver))
        else:
            chk.ok(X2, '%s schema_version == name' % short, locstr(prog.records[cls].node))
        ninfo = 0
        # which attached file each Information row goes to: an unqualified table name is looked up in
        # attach order (main, then music before perfdata), so it reaches the first file that has the
        # table at that point of the creation
        have = {}
        targets = []
        attach_order = ['main', 'music', 'perfdata']
        for e in trace:
            st = e.stmt
            if st.kind == 'create_table':
                have.setdefault((st.schema or 'main').lower(), set()).add((st.extra['def'].name or '').lower())
            if st.kind == 'insert' and (st.table or '').lower() == 'information':
                ninfo += 1
                _check_info_insert(prog, chk, X2, cls, short, ver, e)
                if st.schema:
                    targets.append((st.schema.lower(), e))
                else:
                    hit = [a for a in attach_order if 'information' in have.get(a, ())]
                    targets.append((hit[0] if hit else None, e))
        want_targets = ['music', 'perfdata'] if gen == 1 else ['main']
        got = sorted(str(a) for a, _ in targets)
        if ninfo == len(want_targets):
            if got == sorted(want_targets):
                chk.ok(X2, '%s: one Information row per database file (%s)' % (short, ', '.join(got)))
            else:
                bad = [e for a, e in targets if a not in want_targets or got.count(str(a)) > 1]
                chk.violation(X2, '%s|information-row-target' % short,
                              locstr(bad[-1].site.node) if bad else short,
                              'the creator writes its Information rows to %s, expected one in each of %s: an '
                              'unqualified table name resolves to the first attached file that has the table, so '
                              'one file is left without a version row and the library is not recognised on load' % (
                                  got, want_targets))
        expected_info = 2 if gen == 1 else 1
        if ninfo != expected_info:
            chk.violation(X2, '%s|information-rows' % short, short,
                          '%d INSERT INTO Information executed by the creator, expected %d '
                          '(one per database file)' % (ninfo, expected_info))
        else:
            chk.ok(X2, '%s writes %d Information row(s)' % (short, ninfo))
    chk.extra['versions_without_reference'] = uncovered
    chk.extra['differences_among_references'] = sorted(set(pairwise))[:40]

    # to_string agreement
    _check_to_string(prog, chk, X2, classes)

    # ---- X3 ----------------------------------------------------------------
    fmap = schemas.factory_map(prog)
    enum = prog.enums.get(schemas.ENUM)
    if not enum:
        raise AnalysisBroken('enum engine_schema not found')
    ff = prog.func(schemas.NS + 'make_schema_creator_validator')
    for en in enum:
        cls = fmap.get(en)
        want = schemas.NS + en
        if cls is None:
            chk.violation(X3, 'factory|%s' % en, locstr(ff.node),
                          'enumerator %s has no case in make_schema_creator_validator' % en)
        elif cls != want:
            chk.violation(X3, 'factory|%s' % en, locstr(ff.node),
                          'enumerator %s is mapped to %s instead of %s' % (en, cls, want),
                          facts={'map': fmap})
        else:
            chk.ok(X3, 'factory %s -> %s' % (en, cls.split('::')[-1]), locstr(ff.node))
    _check_same_creator(prog, chk, X3)
    _schema_passthrough(prog, chk, X3)
    X4 = chk.rule('X4', 'a created library is recognised on load: the layout probe decides by the presence of m.db and '
                        'Database2/m.db alone (a Database2 directory without m.db is not a 2.x library)', floor=8)
    from . import c13 as _c13
    _c13._layout(prog, chk, X4)
    X5 = chk.rule('X5', 'a library is created only where none exists: every function that opens the files of a new '
                        'on-disk library refuses (throws) when any file the layout probe of load looks at is already '
                        'there - otherwise the directory ends up with both layouts, which load rejects, or a new '
                        'library is laid over the files of an old one', floor=2)
    creators_refuse_existing(prog, chk, X5)
    X6 = chk.rule('X6', 'create_database / create_temporary_database hand every enumerator that has a creator (3.0.0 '
                        'included) to the library class of its generation: a 2.x / 3.x schema created through the legacy '
                        'path is not the reference schema of its version and is not recognised on load', floor=2)
    _c13.create_dispatch(prog, chk, X6)
    X7 = chk.rule('X7', 'a created library contains what the creator class of its version executes and nothing else: no '
                        'function outside the schema creator classes issues CREATE / ALTER / DROP (an extra trigger added by '
                        'the library class after creator->create(db) is in no reference dump)', floor=1)
    from . import extra as _extra
    from .. import callgraph as _cgx, effects as _effx
    _cg7 = _cgx.get(prog)
    _extra.ddl_only_in_creators(prog, _cg7, _effx.Effects(prog, _cg7), chk, X7)
    return chk.finish(
        'Static comparison of DDL: the statement list each of the %d creator classes executes '
        '(final overriders resolved by class hierarchy, read from the clang AST) is interpreted over '
        'a catalog model and compared object by object with the catalogs of the %d reference '
        'libraries (%d dump statements) of the same version; version constants and the factory switch '
        'are compared with the class names. The whole finite space (all classes x all references) is '
        'enumerated. Not decided here: verify() acceptance (C17), detection on load (C13).'
        % (len(classes), len(refs), sum(r.nstatements for r in refs)),
        exhaustive=True)


def creators_refuse_existing(prog, chk, rid):
    from .. import callgraph, effects
    from . import c16
    cg = callgraph.get(prog)
    eff = effects.Effects(prog, cg)
    det = prog.func('djinterop::engine::detect_is_database2')
    probed = set()
    for n in walk(det.body):
        if n.get('kind') == 'CallExpr' and len(children(n)) > 1 and c16._is_existence_test(prog, det, n):
            sp = c16._sym_path(prog, det, children(n)[1])
            if sp is not None and len(sp) > 1:
                probed.add(tuple(x if isinstance(x, str) else ('param', 'directory') for x in sp))
    if len(probed) < 2:
        raise AnalysisBroken('X5: detect_is_database2 probes %d file(s); expected the m.db of both layouts' % len(probed))
    # ... and every file a loader demands to exist before it opens it (the perfdata file of the legacy layout)
    lroot = prog.func('djinterop::engine::load_database', 'engine_schema &')
    les, lreach = eff.transitive([lroot])
    for e in les:
        if e.cls == 'attach' and e.site is not None and e.site.binds:
            sp = c16._sym_path(prog, e.func, e.site.binds[0])
            if sp is not None and len(sp) > 1 and sp in c16._existence_guards(prog, e.func, e.site.node):
                probed.add(tuple(x if isinstance(x, str) else ('param', 'directory') for x in sp))
    root = prog.func('djinterop::engine::create_database')
    es, reach = eff.transitive([root])
    openers = {}
    # a function that demands the file it opens to exist is a loader (the class-hierarchy call graph reaches the
    # loading constructor of engine_storage from create_database); creators are the openers that do not.
    # A helper that is handed the complete path of the file it opens (`open_pair(m_db_path, p_db_path)`, shared
    # by the loader and the creator) decides nothing about the directory: the opener is then each caller that
    # composes the path, judged with the argument in place of the parameter.
    callers = {}
    for k_, (g_, _, _) in reach.items():
        if g_.body is None or g_.is_pattern:
            continue
        for ed in cg.edges(g_):
            if ed.node.get('kind') not in ('CallExpr', 'CXXMemberCallExpr'):
                continue
            for t in ed.targets:
                callers.setdefault(t.key, []).append((g_, ed.node))

    def place(f, node, sp, depth=0):
        if sp == (':memory:',):
            return
        if sp is not None and sp in _demanded_paths(prog, f, node):
            return
        if sp is not None and len(sp) == 1 and isinstance(sp[0], tuple) and depth < 4 and callers.get(f.key):
            names = [p_.get('name') for p_ in f.params]
            if sp[0][1] in names:
                i = names.index(sp[0][1])
                for g, c in callers[f.key]:
                    args = children(c)[1:]
                    place(g, c, c16._sym_path(prog, g, args[i]) if i < len(args) else None, depth + 1)
                return
        openers.setdefault(f.key, f)
    for e in es:
        if e.cls == 'attach' and e.site is not None and e.site.binds:
            place(e.func, e.site.node, c16._sym_path(prog, e.func, e.site.binds[0]))
    for f, node, arg in c16._open_sites(prog, cg, reach):
        sp = c16._sym_path(prog, f, arg)
        if sp == (':memory:',):
            continue
        place(f, node, sp)
    if not openers:
        raise AnalysisBroken('X5: create_database reaches no function that opens a database file')
    for key, f in sorted(openers.items(), key=lambda kv: kv[1].qualname):
        chk.analysed(f)
        # refusals made by f itself or by a function on the call path from create_database to f
        chain = [f]
        k = key
        while reach[k][1] is not None:
            k = reach[k][1]
            chain.append(reach[k][0])
        refused = set()
        # ... or by a repository function one of them calls (the refusal factored into a helper)
        helpers = []
        for g in chain:
            for e in cg.edges(g):
                for t in e.targets:
                    if t.body is not None and prog.in_repo(t.file) and t.key not in [h.key for h in chain + helpers]:
                        helpers.append(t)
        from . import c03 as _c03
        for g in chain + helpers:
            named = _c03._single_assignment_locals(g)

            def xwalk(node, depth=0, named=named):
                for z in walk(node):
                    yield z
                    if z.get('kind') == 'DeclRefExpr' and depth < 3:
                        d = named.get((z.get('referencedDecl') or {}).get('id'))
                        if d is not None and 'bool' in (z.get('type') or ''):
                            for w in xwalk(d, depth + 1):
                                yield w
            for st in walk(g.body):
                if st.get('kind') != 'IfStmt':
                    continue
                c = children(st)
                if not any(x.get('kind') == 'CXXThrowExpr' for x in walk(c[1])):
                    continue
                negated = set()
                for x in xwalk(c[0]):
                    if x.get('kind') == 'UnaryOperator' and x.get('opcode') == '!':
                        for y in xwalk(children(x)[0]):
                            negated.add(id(y))
                for x in xwalk(c[0]):
                    if x.get('kind') == 'CallExpr' and len(children(x)) > 1 and id(x) not in negated and \
                            c16._is_existence_test(prog, g, x):
                        sp = c16._sym_path(prog, g, children(x)[1])
                        if sp is not None:
                            refused.add(tuple(y if isinstance(y, str) else ('param', 'directory') for y in sp))
                    elif x.get('kind') == 'CallExpr' and id(x) not in negated:
                        # `std::any_of(paths.begin(), paths.end(), [](const std::string& p) { return exists(p); })`
                        # over a constant list of paths is the || chain of the tests of its elements
                        for el in _any_of_existence(prog, g, x, named):
                            sp = c16._sym_path(prog, g, el)
                            if sp is not None:
                                refused.add(tuple(y if isinstance(y, str) else ('param', 'directory') for y in sp))
        short = f.qualname.replace('djinterop::engine::', '')
        missing = sorted(probed - refused, key=str)
        inst = '%s refuses when %s exist(s)' % (short, ', '.join(c16._show_path(x) for x in sorted(probed & refused, key=str)) or 'nothing')
        if not missing:
            chk.ok(rid, inst, locstr(f.node))
        else:
            chk.violation(rid, '%s|creates over %s' % (short, ', '.join(c16._show_path(x) for x in missing)),
                          locstr(f.node),
                          '%s opens the files of a new library without refusing when %s is already there (it refuses '
                          'only for: %s): create_database then succeeds in a directory that holds a library, and '
                          'load_database rejects a directory with both layouts - the library just created is not '
                          'recognised on load' % (short, ' / '.join(c16._show_path(x) for x in missing),
                                                  ', '.join(c16._show_path(x) for x in sorted(refused, key=str)) or 'nothing'))


def _any_of_existence(prog, g, call, named):
    """Elements of the constant container an `any_of(first, last, pred)` call ranges over, when pred is a lambda
    that returns the existence test of its own parameter; otherwise nothing."""
    from . import c16
    if (strip(children(call)[0]).get('referencedDecl') or {}).get('name') != 'any_of':
        return []
    args = children(call)[1:]
    if len(args) != 3:
        return []
    conts = []
    for a in args[:2]:
        ids = [(y.get('referencedDecl') or {}).get('id') for y in walk(a) if y.get('kind') == 'DeclRefExpr'
               and (y.get('referencedDecl') or {}).get('kind') == 'VarDecl']
        conts.append(ids[0] if len(ids) == 1 else None)
    if conts[0] is None or conts[0] != conts[1] or conts[0] not in named:
        return []
    if not any(y.get('kind') == 'MemberExpr' and y.get('name') in ('begin', 'cbegin') for y in walk(args[0])) and \
            not any((y.get('referencedDecl') or {}).get('name') in ('begin', 'cbegin') for y in walk(args[0])):
        return []
    lam = [y for y in walk(args[2]) if y.get('kind') == 'LambdaExpr']
    if len(lam) != 1:
        return []
    meth = [m for r in children(lam[0]) if r.get('kind') == 'CXXRecordDecl'
            for m in children(r) if m.get('kind') == 'CXXMethodDecl' and m.get('name') == 'operator()']
    body = [y for y in children(lam[0]) if y.get('kind') == 'CompoundStmt']
    if not meth or not body:
        return []
    params = [p_.get('id') for p_ in children(meth[0]) if p_.get('kind') == 'ParmVarDecl']
    st = children(body[-1])
    if len(params) != 1 or len(st) != 1 or st[0].get('kind') != 'ReturnStmt' or not children(st[0]):
        return []
    t = strip(children(st[0])[0], explicit=True)
    if t.get('kind') != 'CallExpr' or len(children(t)) != 2 or not c16._is_existence_test(prog, g, t):
        return []
    if (strip(children(t)[1], explicit=True).get('referencedDecl') or {}).get('id') != params[0]:
        return []
    for y in walk(named[conts[0]]):
        if y.get('kind') == 'InitListExpr' and children(y) and children(y)[0].get('kind') != 'InitListExpr':
            return children(y)
    return []


def _demanded_paths(prog, func, before_node):
    """Symbolic paths the function demands to exist before before_node: `if (... !path_exists(P) ...) throw`
    (c16), also when the condition is held in a named flag (`const bool both = exists(a) && exists(b);
    if (!both) throw`: every conjunct under the negation is demanded)."""
    from . import c16
    out = list(c16._existence_guards(prog, func, before_node))
    loc = program.single_assignment_locals(func.node)
    for st in children(func.body):
        if st.get('loc') and before_node.get('loc') and st['loc'][1] >= before_node['loc'][1]:
            break
        if st.get('kind') != 'IfStmt':
            continue
        c = children(st)
        if not any(x.get('kind') == 'CXXThrowExpr' for x in walk(c[1])):
            continue

        def conj(n, neg, depth=0):
            """existence tests that must all hold for the condition to be false"""
            n = strip(n, explicit=True)
            k = n.get('kind')
            if k == 'UnaryOperator' and n.get('opcode') == '!':
                return conj(children(n)[0], not neg, depth)
            if k == 'BinaryOperator' and n.get('opcode') in ('&&', '||'):
                # the condition throws when true; !(a && b) and (!a || !b) both demand a and b
                if (n['opcode'] == '&&') == neg:
                    return conj(children(n)[0], neg, depth) + conj(children(n)[1], neg, depth)
                return []
            if k == 'DeclRefExpr' and depth < 3:
                d = loc.get((n.get('referencedDecl') or {}).get('id'))
                if d is not None and 'bool' in (n.get('type') or ''):
                    return conj(d, neg, depth + 1)
                return []
            if k == 'CallExpr' and neg and len(children(n)) > 1 and c16._is_existence_test(prog, func, n):
                sp = c16._sym_path(prog, func, children(n)[1])
                return [sp] if sp is not None else []
            return []
        out.extend(conj(c[0], False))
    return out


def _loc_of(cats, alias, key, short):
    c = cats.get(alias)
    if c is not None:
        st = c.raw.get(key)
        if st is not None and getattr(st, '_site', None) is not None:
            return locstr(st._site.node)
    return short


def _check_info_insert(prog, chk, X2, cls, short, ver, e):
    st, site = e.stmt, e.site
    loc = locstr(site.node)
    # the function that issues the insert must belong to the class itself:
    # an inherited creator writes the base class's version constant
    want = {'schemaversionmajor': 'maj', 'schemaversionminor': 'min', 'schemaversionpatch': 'pat'}
    cols = [c.lower() for c in st.columns]
    if not st.rows:
        chk.violation(X2, '%s|information-insert' % short, loc, 'INSERT INTO Information without VALUES')
        return
    row = st.rows[0]
    # map column -> bind index
    pi = 0
    colbind = {}
    for ci, ex in enumerate(row):
        nq = sum(1 for t in ex.toks if t.kind == 'qm')
        if ex.is_param():
            colbind[cols[ci] if ci < len(cols) else ci] = pi
        pi += nq
    if pi != len(site.binds):
        chk.violation(X2, '%s|information-insert-arity' % short, loc,
                      '%d placeholders but %d bound values' % (pi, len(site.binds)))
        return
    for col, member in want.items():
        if col not in colbind:
            # literal in SQL?
            if col in cols:
                lit = row[cols.index(col)].literal()
                idx = ['maj', 'min', 'pat'].index(member)
                if lit == ver[idx]:
                    chk.ok(X2, '%s Information.%s literal' % (short, col), loc)
                    continue
            chk.violation(X2, '%s|information.%s' % (short, col), loc,
                          'column %s is not written from schema_version.%s' % (col, member))
            continue
        b = strip(site.binds[colbind[col]], explicit=True)
        okb = False
        if b.get('kind') == 'MemberExpr' and b.get('name') == member:
            base = strip(children(b)[0], explicit=True)
            ref = base.get('referencedDecl') or {}
            tu = site.tu
            # the version may reach a helper as a parameter: follow it to the argument of the call
            # that entered the helper, frame by frame
            cur_func = e.func
            frames = list(getattr(e, 'frames', ()) or ())
            hops = 0
            while hops < 12:
                hops += 1
                if ref.get('kind') == 'ParmVarDecl' and frames:
                    idx = [i for i, p_ in enumerate(cur_func.params) if p_.get('id') == ref.get('id')]
                    caller, callnode = frames.pop()
                    args = children(callnode)[1:]
                    if not idx or idx[0] >= len(args):
                        break
                    base = strip(args[idx[0]], explicit=True)
                    ref = base.get('referencedDecl') or {}
                    cur_func = caller
                    tu = caller.tu
                    continue
                # a local of the function that is initialised once and never assigned (a reference alias or a
                # const copy: `const semantic_version& version = schema_version;`) stands for its initialiser
                if ref.get('kind') == 'VarDecl' and ref.get('id') in program.single_assignment_locals(cur_func.node):
                    init = program.single_assignment_locals(cur_func.node)[ref.get('id')]
                    base = strip(init, explicit=True)
                    while base.get('kind') in ('CXXConstructExpr', 'InitListExpr') and len(children(base)) == 1:
                        base = strip(children(base)[0], explicit=True)
                    ref = base.get('referencedDecl') or {}
                    continue
                break
            qn = tu.qn.get(ref.get('id'))
            if qn == cls + '::schema_version':
                okb = True
            else:
                chk.violation(X2, '%s|information.%s' % (short, col), loc,
                              'column %s is bound to %s.%s, not to %s::schema_version.%s '
                              '(the creator %s runs for class %s)' % (
                                  col, qn, member, short, member, e.func.qualname, short))
                continue
        if okb:
            chk.ok(X2, '%s Information.%s <- schema_version.%s' % (short, col, member), loc)
        else:
            chk.violation(X2, '%s|information.%s' % (short, col), loc,
                          'column %s is bound to an expression other than schema_version.%s' % (col, member))


def _check_to_string(prog, chk, X2, classes):
    fs = [f for f in prog.by_name('djinterop::engine::to_string')
          if 'engine_schema' in f.type]
    if len(fs) != 1:
        raise AnalysisBroken('to_string(engine_schema) not found')
    f = fs[0]
    sw = [n for n in walk(f.body) if n.get('kind') == 'SwitchStmt']
    if not sw:
        raise AnalysisBroken('to_string(engine_schema): no switch')
    seen = {}
    for cs in walk(sw[0]):
        if cs.get('kind') != 'CaseStmt':
            continue
        c = children(cs)
        lab = [x for x in walk(c[0]) if x.get('kind') == 'DeclRefExpr']
        strs = [x for x in walk(c[-1]) if x.get('kind') == 'StringLiteral']
        if lab and strs:
            seen[lab[0]['referencedDecl']['name']] = program.decode_string_literal(strs[0]['value'])
    for cls in classes:
        short = cls.split('::')[-1]
        m = re.match(r'schema_(\d+)_(\d+)_(\d+)', short)
        want = '.'.join(m.groups())
        got = seen.get(short)
        if got is None or not (got == want or got.startswith(want + ' ')):
            chk.violation(X2, '%s|to_string' % short, locstr(f.node),
                          'to_string(%s) is %r, expected %r' % (short, got, want))
        else:
            chk.ok(X2, 'to_string(%s) = %r' % (short, got), locstr(f.node))


def _is_schema_input(p):
    t = (p.get('type') or '').strip()
    return 'engine_schema' in t and 'schema_creator' not in t and (t.startswith('const') or '&' not in t)


def _schema_passthrough(prog, chk, X3):
    """The requested version reaches the factory unchanged: a function that receives an
    engine_schema and calls another function that takes one hands over its own parameter - not a
    default argument, a constant or another variable."""
    n_inst = 0
    for f in list(prog.functions.values()):
        if f.is_pattern or f.body is None or not prog.in_repo(f.file):
            continue
        own = [p.get('id') for p in f.params if _is_schema_input(p)]
        if not own:
            continue
        for n in walk(f.body):
            if n.get('kind') not in ('CallExpr', 'CXXMemberCallExpr', 'CXXConstructExpr'):
                continue
            try:
                d, q, _, _ = prog.resolve_callee(f.tu, n)
            except Exception:
                continue
            if not q:
                continue
            gs = [g for g in prog.by_name(q) if any(_is_schema_input(p) for p in g.params)]
            if not gs:
                continue
            args = children(n) if n['kind'] == 'CXXConstructExpr' else children(n)[1:]
            cands = [g for g in gs if len(g.params) >= len(args)] or gs
            g = cands[0]
            for i, p in enumerate(g.params):
                if not _is_schema_input(p):
                    continue
                short = '%s -> %s' % (f.qualname.replace('djinterop::engine::', ''),
                                      q.replace('djinterop::engine::', ''))
                a = args[i] if i < len(args) else None
                raw = a
                while raw is not None and raw.get('kind') in ('ImplicitCastExpr', 'ExprWithCleanups',
                                                              'MaterializeTemporaryExpr', 'CXXBindTemporaryExpr'):
                    c = children(raw)
                    raw = c[0] if c else None
                ref = (strip(a, explicit=True).get('referencedDecl') or {}).get('id') if a is not None else None
                # a local (copy or reference) initialised from the own parameter stands for it
                hops = 0
                while ref is not None and ref not in own and hops < 4:
                    hops += 1
                    nxt = None
                    for x in walk(f.body):
                        if x.get('kind') == 'VarDecl' and x.get('id') == ref:
                            init = [y for y in children(x) if not y['kind'].endswith('Attr') and not y['kind'].endswith('Comment')]
                            if init:
                                nxt = (strip(init[-1], explicit=True).get('referencedDecl') or {}).get('id')
                    ref = nxt
                n_inst += 1
                if raw is not None and raw.get('kind') != 'CXXDefaultArgExpr' and ref in own:
                    chk.ok(X3, '%s passes on the engine_schema it received' % short, locstr(n))
                else:
                    what = 'the default argument' if a is None or (raw or {}).get('kind') == 'CXXDefaultArgExpr' \
                        else 'something other than its own engine_schema parameter'
                    chk.violation(X3, 'schema-passthrough|%s' % short, locstr(n),
                                  '%s with %s: the version the caller asked for is dropped on the way to the '
                                  'factory, so a library of another version is created' % (short, what))
    if n_inst < 10:
        chk.fail_broken('X3: only %d engine_schema hand-over call(s) found (expected >= 10)' % n_inst)


def _check_same_creator(prog, chk, X3):
    """Every function that obtains a creator from the factory and calls
    create() on it (on-disk and temporary, both generations) passes the
    engine_schema it was given; at least four such entry points exist."""
    found = 0
    for f in list(prog.functions.values()):
        if f.is_pattern or f.body is None or not prog.in_repo(f.file):
            continue
        calls = []
        for n in walk(f.body):
            if n.get('kind') == 'CallExpr':
                d, q, _, _ = prog.resolve_callee(f.tu, n)
                if q == schemas.NS + 'make_schema_creator_validator':
                    calls.append(n)
        if not calls:
            continue
        creates = [n for n in walk(f.body) if n.get('kind') == 'CXXMemberCallExpr'
                   and (strip(children(n)[0]).get('name') == 'create')]
        if not creates:
            continue
        chk.analysed(f)
        found += 1
        param_schema = [p.get('id') for p in f.params if 'engine_schema' in (p.get('type') or '')]
        short = f.qualname.replace('djinterop::engine::', '')
        good = True
        for c in calls:
            arg = strip(children(c)[1], explicit=True)
            ref = (arg.get('referencedDecl') or {}).get('id')
            if ref not in param_schema:
                good = False
        if good and len(calls) == 1:
            chk.ok(X3, '%s creates through the factory with its own schema argument' % short,
                   locstr(f.node))
        else:
            chk.violation(X3, 'creator-entry|%s' % f.qualname, locstr(f.node),
                          'creates a schema through the factory with something other than the '
                          'engine_schema it was asked for')
    # a shared helper (`create_schema(db, schema)`) stands for each entry point that calls it with an engine_schema
    # of its own (the hand-over rule below judges what they pass)
    from .. import callgraph as _cgm
    _cg = _cgm.get(prog)
    _users = {f.key for f in prog.functions.values() if not f.is_pattern and f.body is not None and prog.in_repo(f.file)
              and any(n.get('kind') == 'CallExpr' and prog.resolve_callee(f.tu, n)[1] == schemas.NS + 'make_schema_creator_validator'
                      for n in walk(f.body))
              and any(n.get('kind') == 'CXXMemberCallExpr' and strip(children(n)[0]).get('name') == 'create'
                      for n in walk(f.body))}
    for g in prog.functions.values():
        if g.is_pattern or g.body is None or not prog.in_repo(g.file) or g.key in _users:
            continue
        if not any('engine_schema' in (p.get('type') or '') for p in g.params):
            continue
        if any(t.key in _users for e in _cg.edges(g) for t in e.targets):
            found += 1
            chk.analysed(g)
    if found < 4:
        chk.fail_broken('X3: only %d creation entry points use the factory (expected >= 4: '
                        'on-disk and temporary, both generations)' % found)
